(* C13 -- the transaction interpreter agrees with real script execution.  Statements only.

   Model (Ms/InterpModel.v): [interp] is the faithful iterative form of Iter::iter_next (the
   NodeEvaluationState work-list, explicit fuel, panic sites as outcomes, the final-stack
   rule) over the abstract stack of stack.rs; [interp_rec]/[ieval] is the recursive form.  The
   model mirrors the code AFTER the repairs 1fe09c47 (after() fails under a final nSequence),
   9d1ff3e4 (older() fails under tx version < 2), b1ce3b38 (Schnorr hash type byte 0x00) and
   ae1c5ffa (from_txdata commits to the script bytes on the stack).
   Specification: Script/Exec.v ([exec], [accepts]) on the ENCODED miniscript ([enc], Ms/Ast.v);
   Script/ExecTrace.v ([exec_tr], [checks], [accepts_tr]): the conditions the executed path verified;
   Ms/DenotSpec.v ([R], [Rsat]) + Theorem B (Properties/TheoremB.v): exactly which stacks the
   encoded script accepts.

   FULL STATEMENT and what is proved
     interp_iff        : type_of m = ROk t -> base t = B ->
                         ((exists cs, interp e ke kp m (astack_of_items items) = IAccept cs)
                          <-> accepts e (enc ke m) (rev items) = true)
       proved under: [env_fit] (key encodings: the script's keys acceptable, the interpreter's key
       parser = the acceptable encodings, no key is empty or the byte 01; neither the empty string
       nor the byte 01 is a valid signature), [wf] (what the constructors guarantee, as Theorem A/B),
       [icover] (no sortedmulti / sortedmulti_a node: decoding a script never produces them),
       [isel] (wherever the fragment has a d: or or_i, the signature version has MINIMALIF -- i.e.
       it is not the base version), stack items below 2^31 bytes.  Script-number arithmetic is no
       longer a hypothesis.
       =>  interp_sound_partial: needs only [keys_ok], [iwf], [icover], the item bound; no [isel],
           no hypothesis on lock time / sequence / version.
       <=  interp_complete: EVERY stack the encoded script accepts -- not only the entries of the
           specification's table: any non-preimage as hash dissatisfaction inside or_d / andor /
           thresh, and_b dissatisfied on one side, or_b satisfied on both, over-satisfied thresh or
           multi_a as a dissatisfaction, j: with X dissatisfied, pk_h with any key of the right
           hash, every CHECKMULTISIG matching -- is accepted by the interpreter.  multi and multi_a
           included.  interp_complete_denot is the same on [Rsat].
       interp_complete_base_selector_refuted: [isel] cannot be dropped.  Under the base signature
           version (P2SH / bare) the script takes ANY true value as IF selector, the evaluator only
           the byte 01: all other hypotheses hold, the script accepts <sig> 02, the evaluator
           rejects it.  (A false REJECT, not a false accept.)  isel_is_language_rule: [isel] is the
           rule "no d: / or_i without MINIMALIF", which the library's Legacy / BareCtx contexts
           enforce at decoding: from_txdata refuses such a script before evaluation, so the real
           interpreter rejects EVERY spend of e.g. sh(or_i(pk(A),pk(B))) (notes/C13.md).
     constraints_exact : constraints_exact_iff: on every stack the script accepts, the interpreter
       accepts AND the checks of the executed path (signature, preimage, lock-time checks, in order)
       are exactly the constraints it reports.  constraints_exact_partial is the forward direction
       under the hypotheses of interp_sound_partial.
       constraints_genuine_partial: every yielded constraint holds; all ms, no hypothesis.
     interp_policy     : proved in full (all fragments, no hypothesis).
     interp_complete_table: every entry of the specification's satisfaction table is accepted
       (proved directly against the table, Proofs/InterpComplete.v; kept because its hypotheses are
       about the caller's assets, not about the script's execution, and it needs no [isel]).
     interp_is_recursive: work-list evaluator = recursive evaluator, every ms and stack, no INoFuel.
   Each clause is additionally checked per run by the oracle (tools/props/c13.py). *)
From Verif Require Import Spend InterpTxdataModel InterpTxdataProofs InterpTxdataAll InterpTxdataKeys InterpTxdataPkh InterpTxdataWitness.
From Verif Require Import Exec ExecTrace Ser Ast Types TypeCheck SatSpec TheoremA DenotSpec InterpModel InterpRefine InterpSound InterpWitness InterpComplete InterpDenot InterpMain InterpPolicy InterpGenuine.
Local Open Scope N_scope.

Theorem interp_is_recursive :
  forall (e : env) (ke : keyenv) (kp : bytes -> bool) (m : ms) (st : astack),
    interp e ke kp m st = interp_rec e ke kp m st.
Proof. exact interp_eq_rec. Qed.
Print Assumptions interp_is_recursive.

(* the interpreter accepts exactly the stacks the encoded script accepts *)
Theorem interp_iff :
  forall (e : env) (ke : keyenv) (kp : bytes -> bool),
    env_fit e ke kp ->
    forall (m : ms) (t : ty) (items : list bytes),
      type_of m = ROk t -> c_base (t_corr t) = BB -> wf e ke m -> icover m -> isel e m -> items_small items ->
      ((exists cs, interp e ke kp m (astack_of_items items) = IAccept cs) <-> accepts e (enc ke m) (rev items) = true).
Proof. exact interp_iff_env. Qed.
Print Assumptions interp_iff.

(* => alone: fewer hypotheses (no [isel], one direction of the key-parser agreement, no statement
   about the byte 01), none on lock time / sequence / version *)
Theorem interp_sound_partial :
  forall (e : env) (ke : keyenv) (kp : bytes -> bool),
    keys_ok e ke kp ->
    forall (m : ms) (t : ty) (items : list bytes) (cs : list constr),
      type_of m = ROk t -> c_base (t_corr t) = BB -> iwf e m -> icover m -> items_small items ->
      interp e ke kp m (astack_of_items items) = IAccept cs ->
      accepts e (enc ke m) (rev items) = true.
Proof. exact interp_sound_env. Qed.
Print Assumptions interp_sound_partial.

(* <= alone: completeness against the Script semantics.  [w]: head = top of the stack; the
   interpreter is given the items bottom first.  No bound on the item sizes. *)
Theorem interp_complete :
  forall (e : env) (ke : keyenv) (kp : bytes -> bool),
    env_fit e ke kp ->
    forall (m : ms) (t : ty) (w : wit),
      type_of m = ROk t -> c_base (t_corr t) = BB -> wf e ke m -> icover m -> isel e m ->
      accepts e (enc ke m) w = true -> exists cs, interp e ke kp m (astack_of_items (rev w)) = IAccept cs.
Proof. exact interp_complete_env. Qed.
Print Assumptions interp_complete.

(* the same on the relation of Theorem B *)
Theorem interp_complete_denot :
  forall (e : env) (ke : keyenv) (kp : bytes -> bool),
    env_fit e ke kp ->
    forall (m : ms) (t : ty) (w : wit),
      type_of m = ROk t -> c_base (t_corr t) = BB -> wf e ke m -> icover m -> isel e m ->
      Rsat e ke m w -> exists cs, interp e ke kp m (astack_of_items (rev w)) = IAccept cs.
Proof. exact interp_complete_Rsat. Qed.
Print Assumptions interp_complete_denot.

(* [isel] is needed: base signature version, or_i, selector 02 *)
Theorem interp_complete_base_selector_refuted :
  exists (e : env) (ke : keyenv) (kp : bytes -> bool) (m : ms) (t : ty) (w : wit),
    env_fit e ke kp /\ type_of m = ROk t /\ c_base (t_corr t) = BB /\ wf e ke m /\ icover m /\
    items_small (rev w) /\ e_sv e = SvBase /\
    accepts e (enc ke m) w = true /\
    forall cs, interp e ke kp m (astack_of_items (rev w)) <> IAccept cs.
Proof. exact InterpMain.interp_complete_base_selector_refuted. Qed.
Print Assumptions interp_complete_base_selector_refuted.

(* what [isel] is: the language rule "no d: / or_i under a signature version without MINIMALIF",
   which the library's pre-segwit contexts enforce when decoding (Legacy / BareCtx:
   allow_or_i = allow_dup_if = false; Ms/ValidateModel.v is C12's model of ValidationParams).
   from_txdata decodes with decode_consensus in the output's context, so the evaluator never sees
   a script violating [isel]: spends of sh(or_i(..)) are refused as undecodable, whatever the stack
   (reproduced by the check: verdict err:from:decode; the model run on the permissively decoded
   script rejects the non-minimal selectors as the refutation says). *)
Theorem isel_is_language_rule :
  forall (e : env) (m : ms), isel e m <-> lang_ok (e_sv e) m = true.
Proof. exact isel_language_rule. Qed.
Print Assumptions isel_is_language_rule.

Example language_rule_is_context_rule :
  forall c, ValidateModel.allow_or_i (ValidateModel.ctx_consensus c) = minimalif (ctx_sv c) /\
            ValidateModel.allow_dup_if (ValidateModel.ctx_consensus c) = minimalif (ctx_sv c).
Proof. exact context_if_rule. Qed.

(* the reported constraints satisfy the lifted policy: [psat ke cs m] is the truth value of
   lift(m) in the world where exactly the reported constraints hold.  Every fragment, every
   environment, no side condition. *)
Theorem interp_policy :
  forall (e : env) (ke : keyenv) (kp : bytes -> bool) (m : ms) (t : ty) (st : astack) (cs : list constr),
    type_of m = ROk t -> c_base (t_corr t) = BB ->
    interp e ke kp m st = IAccept cs -> psat ke cs m = true.
Proof. exact interp_policy_holds. Qed.
Print Assumptions interp_policy.

(* the instrumented execution (Script/ExecTrace.v) of the encoded script accepts, and the
   conditions the executed path verified -- signature checks (CHECKSIG / CHECKSIGADD / matched
   CHECKMULTISIG pairs), preimage checks, passed CLTV / CSV -- are exactly the reported
   constraints, in the same order ([check_of] forgets the key hash of a PublicKeyHash constraint). *)
Theorem constraints_exact_partial :
  forall (e : env) (ke : keyenv) (kp : bytes -> bool),
    keys_ok e ke kp ->
    forall (m : ms) (t : ty) (items : list bytes) (cs : list constr),
      type_of m = ROk t -> c_base (t_corr t) = BB -> iwf e m -> icover m -> items_small items ->
      interp e ke kp m (astack_of_items items) = IAccept cs ->
      accepts_tr e (enc ke m) (rev items) = Some (map check_of cs).
Proof. exact interp_exact_env. Qed.
Print Assumptions constraints_exact_partial.

(* ... starting from the script: on every stack the script accepts the interpreter accepts and
   reports exactly the checks of that execution *)
Theorem constraints_exact_iff :
  forall (e : env) (ke : keyenv) (kp : bytes -> bool),
    env_fit e ke kp ->
    forall (m : ms) (t : ty) (items : list bytes),
      type_of m = ROk t -> c_base (t_corr t) = BB -> wf e ke m -> icover m -> isel e m -> items_small items ->
      accepts e (enc ke m) (rev items) = true ->
      exists cs, interp e ke kp m (astack_of_items items) = IAccept cs /\
                 accepts_tr e (enc ke m) (rev items) = Some (map check_of cs).
Proof. exact interp_iff_exact_env. Qed.
Print Assumptions constraints_exact_iff.

(* every constraint yielded -- by an accepted or a rejected run, for every miniscript -- was
   really checked and holds ([cvalid]: the signature verifies for that key, the preimage has 32
   bytes and hashes to the image, the lock time is met by the interpreter's comparison, which now
   includes "sequence not final" resp. "version >= 2"). *)
Theorem constraints_genuine_partial :
  forall (e : env) (ke : keyenv) (kp : bytes -> bool) (m : ms) (st : astack),
    match interp e ke kp m st with
    | IAccept cs | IReject _ cs => Forall (cvalid e) cs
    | _ => True
    end.
Proof. exact interp_constraints_genuine. Qed.
Print Assumptions constraints_genuine_partial.

(* RelativeTimelock: the model's [CsOlder t] carries the script's operand; the implementation
   reports the relative::LockTime it denotes, [rel_norm t] (type flag + low 16 bits; the bits CSV
   ignores are dropped by the conversion).  Both stand for the same CSV condition and the same
   validity; the tie and the oracle compare relative locks through [rel_norm]. *)
Theorem reported_older_equivalent :
  forall (e : env) (t : N), N.land t SEQ_DISABLE = 0 ->
    check_sequence e (Z.of_N (rel_norm t)) = check_sequence e (Z.of_N t) /\
    (cvalid e (CsOlder (rel_norm t)) <-> cvalid e (CsOlder t)).
Proof. exact rel_norm_equiv. Qed.
Print Assumptions reported_older_equivalent.

(* on the specification's satisfaction table (coq/Ms/SatSpec.v: the entries the library's
   satisfier answers from, C01/C02): every table satisfaction of a well-typed B script is
   accepted.  [assets_fit]: the caller's assets are genuine w.r.t. the environment (C01's
   [assets_ok], which includes that the lock times held are met by the transaction), no
   signature or key is the one-byte string 01, the script's keys parse, the empty signature
   never verifies.  Multisig leaves and raw_pk_h excluded ([ccover]); [isel] not needed (a table
   selector is 01 / empty). *)
Theorem interp_complete_table :
  forall (e : env) (ke : keyenv) (kp : bytes -> bool) (A : assets),
    assets_fit e ke kp A ->
    forall (m : ms) (t : ty) (w : wit),
      type_of m = ROk t -> c_base (t_corr t) = BB -> wf e ke m -> ccover m ->
      In w (all_sat ke A m) -> exists cs, interp e ke kp m (astack_of_items (rev w)) = IAccept cs.
Proof. exact interp_complete_sat. Qed.
Print Assumptions interp_complete_table.

(* the two former counter-examples: the repaired evaluator rejects them, as the Script semantics
   does; one step away (non-final sequence, version 2) both accept *)
Example after_final_sequence_agrees :
  interp (toy_env 100 4294967295 2) toy_ke toy_kp m_after (astack_of_items [toy_sig])
    = IReject EAbsNotMet [CsPk [2; 0] toy_sig]
  /\ accepts (toy_env 100 4294967295 2) (enc toy_ke m_after) (rev [toy_sig]) = false
  /\ interp (toy_env 100 4294967294 2) toy_ke toy_kp m_after (astack_of_items [toy_sig])
    = IAccept [CsPk [2; 0] toy_sig; CsAfter 10]
  /\ accepts (toy_env 100 4294967294 2) (enc toy_ke m_after) (rev [toy_sig]) = true.
Proof. exact after_final_sequence_rejected. Qed.

Example older_tx_version_1_agrees :
  interp (toy_env 0 5 1) toy_ke toy_kp m_older (astack_of_items [toy_sig])
    = IReject ERelDisabled [CsPk [2; 0] toy_sig]
  /\ accepts (toy_env 0 5 1) (enc toy_ke m_older) (rev [toy_sig]) = false
  /\ interp (toy_env 0 5 2) toy_ke toy_kp m_older (astack_of_items [toy_sig])
    = IAccept [CsPk [2; 0] toy_sig; CsOlder 5]
  /\ accepts (toy_env 0 5 2) (enc toy_ke m_older) (rev [toy_sig]) = true.
Proof. exact older_tx_version_1_rejected. Qed.

(* the refutation, concretely: or_i(pk(0),pk(1)), stack <sig> 02.  Base version: script accepts,
   interpreter rejects; witness v0 (MINIMALIF): the script rejects it as well; selector 01: accepted *)
Example base_selector_example :
  accepts (fit_env SvBase 0 0 2) (enc toy_ke m_ori) (rev [toy_sig; [2]]) = true
  /\ interp (fit_env SvBase 0 0 2) toy_ke shape_key m_ori (astack_of_items [toy_sig; [2]]) = IReject EElemPush []
  /\ accepts (fit_env SvWitnessV0 0 0 2) (enc toy_ke m_ori) (rev [toy_sig; [2]]) = false
  /\ interp (fit_env SvBase 0 0 2) toy_ke shape_key m_ori (astack_of_items [toy_sig; [1]]) = IAccept [CsPk [2; 0] toy_sig].
Proof. exact base_selector_witness. Qed.

(* non-vacuity of interp_sound_partial's hypotheses: an environment, a well-typed covered
   miniscript and a stack on which the interpreter accepts *)
Example C13_nonvacuous :
  keys_ok (toy_env 100 4294967294 2) toy_ke toy_kp /\
  (exists t, type_of m_after = ROk t /\ c_base (t_corr t) = BB) /\ iwf (toy_env 100 4294967294 2) m_after /\ icover m_after /\
  items_small [toy_sig] /\
  interp (toy_env 100 4294967294 2) toy_ke toy_kp m_after (astack_of_items [toy_sig]) = IAccept [CsPk [2; 0] toy_sig; CsAfter 10].
Proof. exact sound_nonvacuous. Qed.

(* non-vacuity of interp_iff / interp_complete: all hypotheses hold together and both sides are
   true, on a satisfaction that is NOT in the specification's table (or_b, both sides satisfied) *)
Example interp_iff_nonvacuous :
  exists (e : env) (ke : keyenv) (kp : bytes -> bool) (m : ms) (t : ty) (items : list bytes),
    env_fit e ke kp /\ type_of m = ROk t /\ c_base (t_corr t) = BB /\ wf e ke m /\ icover m /\ isel e m /\
    items_small items /\ accepts e (enc ke m) (rev items) = true /\
    interp e ke kp m (astack_of_items items) = IAccept [CsPk [2; 0] toy_sig; CsPk [2; 1] toy_sig].
Proof. exact iff_nonvacuous. Qed.

(* ------------------------------------------------------------------ from_txdata (src/interpreter/inner.rs)
   Model: Ms/InterpTxdataModel.v ([from_txdata]); proofs: Proofs/InterpTxdataProofs.v, InterpTxdataAll.v, InterpTxdataKeys.v.
   FULL STATEMENTS (all output types: bare, pk, pkh, wpkh, wsh, sh, sh-wpkh, sh-wsh, tr key / script path):
     from_txdata_sound: model = Ok(kind, script, stack, code) -> Spend.v's verify_spend on the same
       spk / scriptSig / witness is the execution of exactly that script (resp. CHECKSIG on that key) on
       exactly that stack;  from_txdata_complete_std: every spend verify_spend accepts, whose scriptSig holds
       only pushes / OP_1 and whose script the library decodes, is not refused;  composition with the
       evaluator's soundness.
   PROVED:
     from_txdata_sound: EVERY arm -- the five script-bearing ones (wsh, sh-wsh, sh, bare, tr script path) as an
       equation verify_spend = spec_body (the kind's size bounds && execution of that script on that stack), and
       the five key-only ones (p2pk, p2pkh, p2wpkh, sh-wpkh, tr key path) against the branches of Spend.v's
       verify_spend that handle them (p2pk / p2pkh are bare scripts for the specification; p2wpkh / sh-wpkh:
       verify_wpkh; tr key path: e_sigok).  No _partial suffix: every Ok arm of the model is covered.
     from_txdata_interp_sound: the composition for every script-bearing arm, instantiated with the
       evaluator's soundness theorem (interp_sound_partial = InterpMain.interp_sound_env); the composition
       with [interp] only concerns script kinds, so it carries no _partial suffix.
     from_txdata_interp_pk_sound: the composition with [interp_pk] for EVERY key-only arm (tr key path, p2wpkh,
       sh-wpkh, p2pkh, p2pk): the P2PKH / P2PK scripts are parsed from the symbolic scriptPubKey and executed in
       Coq (InterpTxdataKeys.p2pkh_exec, InterpTxdataPkh.parse_p2pkh / parse_p2pk / p2pkh_exec_base / p2pk_exec_base).
     from_txdata_complete_std_{wsh,shwsh,sh,bare,tr,trkey,wpkh,shwpkh,pkh,pk}: one theorem per arm, EVERY arm
       (the hypotheses differ per arm -- which element must decode / parse --, hence a family, not one statement).
     No theorem about from_txdata carries a _partial suffix any more.
   Taproot leaf version: from_txdata asks rust-bitcoin for the commitment of the control block only and never
   tests that the leaf version is 0xc0; the specification's [co] includes that test.  The equation keeps
   [co sb cb] as a factor ([cbok]); the composition assumes [f_commit fe sb cb = true -> co sb cb = true], i.e.
   that a control block whose commitment verifies carries leaf version 0xc0 (true of every output a descriptor
   builds; for another leaf version consensus does not run the script at all). *)
(* EVERY arm of from_txdata (InterpTxdataKeys.sound_statement spells the ten cases out):
     Script(sb, t):   code = Some sb, verify_spend = spec_body e t ssig sb stack cbok   (cbok: taproot commitment)
     PublicKey(k, Tr):     code = None, witness = [sg], stack = [sg], verify_spend = e_sigok e k sg
     PublicKey(k, Wpkh):   code = P2PKH script of hash160 k, witness = stack ++ [k] (bottom first),
                           verify_spend = wpkh_body e k stack (exactly one item; that script on [k; sig], witness-v0)
     PublicKey(k, ShWpkh): the same && scriptSig size bound
     PublicKey(k, Pkh):    code = spk = P2PKH script of hash160 k, verify_spend = spk executed on k :: stack
     PublicKey(k, Pk):     code = spk, spk is the P2PK script of k, verify_spend = spk executed on stack *)
Theorem from_txdata_sound :
  forall e fe co spk ssig wit i st code,
    from_txdata e fe spk ssig wit = FOk i st code -> sound_statement e fe co spk ssig wit i st code.
Proof. exact from_txdata_sound_every_arm. Qed.
Print Assumptions from_txdata_sound.

(* the script-bearing arms on their own *)
Theorem from_txdata_sound_script :
  forall e fe co spk ssig wit sb t st code,
    from_txdata e fe spk ssig wit = FOk (InScript sb t) st code ->
    code = Some sb /\
    exists cbok, (t = StTr -> exists cb, hd_error (rev wit) = Some cb /\ f_commit fe sb cb = true /\ cbok = co sb cb) /\
                 verify_spend e co spk ssig wit = spec_body e t ssig sb (map conc st) cbok.
Proof. exact from_txdata_sound_all. Qed.
Print Assumptions from_txdata_sound_script.

(* key-only kinds composed with the evaluator model for key-only outputs ([interp_pk]), EVERY key-only arm:
   the model answers Ok(PublicKey(k, t)), interp_pk accepts on the stack handed over; except for the taproot key
   path the key must be acceptable to the Script rules ([e_keyok]) and the scriptSig within the size bound; for
   the witness-v0 kinds the key has 33 bytes  =>  verify_spend accepts *)
Theorem from_txdata_interp_pk_sound :
  forall e fe co spk ssig wit k t st code cs,
    from_txdata e fe spk ssig wit = FOk (InPk k t) st code ->
    interp_pk e k st = IAccept cs ->
    (t <> PtTr -> e_keyok e k = true /\ N.leb (blen ssig) 1650 = true) ->
    (t = PtWpkh \/ t = PtShWpkh -> N.eqb (blen k) 33 = true) ->
    verify_spend e co spk ssig wit = true.
Proof. exact from_txdata_interp_pk_sound_all. Qed.
Print Assumptions from_txdata_interp_pk_sound.

Theorem from_txdata_interp_pk_sound_trkey :
  forall e fe co spk ssig wit k st code cs,
    from_txdata e fe spk ssig wit = FOk (InPk k PtTr) st code ->
    interp_pk e k st = IAccept cs ->
    verify_spend e co spk ssig wit = true.
Proof. exact from_txdata_interp_pk_trkey. Qed.
Print Assumptions from_txdata_interp_pk_sound_trkey.

Theorem from_txdata_interp_pk_sound_wpkh :
  forall e fe co spk ssig wit k t st code cs,
    from_txdata e fe spk ssig wit = FOk (InPk k t) st code -> t = PtWpkh \/ t = PtShWpkh ->
    interp_pk e k st = IAccept cs ->
    N.eqb (blen k) 33 = true -> e_keyok e k = true -> N.leb (blen ssig) 1650 = true ->
    verify_spend e co spk ssig wit = true.
Proof. exact from_txdata_interp_pk_wpkh. Qed.
Print Assumptions from_txdata_interp_pk_sound_wpkh.

(* completeness, key-only arms (all five) *)
Theorem from_txdata_complete_std_pkh :
  forall e fe co spk ssig wit h k r c,
    spk_is_p2pkh spk = Some h ->
    ssig_stack_of ssig = Some (EPush k :: r) -> f_pk fe k = Some c ->
    verify_spend e co spk ssig wit = true ->
    from_txdata e fe spk ssig wit = FOk (InPk k PtPkh) r (Some spk).
Proof. exact from_txdata_complete_pkh. Qed.
Print Assumptions from_txdata_complete_std_pkh.

Theorem from_txdata_complete_std_trkey :
  forall e fe co spk ssig wit k sg,
    spk_is_p2tr spk = Some k -> wit = [sg] ->
    verify_spend e co spk ssig wit = true -> f_xonly fe k = true ->
    from_txdata e fe spk ssig wit = FOk (InPk k PtTr) [elem_of sg] None.
Proof. exact from_txdata_complete_trkey. Qed.
Print Assumptions from_txdata_complete_std_trkey.

Theorem from_txdata_complete_std_wpkh :
  forall e fe co spk ssig wit h,
    spk_is_p2wpkh spk = Some h ->
    verify_spend e co spk ssig wit = true ->
    (forall k, hd_error (rev wit) = Some k -> f_pk fe k = Some true) ->
    exists k sg, wit = [sg; k] /\
                 from_txdata e fe spk ssig wit = FOk (InPk k PtWpkh) [elem_of sg] (Some (p2pkh_bytes (e_hash160 e k))).
Proof. exact from_txdata_complete_wpkh. Qed.
Print Assumptions from_txdata_complete_std_wpkh.

Theorem from_txdata_complete_std_shwpkh :
  forall e fe co spk ssig wit h el r kh,
    spk_is_p2sh spk = Some h ->
    ssig_stack_of ssig = Some (el :: r) -> spk_is_p2wpkh (conc el) = Some kh ->
    verify_spend e co spk ssig wit = true ->
    (forall k, hd_error (rev wit) = Some k -> f_pk fe k = Some true) ->
    exists k sg, wit = [sg; k] /\
                 from_txdata e fe spk ssig wit = FOk (InPk k PtShWpkh) [elem_of sg] (Some (p2pkh_bytes (e_hash160 e k))).
Proof. exact from_txdata_complete_shwpkh. Qed.
Print Assumptions from_txdata_complete_std_shwpkh.

Theorem from_txdata_complete_std_pk :
  forall e fe co spk ssig wit k st c,
    spk_is_p2pk spk = Some k -> ssig_stack_of ssig = Some st ->
    verify_spend e co spk ssig wit = true -> f_pk fe k = Some c ->
    from_txdata e fe spk ssig wit = FOk (InPk k PtPk) st (Some spk).
Proof. exact from_txdata_complete_pk. Qed.
Print Assumptions from_txdata_complete_std_pk.

(* the same, arm by arm, with the body spelled out *)
Theorem from_txdata_sound_wsh_eq :
  forall e fe co spk ssig wit sb st code,
    from_txdata e fe spk ssig wit = FOk (InScript sb StWsh) st code ->
    code = Some sb /\ verify_spend e co spk ssig wit = wsh_body e sb (map conc st).
Proof. exact from_txdata_sound_wsh. Qed.
Print Assumptions from_txdata_sound_wsh_eq.

Theorem from_txdata_sound_tr_eq :
  forall e fe co spk ssig wit sb st code,
    from_txdata e fe spk ssig wit = FOk (InScript sb StTr) st code ->
    exists cb, rev wit = cb :: sb :: map conc st /\ f_commit fe sb cb = true /\
               verify_spend e co spk ssig wit = (co sb cb && tr_body e sb (map conc st)).
Proof. exact from_txdata_sound_tr. Qed.
Print Assumptions from_txdata_sound_tr_eq.

(* completeness, one theorem per script-bearing arm (with the key-only arms above: from_txdata_complete_std_*,
   every arm).  Common shape: the specification accepts + the scriptSig lexes into pushes / OP_1
   ([ssig_stack_of ssig = Some ..]; see from_txdata_opn_expected_push for why this is needed) + the library
   decodes the script element in the arm's context (+ taproot: keys / control block parse, commitment checks
   agree)  =>  the model answers Ok with that script, the rest of the stack and the script as script code. *)
Theorem from_txdata_complete_std_wsh :
  forall e fe co spk ssig wit prog,
    spk_is_p2wsh spk = Some prog ->
    verify_spend e co spk ssig wit = true ->
    (forall sb, hd_error (rev wit) = Some sb -> f_dec fe DSegv0 sb = true) ->
    exists sb st, from_txdata e fe spk ssig wit = FOk (InScript sb StWsh) st (Some sb) /\ rev wit = sb :: map conc st.
Proof. exact from_txdata_complete_wsh. Qed.
Print Assumptions from_txdata_complete_std_wsh.

Theorem from_txdata_complete_std_shwsh :
  forall e fe co spk ssig wit h el r prog,
    spk_is_p2sh spk = Some h ->
    ssig_stack_of ssig = Some (el :: r) -> spk_is_p2wsh (conc el) = Some prog ->
    verify_spend e co spk ssig wit = true ->
    (forall sb, hd_error (rev wit) = Some sb -> f_dec fe DSegv0 sb = true) ->
    exists sb st, from_txdata e fe spk ssig wit = FOk (InScript sb StShWsh) st (Some sb) /\ rev wit = sb :: map conc st.
Proof. exact from_txdata_complete_shwsh. Qed.
Print Assumptions from_txdata_complete_std_shwsh.

Theorem from_txdata_complete_std_sh :
  forall e fe co spk ssig wit h el r,
    spk_is_p2sh spk = Some h ->
    ssig_stack_of ssig = Some (el :: r) -> spk_is_p2wsh (conc el) = None -> spk_is_p2wpkh (conc el) = None ->
    verify_spend e co spk ssig wit = true ->
    f_dec fe DLegacy (conc el) = true ->
    from_txdata e fe spk ssig wit = FOk (InScript (conc el) StSh) r (Some (conc el)).
Proof. exact from_txdata_complete_sh. Qed.
Print Assumptions from_txdata_complete_std_sh.

Theorem from_txdata_complete_std_bare :
  forall e fe co spk ssig wit st,
    spk_is_p2pk spk = None -> spk_is_p2pkh spk = None -> spk_is_p2wpkh spk = None -> spk_is_p2wsh spk = None ->
    spk_is_p2tr spk = None -> spk_is_p2sh spk = None ->
    ssig_stack_of ssig = Some st ->
    verify_spend e co spk ssig wit = true ->
    f_dec fe DBare spk = true ->
    from_txdata e fe spk ssig wit = FOk (InScript spk StBare) st (Some spk).
Proof. exact from_txdata_complete_bare. Qed.
Print Assumptions from_txdata_complete_std_bare.

Theorem from_txdata_complete_std_tr :
  forall e fe co spk ssig wit k cb sb items,
    spk_is_p2tr spk = Some k -> rev wit = cb :: sb :: items ->
    verify_spend e co spk ssig wit = true ->
    f_xonly fe k = true -> cb_decode_ok fe cb = true -> f_dec fe DTap sb = true ->
    (co sb cb = true -> f_commit fe sb cb = true) ->
    exists st, from_txdata e fe spk ssig wit = FOk (InScript sb StTr) st (Some sb) /\ items = map conc st.
Proof. exact from_txdata_complete_tr. Qed.
Print Assumptions from_txdata_complete_std_tr.

(* model of from_txdata answers Ok(Script ..) and the evaluator model accepts the decoded miniscript on the
   stack it was handed (hypotheses of interp_sound_partial, under the kind's signature version) and the kind's
   size bounds hold  =>  the specification's verify_spend accepts.  Every script-bearing output type. *)
Theorem from_txdata_interp_sound :
  forall e fe co ke kp spk ssig wit sb t st code (m : ms) (ty0 : ty) (cs : list constr),
    from_txdata e fe spk ssig wit = FOk (InScript sb t) st code ->
    parse_script sb = Some (enc ke m) ->
    keys_ok (with_sv e (sv_of t)) ke kp ->
    type_of m = ROk ty0 -> c_base (t_corr ty0) = BB -> iwf (with_sv e (sv_of t)) m -> icover m ->
    items_small (map conc st) ->
    interp (with_sv e (sv_of t)) ke kp m st = IAccept cs ->
    std_bounds t ssig sb (enc ke m) (map conc st) = true ->
    (forall cb, f_commit fe sb cb = true -> co sb cb = true) ->
    verify_spend e co spk ssig wit = true.
Proof. exact from_txdata_interp_sound_all. Qed.
Print Assumptions from_txdata_interp_sound.

(* non-vacuity of from_txdata_interp_sound: every hypothesis holds (bare and_v(v:pk(A),after(10)), scriptSig =
   the push of a signature) and the conclusion is true *)
Example from_txdata_interp_sound_nonvacuous :
  from_txdata nv_env ftx_toy_fenv nv_spk nv_ssig [] = FOk (InScript nv_spk StBare) [EPush toy_sig] (Some nv_spk) /\
  parse_script nv_spk = Some (enc toy_ke m_after) /\
  keys_ok (with_sv nv_env (sv_of StBare)) toy_ke toy_kp /\
  (exists t, type_of m_after = ROk t /\ c_base (t_corr t) = BB) /\
  iwf (with_sv nv_env (sv_of StBare)) m_after /\ icover m_after /\
  items_small (map conc [EPush toy_sig]) /\
  interp (with_sv nv_env (sv_of StBare)) toy_ke toy_kp m_after [EPush toy_sig] = IAccept [CsPk [2; 0] toy_sig; CsAfter 10] /\
  std_bounds StBare nv_ssig nv_spk (enc toy_ke m_after) (map conc [EPush toy_sig]) = true /\
  (forall co, verify_spend nv_env co nv_spk nv_ssig [] = true).
Proof. exact ftx_interp_nonvacuous. Qed.

Example from_txdata_nonvacuous :
  from_txdata ftx_toy_env ftx_toy_fenv ftx_toy_spk [] [[5; 5]; [81]]
  = FOk (InScript [81] StWsh) [EPush [5; 5]] (Some [81]).
Proof. exact ftx_nonvacuous. Qed.

(* completeness is not over-claimed: OP_2 in a scriptSig is push-only for the specification, ExpectedPush here *)
Example from_txdata_opn_expected_push :
  pushonly_stack [INum 2] [] = Some [[2]] /\ parse_script [82] = Some [INum 2] /\
  from_txdata ftx_toy_env ftx_toy_fenv (169 :: 20 :: repeat 9 20 ++ [135]) [82] [] = FErr FExpectedPush.
Proof. exact ftx_opn_expected_push. Qed.

