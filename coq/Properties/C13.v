(* C13 -- the transaction interpreter agrees with real script execution.  Statements only.

   Model: Ms/InterpModel.v ([interp]: the work-list evaluator of Iter::iter_next with the
   final-stack rule; [interp_rec]/[ieval]: the recursive form).  Specification: Script/Exec.v
   ([exec], [accepts]) on the ENCODED miniscript (Ms/Ast.v [enc]), Script/ExecTrace.v
   ([exec_tr], [checks]: the conditions the executed path verified).

   FULL STATEMENT (interp_sound):
     forall e ke kp m t items cs, type_of m = ROk t -> c_base (t_corr t) = BB -> wf ... ->
       interp e ke kp m (astack_of_items items) = IAccept cs ->
       accepts e (enc ke m) (rev items) = true.
   It is FALSE for the code that exists: interp_sound_refuted (two independent witnesses:
   `after` under a final nSequence, `older` under transaction version 1). *)
From Verif Require Import Exec Ser Ast Types TypeCheck InterpModel InterpRefuted.
Local Open Scope N_scope.

(* finding (DESIGN 10-h): evaluate_after ignores BIP65's "nSequence must not be final" *)
Theorem interp_sound_refuted :
  exists (e : env) (ke : keyenv) (kp : bytes -> bool) (m : ms) (items : list bytes) (cs : list constr),
    (exists t, type_of m = ROk t /\ c_base (t_corr t) = BB) /\
    interp e ke kp m (astack_of_items items) = IAccept cs /\
    accepts e (enc ke m) (rev items) = false /\
    e_sequence e = SEQ_FINAL.
Proof. exact refuted_final. Qed.
Print Assumptions interp_sound_refuted.

(* finding: evaluate_older ignores BIP112's "transaction version >= 2" *)
Theorem interp_sound_refuted_version :
  exists (e : env) (ke : keyenv) (kp : bytes -> bool) (m : ms) (items : list bytes) (cs : list constr),
    (exists t, type_of m = ROk t /\ c_base (t_corr t) = BB) /\
    interp e ke kp m (astack_of_items items) = IAccept cs /\
    accepts e (enc ke m) (rev items) = false /\
    e_sequence e <> SEQ_FINAL /\ e_txversion e = 1.
Proof. exact refuted_version. Qed.
Print Assumptions interp_sound_refuted_version.
