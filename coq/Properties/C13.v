(* C13 -- the transaction interpreter agrees with real script execution.  Statements only.

   Model (Ms/InterpModel.v): [interp] is the faithful iterative form of Iter::iter_next (the
   NodeEvaluationState work-list, explicit fuel, panic sites as outcomes, the final-stack
   rule) over the abstract stack of stack.rs; [interp_rec]/[ieval] is the recursive form.  The
   model mirrors the code AFTER the repairs 1fe09c47 (after() fails under a final nSequence),
   9d1ff3e4 (older() fails under tx version < 2), b1ce3b38 (Schnorr hash type byte 0x00) and
   ae1c5ffa (from_txdata commits to the script bytes on the stack).
   Specification: Script/Exec.v ([exec], [accepts]) on the ENCODED miniscript ([enc], Ms/Ast.v);
   Script/ExecTrace.v ([exec_tr], [checks], [accepts_tr]): the conditions the executed path verified.

   FULL STATEMENTS and what is proved
     interp_sound      : type_of m = ROk t -> base t = B ->
                         interp e ke kp m (astack_of_items items) = IAccept cs ->
                         accepts e (enc ke m) (rev items) = true
       interp_sound_partial: proved with NO hypothesis on lock time / sequence / version (the two side
       conditions of the earlier version are gone: before the repairs the unconditional statement
       was refuted, see notes/C13.md).  What is still missing for the bare statement: [num_facts]
       (arithmetic facts about script numbers, the same hypotheses as C01), [keys_ok] (key
       encodings acceptable, the empty signature never verifies), [iwf] (what the constructors
       guarantee: lock values, threshold bounds, signature version of multi / multi_a), stack
       items below 2^31 bytes, and [icover]: sortedmulti / sortedmulti_a nodes, which decoding a
       script never produces.
     constraints_exact : ... -> accepts_tr e (enc ke m) (rev items) = Some (map check_of cs)
       constraints_exact_partial: same hypotheses as interp_sound_partial.
       constraints_genuine_partial: every yielded constraint holds; all ms, no hypothesis.
     interp_policy     : proved in full (all fragments, no hypothesis).
     interp_complete   : interp_complete_partial: every entry of the specification's satisfaction
       table is accepted (multisig leaves excepted); "satisfier output is a table entry" is C01's tie.
     interp_is_recursive: work-list evaluator = recursive evaluator, every ms and stack, no INoFuel.
   Each clause is additionally checked per run by the oracle (tools/props/c13.py). *)
From Verif Require Import Exec ExecTrace Ser Ast Types TypeCheck SatSpec TheoremA InterpModel InterpRefine InterpSound InterpWitness InterpComplete InterpMain InterpPolicy InterpGenuine.
Local Open Scope N_scope.

Theorem interp_is_recursive :
  forall (e : env) (ke : keyenv) (kp : bytes -> bool) (m : ms) (st : astack),
    interp e ke kp m st = interp_rec e ke kp m st.
Proof. exact interp_eq_rec. Qed.
Print Assumptions interp_is_recursive.

Theorem interp_sound_partial :
  forall (e : env) (ke : keyenv) (kp : bytes -> bool),
    num_facts -> keys_ok e ke kp ->
    forall (m : ms) (t : ty) (items : list bytes) (cs : list constr),
      type_of m = ROk t -> c_base (t_corr t) = BB -> iwf e m -> icover m -> items_small items ->
      interp e ke kp m (astack_of_items items) = IAccept cs ->
      accepts e (enc ke m) (rev items) = true.
Proof. exact interp_sound_env. Qed.
Print Assumptions interp_sound_partial.

(* the reported constraints satisfy the lifted policy: [psat ke cs m] is the truth value of
   lift(m) in the world where exactly the reported constraints hold.  Every fragment, every
   environment, no side condition. *)
Theorem interp_policy :
  forall (e : env) (ke : keyenv) (kp : bytes -> bool) (m : ms) (t : ty) (st : astack) (cs : list constr),
    type_of m = ROk t -> c_base (t_corr t) = BB ->
    interp e ke kp m st = IAccept cs -> psat ke cs m = true.
Proof. exact interp_policy_holds. Qed.
Print Assumptions interp_policy.

(* the instrumented execution (Script/ExecTrace.v) of the encoded script accepts, and the
   conditions the executed path verified -- signature checks (CHECKSIG / CHECKSIGADD / matched
   CHECKMULTISIG pairs), preimage checks, passed CLTV / CSV -- are exactly the reported
   constraints, in the same order ([check_of] forgets the key hash of a PublicKeyHash constraint). *)
Theorem constraints_exact_partial :
  forall (e : env) (ke : keyenv) (kp : bytes -> bool),
    num_facts -> keys_ok e ke kp ->
    forall (m : ms) (t : ty) (items : list bytes) (cs : list constr),
      type_of m = ROk t -> c_base (t_corr t) = BB -> iwf e m -> icover m -> items_small items ->
      interp e ke kp m (astack_of_items items) = IAccept cs ->
      accepts_tr e (enc ke m) (rev items) = Some (map check_of cs).
Proof. exact interp_exact_env. Qed.
Print Assumptions constraints_exact_partial.

(* every constraint yielded -- by an accepted or a rejected run, for every miniscript -- was
   really checked and holds ([cvalid]: the signature verifies for that key, the preimage has 32
   bytes and hashes to the image, the lock time is met by the interpreter's comparison, which now
   includes "sequence not final" resp. "version >= 2"). *)
Theorem constraints_genuine_partial :
  forall (e : env) (ke : keyenv) (kp : bytes -> bool) (m : ms) (st : astack),
    match interp e ke kp m st with
    | IAccept cs | IReject _ cs => Forall (cvalid e) cs
    | _ => True
    end.
Proof. exact interp_constraints_genuine. Qed.
Print Assumptions constraints_genuine_partial.

(* interp_complete, on the specification's satisfaction table (coq/Ms/SatSpec.v: the entries the
   library's satisfier answers from, C01/C02): every table satisfaction of a well-typed B script
   is accepted.  Stack order: a table witness has its head on top, the interpreter is given the
   items bottom first.  [assets_fit]: the caller's assets are genuine w.r.t. the environment
   (C01's [assets_ok], which includes that the lock times held are met by the transaction), no
   signature or key is the one-byte string 01, the script's keys parse, the empty signature
   never verifies.  Multisig leaves and raw_pk_h excluded ([ccover]). *)
Theorem interp_complete_partial :
  forall (e : env) (ke : keyenv) (kp : bytes -> bool) (A : assets),
    num_facts -> assets_fit e ke kp A ->
    forall (m : ms) (t : ty) (w : wit),
      type_of m = ROk t -> c_base (t_corr t) = BB -> wf e ke m -> ccover m ->
      In w (all_sat ke A m) -> exists cs, interp e ke kp m (astack_of_items (rev w)) = IAccept cs.
Proof. exact interp_complete_sat. Qed.
Print Assumptions interp_complete_partial.

(* the two former counter-examples: the repaired evaluator rejects them, as the Script semantics
   does; one step away (non-final sequence, version 2) both accept *)
Example after_final_sequence_agrees :
  interp (toy_env 100 4294967295 2) toy_ke toy_kp m_after (astack_of_items [toy_sig])
    = IReject EAbsNotMet [CsPk [2; 0] toy_sig]
  /\ accepts (toy_env 100 4294967295 2) (enc toy_ke m_after) (rev [toy_sig]) = false
  /\ interp (toy_env 100 4294967294 2) toy_ke toy_kp m_after (astack_of_items [toy_sig])
    = IAccept [CsPk [2; 0] toy_sig; CsAfter 10]
  /\ accepts (toy_env 100 4294967294 2) (enc toy_ke m_after) (rev [toy_sig]) = true.
Proof. exact after_final_sequence_rejected. Qed.

Example older_tx_version_1_agrees :
  interp (toy_env 0 5 1) toy_ke toy_kp m_older (astack_of_items [toy_sig])
    = IReject ERelDisabled [CsPk [2; 0] toy_sig]
  /\ accepts (toy_env 0 5 1) (enc toy_ke m_older) (rev [toy_sig]) = false
  /\ interp (toy_env 0 5 2) toy_ke toy_kp m_older (astack_of_items [toy_sig])
    = IAccept [CsPk [2; 0] toy_sig; CsOlder 5]
  /\ accepts (toy_env 0 5 2) (enc toy_ke m_older) (rev [toy_sig]) = true.
Proof. exact older_tx_version_1_rejected. Qed.

(* non-vacuity of interp_sound_partial's hypotheses: an environment, a well-typed covered
   miniscript and a stack on which the interpreter accepts *)
Example C13_nonvacuous :
  keys_ok (toy_env 100 4294967294 2) toy_ke toy_kp /\
  (exists t, type_of m_after = ROk t /\ c_base (t_corr t) = BB) /\ iwf (toy_env 100 4294967294 2) m_after /\ icover m_after /\
  items_small [toy_sig] /\
  interp (toy_env 100 4294967294 2) toy_ke toy_kp m_after (astack_of_items [toy_sig]) = IAccept [CsPk [2; 0] toy_sig; CsAfter 10].
Proof. exact sound_nonvacuous. Qed.
