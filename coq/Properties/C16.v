(* C16 — Descriptors map to the standard output scripts, addresses and derived keys.
   Statements only; every proof is `exact <lemma>`.  Model: Ms/DescWrapModel.v.

   LEVEL.  hash160, sha256, the taproot Merkle root / tweak, BIP32 child derivation (ckd) and
   the parsing of key bytes are ABSTRACT (universally quantified functions); base58/bech32
   address encodings are not in the model (the check compares addresses with
   Address::from_script in the harness).  What is proved is the byte-level construction
   around these primitives, for all inputs. *)
From Coq Require Import List Bool NArith Permutation Sorted.
Import ListNotations.
From Verif Require Import DescWrapModel DescWrapProofs DescWrapStd DescWrapSort DescWrapKeys DescWrapSplit
  DescWrapFind DescWrapPaths DescWrapParse DescWrapEntry DescWrapOrigin.
Local Open Scope N_scope.

(* ---------------------------------------------------------------- push_roundtrip *)
(* The push encoding reads back as the same bytes (whatever follows), uses the shortest
   length prefix, and the prefix form changes exactly at 75/76, 255/256, 65535/65536. *)
Theorem C16_push_roundtrip : forall d rest, blen d < 4294967296 ->
  parse_push (push_slice d ++ rest) = Some (d, rest) /\ minimal_prefix (push_slice d ++ rest) = true.
Proof. exact (fun d rest H => conj (push_roundtrip d rest H) (push_minimal d rest H)). Qed.
Print Assumptions C16_push_roundtrip.

Theorem C16_push_thresholds : forall d,
  (blen d <= 75 -> push_slice d = blen d :: d) /\
  (76 <= blen d <= 255 -> push_slice d = 76 :: blen d :: d) /\
  (256 <= blen d <= 65535 -> push_slice d = 77 :: blen d mod 256 :: blen d / 256 :: d) /\
  (65536 <= blen d -> push_slice d = 78 :: blen d mod 256 :: (blen d / 256) mod 256 :: (blen d / 65536) mod 256
                                       :: blen d / 16777216 :: d).
Proof.
  exact (fun d => conj (push_slice_direct d) (conj (push_slice_pushdata1 d)
                  (conj (push_slice_pushdata2 d) (push_slice_pushdata4 d)))).
Qed.
Print Assumptions C16_push_thresholds.

(* ---------------------------------------------------------------- spk_std *)
Definition hash_lengths (hash160 sha256 : bytes -> bytes) (tap_output_key : bytes -> option bytes -> bytes) : Prop :=
  (forall b, length (hash160 b) = 20%nat) /\ (forall b, length (sha256 b) = 32%nat) /\
  (forall x r, length (tap_output_key x r) = 32%nat).

(* For every non-taproot descriptor the scriptPubKey is the standard template of its type
   applied to the hash of its explicit script. *)
Theorem C16_spk_std : forall hash160 sha256 tap_root tap_output_key,
  hash_lengths hash160 sha256 tap_output_key ->
  forall d s, explicit_script hash160 d = Some (Some s) ->
  script_pubkey hash160 sha256 tap_root tap_output_key d = Some (std_of_explicit hash160 sha256 d s).
Proof.
  exact (fun h s tr tk H => spk_std h s tr tk (proj1 H) (proj1 (proj2 H))).
Qed.
Print Assumptions C16_spk_std.

(* The key-only types and taproot: p2pkh / p2wpkh / p2sh-p2wpkh of the key's hash160,
   p2pk of the key, p2tr of the output key. *)
Theorem C16_spk_key_types : forall hash160 sha256 tap_root tap_output_key,
  hash_lengths hash160 sha256 tap_output_key ->
  let spk := script_pubkey hash160 sha256 tap_root tap_output_key in
  (forall k, spk (DPkh k) = Some (std_p2pkh (hash160 (pk_ser k)))) /\
  (forall k, pk_compressed k = true -> spk (DWpkh k) = Some (std_p2wpkh (hash160 (pk_ser k)))) /\
  (forall k, pk_compressed k = true ->
     spk (DShWpkh k) = Some (std_p2sh (hash160 (std_p2wpkh (hash160 (pk_ser k)))))) /\
  (forall k, blen (pk_ser k) <= 75 -> spk (DBare (MsPk k)) = Some (std_p2pk (pk_ser k))) /\
  (forall leaves ik ls, tr_leaf_scripts hash160 leaves = Some ls ->
     spk (DTr leaves ik) = Some (std_p2tr (tap_output_key (pk_x ik) (tap_root ls)))).
Proof.
  exact (fun h s tr tk H =>
    conj (spk_pkh h s tr tk (proj1 H))
   (conj (spk_wpkh h s tr tk (proj1 H))
   (conj (spk_sh_wpkh h s tr tk (proj1 H))
   (conj (spk_bare_pk h s tr tk)
         (spk_tr h s tr tk (proj2 (proj2 H))))))).
Qed.
Print Assumptions C16_spk_key_types.

(* ---------------------------------------------------------------- mutual *)
(* sh(wsh): the unsigned scriptSig is one push of exactly the redeem script (the p2wsh
   program of the witness script), whose hash160 is in the scriptPubKey; the script code
   is the witness script. *)
Theorem C16_mutual_sh_wsh : forall hash160 sha256 tap_root tap_output_key,
  hash_lengths hash160 sha256 tap_output_key ->
  forall m w, explicit_script hash160 (DShWsh m) = Some (Some w) ->
  let redeem := std_p2wsh (sha256 w) in
  unsigned_script_sig hash160 sha256 (DShWsh m) = Some (push_slice redeem) /\
  parse_push (push_slice redeem) = Some (redeem, []) /\
  script_pubkey hash160 sha256 tap_root tap_output_key (DShWsh m) = Some (std_p2sh (hash160 redeem)) /\
  script_code hash160 (DShWsh m) = Some (Some w).
Proof. exact (fun h s tr tk H => mutual_sh_wsh h s tr tk (proj1 H) (proj1 (proj2 H))). Qed.
Print Assumptions C16_mutual_sh_wsh.

Theorem C16_mutual_sh_wpkh : forall hash160 sha256 tap_root tap_output_key,
  hash_lengths hash160 sha256 tap_output_key ->
  forall k, pk_compressed k = true ->
  let redeem := std_p2wpkh (hash160 (pk_ser k)) in
  unsigned_script_sig hash160 sha256 (DShWpkh k) = Some (push_slice redeem) /\
  parse_push (push_slice redeem) = Some (redeem, []) /\
  explicit_script hash160 (DShWpkh k) = Some (Some redeem) /\
  script_pubkey hash160 sha256 tap_root tap_output_key (DShWpkh k) = Some (std_p2sh (hash160 redeem)) /\
  script_code hash160 (DShWpkh k) = Some (Some (std_p2pkh (hash160 (pk_ser k)))).
Proof. exact (fun h s tr tk H => mutual_sh_wpkh h s tr tk (proj1 H)). Qed.
Print Assumptions C16_mutual_sh_wpkh.

(* every other type has an empty unsigned scriptSig; the script code of wpkh is the p2pkh
   form, of wsh the witness script, of sh the redeem script; the inner / witness script
   hashes into the scriptPubKey or into the redeem script *)
Theorem C16_mutual_rest : forall hash160 sha256 tap_root tap_output_key,
  hash_lengths hash160 sha256 tap_output_key ->
  let spk := script_pubkey hash160 sha256 tap_root tap_output_key in
  let expl := explicit_script hash160 in
  let code := script_code hash160 in
  (forall d, match d with DShWsh _ | DShWpkh _ => True | _ => unsigned_script_sig hash160 sha256 d = Some [] end) /\
  (forall d, match d with
             | DWpkh k | DShWpkh k => code d = Some (Some (std_p2pkh (hash160 (pk_ser k))))
             | DWsh _ | DShWsh _ | DSh _ => code d = expl d
             | DBare _ | DPkh _ => code d = omap Some (spk d)
             | DTr _ _ => code d = Some None
             end) /\
  (forall d s, expl d = Some (Some s) ->
             match d with
             | DWsh _ => spk d = Some (std_p2wsh (sha256 s))
             | DSh _ | DShWpkh _ => spk d = Some (std_p2sh (hash160 s))
             | DShWsh _ => exists redeem, redeem = std_p2wsh (sha256 s) /\ spk d = Some (std_p2sh (hash160 redeem))
             | _ => spk d = Some s
             end).
Proof.
  exact (fun h s tr tk H =>
    conj (mutual_no_script_sig h s)
   (conj (script_code_spec h s tr tk (proj1 H))
         (inner_script_commitment h s tr tk (proj1 H) (proj1 (proj2 H))))).
Qed.
Print Assumptions C16_mutual_rest.

(* no script function panics on a well-formed fragment *)
Theorem C16_encode_no_panic : forall hash160 c m, ms_wf c m -> exists s, encode_ms hash160 c m = Some s.
Proof. exact encode_no_panic. Qed.
Print Assumptions C16_encode_no_panic.

(* ---------------------------------------------------------------- sortedmulti_perm *)
(* The encoding of a sorted multisig does not depend on the order in which the keys are
   listed, provided keys with equal BIP67 sort bytes are equal keys. *)
Theorem C16_sortedmulti_perm : forall hash160 c thr ks ks',
  sortkey_injective pk_comp ks -> Permutation ks ks' ->
  encode_ms hash160 c (MsSortedMulti thr ks) = encode_ms hash160 c (MsSortedMulti thr ks').
Proof. exact sortedmulti_perm. Qed.
Print Assumptions C16_sortedmulti_perm.

Theorem C16_sortedmulti_a_perm : forall hash160 c thr ks ks',
  sortkey_injective pk_x ks -> Permutation ks ks' ->
  encode_ms hash160 c (MsSortedMultiA thr ks) = encode_ms hash160 c (MsSortedMultiA thr ks').
Proof. exact sortedmulti_a_perm. Qed.
Print Assumptions C16_sortedmulti_a_perm.

(* the keys pushed are the listed keys in BIP67 order; for compressed keys this is the
   order of the pushed bytes *)
Theorem C16_sortedmulti_bip67 : forall ks,
  StronglySorted (fun a b => bytes_leb (pk_comp a) (pk_comp b) = true) (into_sorted_bip67 ks) /\
  Permutation (into_sorted_bip67 ks) ks /\
  ((forall k, In k ks -> pk_ser k = pk_comp k) ->
   StronglySorted (fun a b => bytes_leb (pk_ser a) (pk_ser b) = true) (into_sorted_bip67 ks)).
Proof.
  exact (fun ks => conj (proj1 (sortedmulti_is_bip67 ks)) (conj (proj2 (sortedmulti_is_bip67 ks))
                        (sortedmulti_sorted_by_pushed_bytes ks))).
Qed.
Print Assumptions C16_sortedmulti_bip67.

(* FULL STATEMENT (property text): for ALL key lists, Permutation ks ks' implies equal
   encodings.  Refuted for the code as it is: the sort key is the 33-byte form while the key
   as written (possibly 65 bytes) is pushed, so a point listed both compressed and
   uncompressed keeps its listing order.  (The check re-finds it on real keys:
   sh(sortedmulti(1,Kc,Ku)) vs sh(sortedmulti(1,Ku,Kc)), known finding.) *)
Theorem C16_sortedmulti_perm_refuted : forall hash160, exists thr ks ks',
  Permutation ks ks' /\
  encode_ms hash160 Ecdsa (MsSortedMulti thr ks) <> encode_ms hash160 Ecdsa (MsSortedMulti thr ks').
Proof. exact sortedmulti_perm_refuted. Qed.
Print Assumptions C16_sortedmulti_perm_refuted.

(* ---------------------------------------------------------------- multipath_split *)
(* FULL STATEMENT (holds for the code after /repo 4fc1acf3).  Without multipath keys the
   split is [d]; when every multipath key has the same number n of alternatives it is exactly
   [select i d | i < n], each element single-path; and whenever two multipath keys have
   different numbers of alternatives the result is the length-mismatch error.
   (Every multipath key has at least one path: the DerivPaths invariant.) *)
Theorem C16_multipath_split : forall d,
  ((forall k, In k (desc_keys d) -> key_is_multipath k = false) -> into_single_descriptors d = KOk [d]) /\
  (forall n, (exists k, In k (desc_keys d) /\ key_is_multipath k = true) ->
             (forall k, In k (desc_keys d) -> key_is_multipath k = true -> n_paths k = n) ->
             into_single_descriptors d = KOk (map (fun i => select_desc i d) (seq 0 n))) /\
  (forall i k, In k (desc_keys (select_desc i d)) -> key_is_multipath k = false) /\
  (forall k1 k2,
     (forall k, In k (desc_keys d) -> key_is_multipath k = true -> (0 < n_paths k)%nat) ->
     In k1 (desc_keys d) -> In k2 (desc_keys d) ->
     key_is_multipath k1 = true -> key_is_multipath k2 = true -> n_paths k1 <> n_paths k2 ->
     into_single_descriptors d = KErr ELenMismatch).
Proof.
  exact (fun d => conj (split_no_multipath d) (conj (split_uniform d)
                 (conj (fun i => select_desc_single i d) (split_error_mismatch d)))).
Qed.
Print Assumptions C16_multipath_split.

(* the parser's expansion of  pre/<a0;...>/post  is the list of paths pre ++ a :: post *)
Theorem C16_expand_paths : forall pre a0 others post,
  expand_paths (map single pre ++ [a0 :: others] ++ map single post)
  = map (fun a => pre ++ a :: post) (a0 :: others).
Proof. exact expand_paths_tuple. Qed.
Print Assumptions C16_expand_paths.

(* ---------------------------------------------------------------- the key-path parser *)
(* parse_xkey_deriv (after /repo 109461ce) accepts exactly: plain steps, or plain steps with ONE
   tuple of at least two pairwise distinct indexes, optionally followed by one final wildcard;
   and yields the paths  pre ++ a :: post. *)
Theorem C16_key_path_parser : forall toks ps w,
  parse_xkey_deriv toks = POk (ps, w) <-> shape toks ps w.
Proof. exact (fun toks ps w => conj (parse_xkey_deriv_sound toks ps w) (parse_xkey_deriv_complete toks ps w)). Qed.
Print Assumptions C16_key_path_parser.

(* a tuple that lists an index twice - in any positions - is rejected *)
Theorem C16_duplicate_alternative_rejected : forall o x depth pre l rest,
  ~ NoDup l -> exists e, parse_xpub_key o x depth (map TStep pre ++ TAlts l :: rest) = PErr e.
Proof. exact duplicate_alternative_rejected. Qed.
Print Assumptions C16_duplicate_alternative_rejected.

(* FULL STATEMENTS (hold for the code after /repo 109461ce), for EVERY key the parser accepts:
   printing is the inverse of parsing, and selecting alternative i commutes with printing. *)
Theorem C16_print_parse_id : forall o x depth toks k,
  parse_xpub_key o x depth toks = POk k -> print_key_path k = toks.
Proof. exact print_parse_id. Qed.
Print Assumptions C16_print_parse_id.

Theorem C16_print_select : forall o x depth toks k i,
  parse_xpub_key o x depth toks = POk k ->
  (key_is_multipath k = true -> (i < n_paths k)%nat) ->
  print_key_path (select_key i k) = map (select_tok i) (print_key_path k).
Proof. exact print_select_parsed. Qed.
Print Assumptions C16_print_select.

(* an accepted multipath key has >= 2 pairwise different paths (the invariant assumed by
   C16_multipath_split); every well-formed text within the BIP32 depth budget is accepted *)
Theorem C16_parsed_multipath_paths : forall o x depth toks k,
  parse_xpub_key o x depth toks = POk k -> key_is_multipath k = true ->
  (2 <= n_paths k)%nat /\ NoDup (match k with KMulti _ _ ps _ => ps | _ => [] end).
Proof. exact parsed_multipath_paths. Qed.
Print Assumptions C16_parsed_multipath_paths.

Theorem C16_parse_xpub_key_complete : forall o x depth toks k,
  parsed_key o x toks k ->
  (forall p, In p (key_paths k) -> depth + N.of_nat (length p) + wildcard_steps (key_wild k) <= 255) ->
  parse_xpub_key o x depth toks = POk k.
Proof. exact parse_xpub_key_complete. Qed.
Print Assumptions C16_parse_xpub_key_complete.

(* ---------------------------------------------------------------- derive_commutes *)
(* If every key is derivable at i from public data, at_derivation_index succeeds, replaces
   the wildcard of EVERY key by i, and any script of the derived descriptor is the script of
   the descriptor whose keys are ckd(xpub, path[* := i]); otherwise it is an error. *)
Theorem C16_derive_commutes : forall ckd full_key xonly_key (script : desc pubkey -> option bytes) i d,
  (forall k, In k (desc_keys d) -> derivable i k = true) ->
  at_derivation_index i d = KOk (desc_map (definite_form i) d) /\
  desc_keys (desc_map (definite_form i) d) = map (definite_form i) (desc_keys d) /\
  script (derived_descriptor ckd full_key xonly_key (desc_map (definite_form i) d))
  = script (desc_map (spec_key_at ckd full_key xonly_key i) d).
Proof.
  exact (fun ckd fk xk script i d H =>
    conj (proj1 (at_index_ok ckd fk xk i d H))
   (conj (proj1 (proj2 (at_index_ok ckd fk xk i d H)))
         (f_equal script (proj2 (proj2 (at_index_ok ckd fk xk i d H)))))).
Qed.
Print Assumptions C16_derive_commutes.

Theorem C16_derive_rejects : forall i d,
  (exists k, In k (desc_keys d) /\ derivable i k = false) -> exists e, at_derivation_index i d = KErr e.
Proof. exact at_index_err. Qed.
Print Assumptions C16_derive_rejects.

(* Derivation does not depend on key-origin information: rewriting the origins of the keys in
   any way (the same origin on different xpubs, different origins on the same xpub) changes
   neither derivability nor any derived key - hence no script and no address.  Together with
   C16_derive_commutes (a function of the descriptor and the index only) this also says that
   there is no dependence on what was derived before. *)
Theorem C16_origin_irrelevant : forall ckd full_key xonly_key (f : dkey -> origin) i d,
  let d' := desc_map (fun k => with_origin (f k) k) d in
  (forall k, In k (desc_keys d) -> derivable i k = true) ->
  (forall k, In k (desc_keys d') -> derivable i k = true) /\
  derived_descriptor ckd full_key xonly_key (desc_map (definite_form i) d')
  = derived_descriptor ckd full_key xonly_key (desc_map (definite_form i) d) /\
  desc_map (spec_key_at ckd full_key xonly_key i) d' = desc_map (spec_key_at ckd full_key xonly_key i) d.
Proof. exact origin_irrelevant. Qed.
Print Assumptions C16_origin_irrelevant.

Theorem C16_same_origin_different_xpub : forall ckd full_key xonly_key o x1 x2 p i,
  existsb is_hardened p = false -> valid_index i = true ->
  derive_pk_total ckd full_key xonly_key (definite_form i (KXpub o x1 p WUnhardened)) = ckd x1 (p ++ [Step false i]) /\
  derive_pk_total ckd full_key xonly_key (definite_form i (KXpub o x2 p WUnhardened)) = ckd x2 (p ++ [Step false i]).
Proof. exact same_origin_different_xpub. Qed.
Print Assumptions C16_same_origin_different_xpub.

(* the entry points agree: without a wildcard derive_at_index reports NoWildcard and (on a
   single-path descriptor) into_definite = at_derivation_index at any index; with a wildcard
   derive_at_index = at_derivation_index and into_definite reports Wildcard *)
Theorem C16_derivation_entry_points : forall i d,
  (desc_has_wildcard d = false ->
     derive_at_index i d = KErr ENoWildcard /\
     (desc_is_multipath d = false -> into_definite d = at_derivation_index i d)) /\
  (desc_has_wildcard d = true ->
     derive_at_index i d = at_derivation_index i d /\ into_definite d = KErr EWildcard).
Proof. exact derivation_entry_points. Qed.
Print Assumptions C16_derivation_entry_points.

(* find_derivation_index_for_spk is the inverse of derivation on the given range *)
Theorem C16_find_index : forall (spk_of : desc dkey -> option bytes) range d t,
  (forall i dd, find_loop spk_of range d t = KOk (Some (i, dd)) ->
     exists pre post, range = pre ++ i :: post /\ derive_at_index i d = KOk dd /\ spk_of dd = Some t /\
       forall j, In j pre -> exists dj, derive_at_index j d = KOk dj /\ spk_of dj <> Some t) /\
  ((forall j, In j range -> exists dj, derive_at_index j d = KOk dj) ->
   (exists j dj, In j range /\ derive_at_index j d = KOk dj /\ spk_of dj = Some t) ->
   exists i dd, find_loop spk_of range d t = KOk (Some (i, dd))) /\
  (desc_has_wildcard d = true -> find_derivation_index_for_spk spk_of d t range = find_loop spk_of range d t).
Proof.
  exact (fun spk_of range d t =>
    conj (find_loop_sound spk_of range d t)
   (conj (find_loop_complete spk_of range d t) (find_with_wildcard spk_of d t range))).
Qed.
Print Assumptions C16_find_index.

(* ---------------------------------------------------------------- non-vacuity *)
Example hash_lengths_satisfiable :
  hash_lengths (fun _ => repeat 0 20) (fun _ => repeat 0 32) (fun _ _ => repeat 0 32).
Proof. repeat split. Qed.

Example derivable_example :
  let d := DWsh (MsMulti 1 [KXpub None 0 [Step false 1] WUnhardened; KSingle None (SFull [2; 1] true)]) in
  (forall k, In k (desc_keys d) -> derivable 5 k = true) /\
  at_derivation_index 5 d
  = KOk (DWsh (MsMulti 1 [KXpub None 0 [Step false 1; Step false 5] WNone; KSingle None (SFull [2; 1] true)])).
Proof. split; [intros k [<-|[<-|[]]]; reflexivity | reflexivity]. Qed.

Example sortkey_injective_example : sortkey_injective pk_comp [mkPk [2; 1] [2; 1] [1] true; mkPk [3; 0] [3; 0] [0] true].
Proof. intros a b [<-|[<-|[]]] [<-|[<-|[]]] H; try reflexivity; discriminate. Qed.

(* the witness that refuted "error otherwise" before the repair is now rejected *)
Example former_mismatch_witness_rejected : into_single_descriptors mismatch_witness = KErr ELenMismatch.
Proof. exact mismatch_witness_rejected. Qed.

(* the inputs on which "selecting commutes with printing" failed before /repo 109461ce (the
   tuple <0;0;1> was printed as /0) are now rejected, wherever the repetition is *)
Example duplicate_tuples_rejected :
  let s := Step false in
  parse_xpub_key None 0 0 [TAlts [s 0; s 0; s 1]; TWild WUnhardened] = PErr PInvalidMultiIndexStep /\
  parse_xpub_key None 0 0 [TAlts [s 0; s 0]; TWild WUnhardened] = PErr PInvalidMultiIndexStep /\
  parse_xpub_key None 0 0 [TAlts [s 0; s 1; s 0]; TWild WUnhardened] = PErr PInvalidMultiIndexStep /\
  parse_xpub_key None 0 0 [TAlts [s 0; s 1; s 1]; TWild WUnhardened] = PErr PInvalidMultiIndexStep.
Proof. repeat split. Qed.

Example parse_example :
  parse_xpub_key None 3 1 [TStep (Step true 44); TAlts [Step false 0; Step false 1]; TWild WUnhardened]
  = POk (KMulti None 3 [[Step true 44; Step false 0]; [Step true 44; Step false 1]] WUnhardened).
Proof. reflexivity. Qed.

Example split_example :
  into_single_descriptors (DWpkh (KMulti None 0 [[Step false 0]; [Step false 1]] WUnhardened))
  = KOk [DWpkh (KXpub None 0 [Step false 0] WUnhardened); DWpkh (KXpub None 0 [Step false 1] WUnhardened)].
Proof. reflexivity. Qed.
