#!/bin/bash
# Extract the C13 part of the Coq development to OCaml and build its driver (offline).
set -e
cd "$(dirname "$0")"
coqc -Q ../coq/Script Verif -Q ../coq/Ms Verif -Q ../coq/Proofs Verif ../coq/Extract/ExtractInterp.v >/dev/null
rm -f ../coq/Extract/*.glob
ocamlfind ocamlopt -O2 -w -a -package str model_interp.mli model_interp.ml driver_interp.ml -o driver_interp 2>/dev/null || ocamlfind ocamlopt -w -a model_interp.mli model_interp.ml driver_interp.ml -o driver_interp
echo built ocaml/driver_interp
