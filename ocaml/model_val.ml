
(** val negb : bool -> bool **)

let negb = function
| true -> false
| false -> true

type nat =
| O
| S of nat

(** val fst : ('a1 * 'a2) -> 'a1 **)

let fst = function
| (x, _) -> x

(** val snd : ('a1 * 'a2) -> 'a2 **)

let snd = function
| (_, y) -> y

(** val length : 'a1 list -> nat **)

let rec length = function
| [] -> O
| _ :: l' -> S (length l')

(** val app : 'a1 list -> 'a1 list -> 'a1 list **)

let rec app l m =
  match l with
  | [] -> m
  | a :: l1 -> a :: (app l1 m)

type comparison =
| Eq
| Lt
| Gt

(** val compOpp : comparison -> comparison **)

let compOpp = function
| Eq -> Eq
| Lt -> Gt
| Gt -> Lt

module Coq__1 = struct
 (** val add : nat -> nat -> nat **)
 let rec add n0 m =
   match n0 with
   | O -> m
   | S p -> S (add p m)
end
include Coq__1

(** val eqb : bool -> bool -> bool **)

let eqb b1 b2 =
  if b1 then b2 else if b2 then false else true

module Nat =
 struct
  (** val leb : nat -> nat -> bool **)

  let rec leb n0 m =
    match n0 with
    | O -> true
    | S n' -> (match m with
               | O -> false
               | S m' -> leb n' m')
 end

(** val hd_error : 'a1 list -> 'a1 option **)

let hd_error = function
| [] -> None
| x :: _ -> Some x

(** val nth_error : 'a1 list -> nat -> 'a1 option **)

let rec nth_error l = function
| O -> (match l with
        | [] -> None
        | x :: _ -> Some x)
| S n1 -> (match l with
           | [] -> None
           | _ :: l0 -> nth_error l0 n1)

(** val rev : 'a1 list -> 'a1 list **)

let rec rev = function
| [] -> []
| x :: l' -> app (rev l') (x :: [])

(** val map : ('a1 -> 'a2) -> 'a1 list -> 'a2 list **)

let rec map f = function
| [] -> []
| a :: t -> (f a) :: (map f t)

(** val flat_map : ('a1 -> 'a2 list) -> 'a1 list -> 'a2 list **)

let rec flat_map f = function
| [] -> []
| x :: t -> app (f x) (flat_map f t)

(** val fold_left : ('a1 -> 'a2 -> 'a1) -> 'a2 list -> 'a1 -> 'a1 **)

let rec fold_left f l a0 =
  match l with
  | [] -> a0
  | b :: t -> fold_left f t (f a0 b)

(** val fold_right : ('a2 -> 'a1 -> 'a1) -> 'a1 -> 'a2 list -> 'a1 **)

let rec fold_right f a0 = function
| [] -> a0
| b :: t -> f b (fold_right f a0 t)

(** val existsb : ('a1 -> bool) -> 'a1 list -> bool **)

let rec existsb f = function
| [] -> false
| a :: l0 -> (||) (f a) (existsb f l0)

(** val forallb : ('a1 -> bool) -> 'a1 list -> bool **)

let rec forallb f = function
| [] -> true
| a :: l0 -> (&&) (f a) (forallb f l0)

(** val filter : ('a1 -> bool) -> 'a1 list -> 'a1 list **)

let rec filter f = function
| [] -> []
| x :: l0 -> if f x then x :: (filter f l0) else filter f l0

(** val find : ('a1 -> bool) -> 'a1 list -> 'a1 option **)

let rec find f = function
| [] -> None
| x :: tl -> if f x then Some x else find f tl

(** val repeat : 'a1 -> nat -> 'a1 list **)

let rec repeat x = function
| O -> []
| S k -> x :: (repeat x k)

type positive =
| XI of positive
| XO of positive
| XH

type n =
| N0
| Npos of positive

type z =
| Z0
| Zpos of positive
| Zneg of positive

module Pos =
 struct
  type mask =
  | IsNul
  | IsPos of positive
  | IsNeg
 end

module Coq_Pos =
 struct
  (** val succ : positive -> positive **)

  let rec succ = function
  | XI p -> XO (succ p)
  | XO p -> XI p
  | XH -> XO XH

  (** val add : positive -> positive -> positive **)

  let rec add x y =
    match x with
    | XI p ->
      (match y with
       | XI q -> XO (add_carry p q)
       | XO q -> XI (add p q)
       | XH -> XO (succ p))
    | XO p ->
      (match y with
       | XI q -> XI (add p q)
       | XO q -> XO (add p q)
       | XH -> XI p)
    | XH -> (match y with
             | XI q -> XO (succ q)
             | XO q -> XI q
             | XH -> XO XH)

  (** val add_carry : positive -> positive -> positive **)

  and add_carry x y =
    match x with
    | XI p ->
      (match y with
       | XI q -> XI (add_carry p q)
       | XO q -> XO (add_carry p q)
       | XH -> XI (succ p))
    | XO p ->
      (match y with
       | XI q -> XO (add_carry p q)
       | XO q -> XI (add p q)
       | XH -> XO (succ p))
    | XH ->
      (match y with
       | XI q -> XI (succ q)
       | XO q -> XO (succ q)
       | XH -> XI XH)

  (** val pred_double : positive -> positive **)

  let rec pred_double = function
  | XI p -> XI (XO p)
  | XO p -> XI (pred_double p)
  | XH -> XH

  type mask = Pos.mask =
  | IsNul
  | IsPos of positive
  | IsNeg

  (** val succ_double_mask : mask -> mask **)

  let succ_double_mask = function
  | IsNul -> IsPos XH
  | IsPos p -> IsPos (XI p)
  | IsNeg -> IsNeg

  (** val double_mask : mask -> mask **)

  let double_mask = function
  | IsPos p -> IsPos (XO p)
  | x0 -> x0

  (** val double_pred_mask : positive -> mask **)

  let double_pred_mask = function
  | XI p -> IsPos (XO (XO p))
  | XO p -> IsPos (XO (pred_double p))
  | XH -> IsNul

  (** val sub_mask : positive -> positive -> mask **)

  let rec sub_mask x y =
    match x with
    | XI p ->
      (match y with
       | XI q -> double_mask (sub_mask p q)
       | XO q -> succ_double_mask (sub_mask p q)
       | XH -> IsPos (XO p))
    | XO p ->
      (match y with
       | XI q -> succ_double_mask (sub_mask_carry p q)
       | XO q -> double_mask (sub_mask p q)
       | XH -> IsPos (pred_double p))
    | XH -> (match y with
             | XH -> IsNul
             | _ -> IsNeg)

  (** val sub_mask_carry : positive -> positive -> mask **)

  and sub_mask_carry x y =
    match x with
    | XI p ->
      (match y with
       | XI q -> succ_double_mask (sub_mask_carry p q)
       | XO q -> double_mask (sub_mask p q)
       | XH -> IsPos (pred_double p))
    | XO p ->
      (match y with
       | XI q -> double_mask (sub_mask_carry p q)
       | XO q -> succ_double_mask (sub_mask_carry p q)
       | XH -> double_pred_mask p)
    | XH -> IsNeg

  (** val mul : positive -> positive -> positive **)

  let rec mul x y =
    match x with
    | XI p -> add y (XO (mul p y))
    | XO p -> XO (mul p y)
    | XH -> y

  (** val size : positive -> positive **)

  let rec size = function
  | XI p0 -> succ (size p0)
  | XO p0 -> succ (size p0)
  | XH -> XH

  (** val compare_cont : comparison -> positive -> positive -> comparison **)

  let rec compare_cont r x y =
    match x with
    | XI p ->
      (match y with
       | XI q -> compare_cont r p q
       | XO q -> compare_cont Gt p q
       | XH -> Gt)
    | XO p ->
      (match y with
       | XI q -> compare_cont Lt p q
       | XO q -> compare_cont r p q
       | XH -> Gt)
    | XH -> (match y with
             | XH -> r
             | _ -> Lt)

  (** val compare : positive -> positive -> comparison **)

  let compare =
    compare_cont Eq

  (** val eqb : positive -> positive -> bool **)

  let rec eqb p q =
    match p with
    | XI p0 -> (match q with
                | XI q0 -> eqb p0 q0
                | _ -> false)
    | XO p0 -> (match q with
                | XO q0 -> eqb p0 q0
                | _ -> false)
    | XH -> (match q with
             | XH -> true
             | _ -> false)

  (** val coq_Nsucc_double : n -> n **)

  let coq_Nsucc_double = function
  | N0 -> Npos XH
  | Npos p -> Npos (XI p)

  (** val coq_Ndouble : n -> n **)

  let coq_Ndouble = function
  | N0 -> N0
  | Npos p -> Npos (XO p)

  (** val coq_land : positive -> positive -> n **)

  let rec coq_land p q =
    match p with
    | XI p0 ->
      (match q with
       | XI q0 -> coq_Nsucc_double (coq_land p0 q0)
       | XO q0 -> coq_Ndouble (coq_land p0 q0)
       | XH -> Npos XH)
    | XO p0 ->
      (match q with
       | XI q0 -> coq_Ndouble (coq_land p0 q0)
       | XO q0 -> coq_Ndouble (coq_land p0 q0)
       | XH -> N0)
    | XH -> (match q with
             | XO _ -> N0
             | _ -> Npos XH)

  (** val iter_op : ('a1 -> 'a1 -> 'a1) -> positive -> 'a1 -> 'a1 **)

  let rec iter_op op p a =
    match p with
    | XI p0 -> op a (iter_op op p0 (op a a))
    | XO p0 -> iter_op op p0 (op a a)
    | XH -> a

  (** val to_nat : positive -> nat **)

  let to_nat x =
    iter_op Coq__1.add x (S O)

  (** val of_succ_nat : nat -> positive **)

  let rec of_succ_nat = function
  | O -> XH
  | S x -> succ (of_succ_nat x)
 end

module N =
 struct
  (** val succ_double : n -> n **)

  let succ_double = function
  | N0 -> Npos XH
  | Npos p -> Npos (XI p)

  (** val double : n -> n **)

  let double = function
  | N0 -> N0
  | Npos p -> Npos (XO p)

  (** val add : n -> n -> n **)

  let add n0 m =
    match n0 with
    | N0 -> m
    | Npos p -> (match m with
                 | N0 -> n0
                 | Npos q -> Npos (Coq_Pos.add p q))

  (** val sub : n -> n -> n **)

  let sub n0 m =
    match n0 with
    | N0 -> N0
    | Npos n' ->
      (match m with
       | N0 -> n0
       | Npos m' ->
         (match Coq_Pos.sub_mask n' m' with
          | Coq_Pos.IsPos p -> Npos p
          | _ -> N0))

  (** val mul : n -> n -> n **)

  let mul n0 m =
    match n0 with
    | N0 -> N0
    | Npos p -> (match m with
                 | N0 -> N0
                 | Npos q -> Npos (Coq_Pos.mul p q))

  (** val compare : n -> n -> comparison **)

  let compare n0 m =
    match n0 with
    | N0 -> (match m with
             | N0 -> Eq
             | Npos _ -> Lt)
    | Npos n' -> (match m with
                  | N0 -> Gt
                  | Npos m' -> Coq_Pos.compare n' m')

  (** val eqb : n -> n -> bool **)

  let eqb n0 m =
    match n0 with
    | N0 -> (match m with
             | N0 -> true
             | Npos _ -> false)
    | Npos p -> (match m with
                 | N0 -> false
                 | Npos q -> Coq_Pos.eqb p q)

  (** val leb : n -> n -> bool **)

  let leb x y =
    match compare x y with
    | Gt -> false
    | _ -> true

  (** val ltb : n -> n -> bool **)

  let ltb x y =
    match compare x y with
    | Lt -> true
    | _ -> false

  (** val max : n -> n -> n **)

  let max n0 n' =
    match compare n0 n' with
    | Gt -> n0
    | _ -> n'

  (** val pos_div_eucl : positive -> n -> n * n **)

  let rec pos_div_eucl a b =
    match a with
    | XI a' ->
      let (q, r) = pos_div_eucl a' b in
      let r' = succ_double r in
      if leb b r' then ((succ_double q), (sub r' b)) else ((double q), r')
    | XO a' ->
      let (q, r) = pos_div_eucl a' b in
      let r' = double r in
      if leb b r' then ((succ_double q), (sub r' b)) else ((double q), r')
    | XH ->
      (match b with
       | N0 -> (N0, (Npos XH))
       | Npos p -> (match p with
                    | XH -> ((Npos XH), N0)
                    | _ -> (N0, (Npos XH))))

  (** val div_eucl : n -> n -> n * n **)

  let div_eucl a b =
    match a with
    | N0 -> (N0, N0)
    | Npos na -> (match b with
                  | N0 -> (N0, a)
                  | Npos _ -> pos_div_eucl na b)

  (** val div : n -> n -> n **)

  let div a b =
    fst (div_eucl a b)

  (** val modulo : n -> n -> n **)

  let modulo a b =
    snd (div_eucl a b)

  (** val coq_land : n -> n -> n **)

  let coq_land n0 m =
    match n0 with
    | N0 -> N0
    | Npos p -> (match m with
                 | N0 -> N0
                 | Npos q -> Coq_Pos.coq_land p q)

  (** val to_nat : n -> nat **)

  let to_nat = function
  | N0 -> O
  | Npos p -> Coq_Pos.to_nat p

  (** val of_nat : nat -> n **)

  let of_nat = function
  | O -> N0
  | S n' -> Npos (Coq_Pos.of_succ_nat n')
 end

module Z =
 struct
  (** val double : z -> z **)

  let double = function
  | Z0 -> Z0
  | Zpos p -> Zpos (XO p)
  | Zneg p -> Zneg (XO p)

  (** val succ_double : z -> z **)

  let succ_double = function
  | Z0 -> Zpos XH
  | Zpos p -> Zpos (XI p)
  | Zneg p -> Zneg (Coq_Pos.pred_double p)

  (** val pred_double : z -> z **)

  let pred_double = function
  | Z0 -> Zneg XH
  | Zpos p -> Zpos (Coq_Pos.pred_double p)
  | Zneg p -> Zneg (XI p)

  (** val pos_sub : positive -> positive -> z **)

  let rec pos_sub x y =
    match x with
    | XI p ->
      (match y with
       | XI q -> double (pos_sub p q)
       | XO q -> succ_double (pos_sub p q)
       | XH -> Zpos (XO p))
    | XO p ->
      (match y with
       | XI q -> pred_double (pos_sub p q)
       | XO q -> double (pos_sub p q)
       | XH -> Zpos (Coq_Pos.pred_double p))
    | XH ->
      (match y with
       | XI q -> Zneg (XO q)
       | XO q -> Zneg (Coq_Pos.pred_double q)
       | XH -> Z0)

  (** val add : z -> z -> z **)

  let add x y =
    match x with
    | Z0 -> y
    | Zpos x' ->
      (match y with
       | Z0 -> x
       | Zpos y' -> Zpos (Coq_Pos.add x' y')
       | Zneg y' -> pos_sub x' y')
    | Zneg x' ->
      (match y with
       | Z0 -> x
       | Zpos y' -> pos_sub y' x'
       | Zneg y' -> Zneg (Coq_Pos.add x' y'))

  (** val opp : z -> z **)

  let opp = function
  | Z0 -> Z0
  | Zpos x0 -> Zneg x0
  | Zneg x0 -> Zpos x0

  (** val sub : z -> z -> z **)

  let sub m n0 =
    add m (opp n0)

  (** val mul : z -> z -> z **)

  let mul x y =
    match x with
    | Z0 -> Z0
    | Zpos x' ->
      (match y with
       | Z0 -> Z0
       | Zpos y' -> Zpos (Coq_Pos.mul x' y')
       | Zneg y' -> Zneg (Coq_Pos.mul x' y'))
    | Zneg x' ->
      (match y with
       | Z0 -> Z0
       | Zpos y' -> Zneg (Coq_Pos.mul x' y')
       | Zneg y' -> Zpos (Coq_Pos.mul x' y'))

  (** val compare : z -> z -> comparison **)

  let compare x y =
    match x with
    | Z0 -> (match y with
             | Z0 -> Eq
             | Zpos _ -> Lt
             | Zneg _ -> Gt)
    | Zpos x' -> (match y with
                  | Zpos y' -> Coq_Pos.compare x' y'
                  | _ -> Gt)
    | Zneg x' ->
      (match y with
       | Zneg y' -> compOpp (Coq_Pos.compare x' y')
       | _ -> Lt)

  (** val leb : z -> z -> bool **)

  let leb x y =
    match compare x y with
    | Gt -> false
    | _ -> true

  (** val ltb : z -> z -> bool **)

  let ltb x y =
    match compare x y with
    | Lt -> true
    | _ -> false

  (** val eqb : z -> z -> bool **)

  let eqb x y =
    match x with
    | Z0 -> (match y with
             | Z0 -> true
             | _ -> false)
    | Zpos p -> (match y with
                 | Zpos q -> Coq_Pos.eqb p q
                 | _ -> false)
    | Zneg p -> (match y with
                 | Zneg q -> Coq_Pos.eqb p q
                 | _ -> false)

  (** val abs : z -> z **)

  let abs = function
  | Zneg p -> Zpos p
  | x -> x

  (** val to_nat : z -> nat **)

  let to_nat = function
  | Zpos p -> Coq_Pos.to_nat p
  | _ -> O

  (** val to_N : z -> n **)

  let to_N = function
  | Zpos p -> Npos p
  | _ -> N0

  (** val of_nat : nat -> z **)

  let of_nat = function
  | O -> Z0
  | S n1 -> Zpos (Coq_Pos.of_succ_nat n1)

  (** val of_N : n -> z **)

  let of_N = function
  | N0 -> Z0
  | Npos p -> Zpos p

  (** val pos_div_eucl : positive -> z -> z * z **)

  let rec pos_div_eucl a b =
    match a with
    | XI a' ->
      let (q, r) = pos_div_eucl a' b in
      let r' = add (mul (Zpos (XO XH)) r) (Zpos XH) in
      if ltb r' b
      then ((mul (Zpos (XO XH)) q), r')
      else ((add (mul (Zpos (XO XH)) q) (Zpos XH)), (sub r' b))
    | XO a' ->
      let (q, r) = pos_div_eucl a' b in
      let r' = mul (Zpos (XO XH)) r in
      if ltb r' b
      then ((mul (Zpos (XO XH)) q), r')
      else ((add (mul (Zpos (XO XH)) q) (Zpos XH)), (sub r' b))
    | XH -> if leb (Zpos (XO XH)) b then (Z0, (Zpos XH)) else ((Zpos XH), Z0)

  (** val div_eucl : z -> z -> z * z **)

  let div_eucl a b =
    match a with
    | Z0 -> (Z0, Z0)
    | Zpos a' ->
      (match b with
       | Z0 -> (Z0, a)
       | Zpos _ -> pos_div_eucl a' b
       | Zneg b' ->
         let (q, r) = pos_div_eucl a' (Zpos b') in
         (match r with
          | Z0 -> ((opp q), Z0)
          | _ -> ((opp (add q (Zpos XH))), (add b r))))
    | Zneg a' ->
      (match b with
       | Z0 -> (Z0, a)
       | Zpos _ ->
         let (q, r) = pos_div_eucl a' b in
         (match r with
          | Z0 -> ((opp q), Z0)
          | _ -> ((opp (add q (Zpos XH))), (sub b r)))
       | Zneg b' -> let (q, r) = pos_div_eucl a' (Zpos b') in (q, (opp r)))

  (** val div : z -> z -> z **)

  let div a b =
    let (q, _) = div_eucl a b in q

  (** val modulo : z -> z -> z **)

  let modulo a b =
    let (_, r) = div_eucl a b in r

  (** val log2 : z -> z **)

  let log2 = function
  | Zpos p0 ->
    (match p0 with
     | XI p -> Zpos (Coq_Pos.size p)
     | XO p -> Zpos (Coq_Pos.size p)
     | XH -> Z0)
  | _ -> Z0
 end

type byte = n

type bytes = byte list

(** val blen : bytes -> n **)

let blen b =
  N.of_nat (length b)

(** val le_bytes_fuel : nat -> z -> bytes **)

let rec le_bytes_fuel fuel z0 =
  match fuel with
  | O -> []
  | S f ->
    if Z.leb z0 Z0
    then []
    else (Z.to_N
           (Z.modulo z0 (Zpos (XO (XO (XO (XO (XO (XO (XO (XO XH))))))))))) :: 
           (le_bytes_fuel f
             (Z.div z0 (Zpos (XO (XO (XO (XO (XO (XO (XO (XO XH)))))))))))

(** val le_bytes : z -> bytes **)

let le_bytes z0 =
  le_bytes_fuel (S (Z.to_nat (Z.log2 z0))) z0

(** val num_encode : z -> bytes **)

let num_encode z0 =
  if Z.eqb z0 Z0
  then []
  else let neg = Z.ltb z0 Z0 in
       let mag = le_bytes (Z.abs z0) in
       (match rev mag with
        | [] -> []
        | top :: rest_rev ->
          if N.leb (Npos (XO (XO (XO (XO (XO (XO (XO XH)))))))) top
          then app mag
                 ((if neg
                   then Npos (XO (XO (XO (XO (XO (XO (XO XH)))))))
                   else N0) :: [])
          else rev
                 ((if neg
                   then N.add top (Npos (XO (XO (XO (XO (XO (XO (XO XH))))))))
                   else top) :: rest_rev))

type opcode =
| OP_VERIFY
| OP_TOALTSTACK
| OP_FROMALTSTACK
| OP_IFDUP
| OP_DUP
| OP_SWAP
| OP_SIZE
| OP_DROP
| OP_EQUAL
| OP_EQUALVERIFY
| OP_0NOTEQUAL
| OP_ADD
| OP_BOOLAND
| OP_BOOLOR
| OP_NUMEQUAL
| OP_NUMEQUALVERIFY
| OP_RIPEMD160
| OP_SHA256
| OP_HASH160
| OP_HASH256
| OP_CHECKSIG
| OP_CHECKSIGVERIFY
| OP_CHECKMULTISIG
| OP_CHECKMULTISIGVERIFY
| OP_CHECKSIGADD
| OP_CLTV
| OP_CSV
| OP_OTHER of n

type instr =
| IPush of bytes
| INum of z
| IOp of opcode
| IIf of bool * instr list * instr list option

type script = instr list

(** val opcode_byte : opcode -> n **)

let opcode_byte = function
| OP_VERIFY -> Npos (XI (XO (XO (XI (XO (XI XH))))))
| OP_TOALTSTACK -> Npos (XI (XI (XO (XI (XO (XI XH))))))
| OP_FROMALTSTACK -> Npos (XO (XO (XI (XI (XO (XI XH))))))
| OP_IFDUP -> Npos (XI (XI (XO (XO (XI (XI XH))))))
| OP_DUP -> Npos (XO (XI (XI (XO (XI (XI XH))))))
| OP_SWAP -> Npos (XO (XO (XI (XI (XI (XI XH))))))
| OP_SIZE -> Npos (XO (XI (XO (XO (XO (XO (XO XH)))))))
| OP_DROP -> Npos (XI (XO (XI (XO (XI (XI XH))))))
| OP_EQUAL -> Npos (XI (XI (XI (XO (XO (XO (XO XH)))))))
| OP_EQUALVERIFY -> Npos (XO (XO (XO (XI (XO (XO (XO XH)))))))
| OP_0NOTEQUAL -> Npos (XO (XI (XO (XO (XI (XO (XO XH)))))))
| OP_ADD -> Npos (XI (XI (XO (XO (XI (XO (XO XH)))))))
| OP_BOOLAND -> Npos (XO (XI (XO (XI (XI (XO (XO XH)))))))
| OP_BOOLOR -> Npos (XI (XI (XO (XI (XI (XO (XO XH)))))))
| OP_NUMEQUAL -> Npos (XO (XO (XI (XI (XI (XO (XO XH)))))))
| OP_NUMEQUALVERIFY -> Npos (XI (XO (XI (XI (XI (XO (XO XH)))))))
| OP_RIPEMD160 -> Npos (XO (XI (XI (XO (XO (XI (XO XH)))))))
| OP_SHA256 -> Npos (XO (XO (XO (XI (XO (XI (XO XH)))))))
| OP_HASH160 -> Npos (XI (XO (XO (XI (XO (XI (XO XH)))))))
| OP_HASH256 -> Npos (XO (XI (XO (XI (XO (XI (XO XH)))))))
| OP_CHECKSIG -> Npos (XO (XO (XI (XI (XO (XI (XO XH)))))))
| OP_CHECKSIGVERIFY -> Npos (XI (XO (XI (XI (XO (XI (XO XH)))))))
| OP_CHECKMULTISIG -> Npos (XO (XI (XI (XI (XO (XI (XO XH)))))))
| OP_CHECKMULTISIGVERIFY -> Npos (XI (XI (XI (XI (XO (XI (XO XH)))))))
| OP_CHECKSIGADD -> Npos (XO (XI (XO (XI (XI (XI (XO XH)))))))
| OP_CLTV -> Npos (XI (XO (XO (XO (XI (XI (XO XH)))))))
| OP_CSV -> Npos (XO (XI (XO (XO (XI (XI (XO XH)))))))
| OP_OTHER c -> c

(** val oPB_IF : n **)

let oPB_IF =
  Npos (XI (XI (XO (XO (XO (XI XH))))))

(** val oPB_NOTIF : n **)

let oPB_NOTIF =
  Npos (XO (XO (XI (XO (XO (XI XH))))))

(** val oPB_ELSE : n **)

let oPB_ELSE =
  Npos (XI (XI (XI (XO (XO (XI XH))))))

(** val oPB_ENDIF : n **)

let oPB_ENDIF =
  Npos (XO (XO (XO (XI (XO (XI XH))))))

(** val ser_push : bytes -> bytes **)

let ser_push b =
  let n0 = blen b in
  if N.leb n0 (Npos (XI (XI (XO (XI (XO (XO XH)))))))
  then n0 :: b
  else if N.leb n0 (Npos (XI (XI (XI (XI (XI (XI (XI XH))))))))
       then (Npos (XO (XO (XI (XI (XO (XO XH))))))) :: (n0 :: b)
       else if N.leb n0 (Npos (XI (XI (XI (XI (XI (XI (XI (XI (XI (XI (XI (XI
                 (XI (XI (XI XH))))))))))))))))
            then (Npos (XI (XO (XI (XI (XO (XO
                   XH))))))) :: ((N.modulo n0 (Npos (XO (XO (XO (XO (XO (XO
                                   (XO (XO XH)))))))))) :: ((N.div n0 (Npos
                                                              (XO (XO (XO (XO
                                                              (XO (XO (XO (XO
                                                              XH)))))))))) :: b))
            else (Npos (XO (XI (XI (XI (XO (XO
                   XH))))))) :: ((N.modulo n0 (Npos (XO (XO (XO (XO (XO (XO
                                   (XO (XO XH)))))))))) :: ((N.modulo
                                                              (N.div n0 (Npos
                                                                (XO (XO (XO
                                                                (XO (XO (XO
                                                                (XO (XO
                                                                XH))))))))))
                                                              (Npos (XO (XO
                                                              (XO (XO (XO (XO
                                                              (XO (XO
                                                              XH)))))))))) :: (
                   (N.modulo
                     (N.div n0 (Npos (XO (XO (XO (XO (XO (XO (XO (XO (XO (XO
                       (XO (XO (XO (XO (XO (XO XH)))))))))))))))))) (Npos (XO
                     (XO (XO (XO (XO (XO (XO (XO XH)))))))))) :: ((N.div n0
                                                                    (Npos (XO
                                                                    (XO (XO
                                                                    (XO (XO
                                                                    (XO (XO
                                                                    (XO (XO
                                                                    (XO (XO
                                                                    (XO (XO
                                                                    (XO (XO
                                                                    (XO (XO
                                                                    (XO (XO
                                                                    (XO (XO
                                                                    (XO (XO
                                                                    (XO
                                                                    XH)))))))))))))))))))))))))) :: b))))

(** val ser_num : z -> bytes **)

let ser_num n0 =
  if Z.eqb n0 (Zneg XH)
  then (Npos (XI (XI (XI (XI (XO (XO XH))))))) :: []
  else (Z.to_N (Z.add (Zpos (XO (XO (XO (XO (XI (XO XH))))))) n0)) :: []

(** val ser_instr : instr -> bytes **)

let rec ser_instr = function
| IPush b -> ser_push b
| INum n0 -> ser_num n0
| IOp o -> (opcode_byte o) :: []
| IIf (neg, thn, els) ->
  let ser_list =
    let rec ser_list = function
    | [] -> []
    | j :: r -> app (ser_instr j) (ser_list r)
    in ser_list
  in
  (if neg then oPB_NOTIF else oPB_IF) :: (app (ser_list thn)
                                           (app
                                             (match els with
                                              | Some el ->
                                                oPB_ELSE :: (ser_list el)
                                              | None -> []) (oPB_ENDIF :: [])))

(** val serialize : script -> bytes **)

let rec serialize = function
| [] -> []
| i :: r -> app (ser_instr i) (serialize r)

type ctx =
| Bare
| Legacy
| Segwitv0
| Tap

(** val is_tap : ctx -> bool **)

let is_tap = function
| Tap -> true
| _ -> false

type key = n

type ms =
| MTrue
| MFalse
| MPkK of key
| MPkH of key
| MRawPkH of bytes
| MAfter of n
| MOlder of n
| MSha256 of bytes
| MHash256 of bytes
| MRipemd160 of bytes
| MHash160 of bytes
| MAlt of ms
| MSwap of ms
| MCheck of ms
| MDupIf of ms
| MVerify of ms
| MNonZero of ms
| MZeroNotEqual of ms
| MAndV of ms * ms
| MAndB of ms * ms
| MAndOr of ms * ms * ms
| MOrB of ms * ms
| MOrD of ms * ms
| MOrC of ms * ms
| MOrI of ms * ms
| MThresh of n * ms list
| MMulti of n * key list
| MSortedMulti of n * key list
| MMultiA of n * key list
| MSortedMultiA of n * key list

type keyenv = { kb : (key -> bytes); kh : (key -> bytes);
                ksort : (key list -> key list) }

(** val push_int : z -> instr **)

let push_int n0 =
  if Z.eqb n0 Z0
  then IPush []
  else if (||) (Z.eqb n0 (Zneg XH))
            ((&&) (Z.leb (Zpos XH) n0)
              (Z.leb n0 (Zpos (XO (XO (XO (XO XH)))))))
       then INum n0
       else IPush (num_encode n0)

(** val verify_form : opcode -> opcode option **)

let verify_form = function
| OP_EQUAL -> Some OP_EQUALVERIFY
| OP_NUMEQUAL -> Some OP_NUMEQUALVERIFY
| OP_CHECKSIG -> Some OP_CHECKSIGVERIFY
| OP_CHECKMULTISIG -> Some OP_CHECKMULTISIGVERIFY
| _ -> None

(** val push_verify : script -> script **)

let rec push_verify = function
| [] -> (IOp OP_VERIFY) :: []
| i :: r ->
  (match i with
   | IOp o ->
     (match r with
      | [] ->
        (match verify_form o with
         | Some o' -> (IOp o') :: []
         | None -> (IOp o) :: ((IOp OP_VERIFY) :: []))
      | _ :: _ -> i :: (push_verify r))
   | _ -> i :: (push_verify r))

(** val hash_frag : opcode -> bytes -> script **)

let hash_frag o h =
  (IOp OP_SIZE) :: ((push_int (Zpos (XO (XO (XO (XO (XO XH))))))) :: ((IOp
    OP_EQUALVERIFY) :: ((IOp o) :: ((IPush h) :: ((IOp OP_EQUAL) :: [])))))

(** val enc : keyenv -> ms -> script **)

let rec enc ke = function
| MTrue -> (INum (Zpos XH)) :: []
| MFalse -> (IPush []) :: []
| MPkK k -> (IPush (ke.kb k)) :: []
| MPkH k ->
  (IOp OP_DUP) :: ((IOp OP_HASH160) :: ((IPush (ke.kh k)) :: ((IOp
    OP_EQUALVERIFY) :: [])))
| MRawPkH h ->
  (IOp OP_DUP) :: ((IOp OP_HASH160) :: ((IPush h) :: ((IOp
    OP_EQUALVERIFY) :: [])))
| MAfter t -> (push_int (Z.of_N t)) :: ((IOp OP_CLTV) :: [])
| MOlder t -> (push_int (Z.of_N t)) :: ((IOp OP_CSV) :: [])
| MSha256 h -> hash_frag OP_SHA256 h
| MHash256 h -> hash_frag OP_HASH256 h
| MRipemd160 h -> hash_frag OP_RIPEMD160 h
| MHash160 h -> hash_frag OP_HASH160 h
| MAlt x ->
  app ((IOp OP_TOALTSTACK) :: [])
    (app (enc ke x) ((IOp OP_FROMALTSTACK) :: []))
| MSwap x -> app ((IOp OP_SWAP) :: []) (enc ke x)
| MCheck x -> app (enc ke x) ((IOp OP_CHECKSIG) :: [])
| MDupIf x -> (IOp OP_DUP) :: ((IIf (false, (enc ke x), None)) :: [])
| MVerify x -> push_verify (enc ke x)
| MNonZero x ->
  (IOp OP_SIZE) :: ((IOp OP_0NOTEQUAL) :: ((IIf (false, (enc ke x),
    None)) :: []))
| MZeroNotEqual x -> app (enc ke x) ((IOp OP_0NOTEQUAL) :: [])
| MAndV (x, y) -> app (enc ke x) (enc ke y)
| MAndB (x, y) -> app (enc ke x) (app (enc ke y) ((IOp OP_BOOLAND) :: []))
| MAndOr (a, b, c) ->
  app (enc ke a) ((IIf (true, (enc ke c), (Some (enc ke b)))) :: [])
| MOrB (x, y) -> app (enc ke x) (app (enc ke y) ((IOp OP_BOOLOR) :: []))
| MOrD (x, y) ->
  app (enc ke x) ((IOp OP_IFDUP) :: ((IIf (true, (enc ke y), None)) :: []))
| MOrC (x, y) -> app (enc ke x) ((IIf (true, (enc ke y), None)) :: [])
| MOrI (x, y) -> (IIf (false, (enc ke x), (Some (enc ke y)))) :: []
| MThresh (k, xs) ->
  app
    (match xs with
     | [] -> []
     | x0 :: rest ->
       app (enc ke x0)
         (let rec go = function
          | [] -> []
          | x :: r -> app (enc ke x) (app ((IOp OP_ADD) :: []) (go r))
          in go rest)) ((push_int (Z.of_N k)) :: ((IOp OP_EQUAL) :: []))
| MMulti (k, ks) ->
  app ((push_int (Z.of_N k)) :: [])
    (app (map (fun key0 -> IPush (ke.kb key0)) ks)
      ((push_int (Z.of_nat (length ks))) :: ((IOp OP_CHECKMULTISIG) :: [])))
| MSortedMulti (k, ks) ->
  app ((push_int (Z.of_N k)) :: [])
    (app (map (fun key0 -> IPush (ke.kb key0)) (ke.ksort ks))
      ((push_int (Z.of_nat (length ks))) :: ((IOp OP_CHECKMULTISIG) :: [])))
| MMultiA (k, ks) ->
  app
    (match ks with
     | [] -> []
     | k0 :: rest ->
       app ((IPush (ke.kb k0)) :: ((IOp OP_CHECKSIG) :: []))
         (flat_map (fun key0 -> (IPush (ke.kb key0)) :: ((IOp
           OP_CHECKSIGADD) :: [])) rest)) ((push_int (Z.of_N k)) :: ((IOp
    OP_NUMEQUAL) :: []))
| MSortedMultiA (k, ks) ->
  app
    (match ke.ksort ks with
     | [] -> []
     | k0 :: rest ->
       app ((IPush (ke.kb k0)) :: ((IOp OP_CHECKSIG) :: []))
         (flat_map (fun key0 -> (IPush (ke.kb key0)) :: ((IOp
           OP_CHECKSIGADD) :: [])) rest)) ((push_int (Z.of_N k)) :: ((IOp
    OP_NUMEQUAL) :: []))

(** val encode : keyenv -> ms -> bytes **)

let encode ke m =
  serialize (enc ke m)

type base =
| BB
| BK
| BV
| BW

type input =
| IZero
| IOne
| IAny
| IOneNonZero
| IAnyNonZero

type corr = { c_base : base; c_input : input; c_dissat : bool; c_unit : bool }

type dissat =
| DNone
| DUnique
| DUnknown

type mall = { m_dissat : dissat; m_signed : bool; m_nm : bool }

type ty = { t_corr : corr; t_mall : mall }

type errk =
| NonZeroDupIf
| LeftNotDissatisfiable
| RightNotDissatisfiable
| SwapNonOne
| NonZeroZero
| LeftNotUnit
| ChildBase1 of base
| ChildBase2 of base * base
| ChildBase3 of base * base * base
| ThresholdBase of n * base
| ThresholdDissat of n
| ThresholdNonUnit of n

type 'a res =
| ROk of 'a
| RErr of errk

(** val base_eqb : base -> base -> bool **)

let base_eqb a b =
  match a with
  | BB -> (match b with
           | BB -> true
           | _ -> false)
  | BK -> (match b with
           | BK -> true
           | _ -> false)
  | BV -> (match b with
           | BV -> true
           | _ -> false)
  | BW -> (match b with
           | BW -> true
           | _ -> false)

(** val input_eqb : input -> input -> bool **)

let input_eqb a b =
  match a with
  | IZero -> (match b with
              | IZero -> true
              | _ -> false)
  | IOne -> (match b with
             | IOne -> true
             | _ -> false)
  | IAny -> (match b with
             | IAny -> true
             | _ -> false)
  | IOneNonZero -> (match b with
                    | IOneNonZero -> true
                    | _ -> false)
  | IAnyNonZero -> (match b with
                    | IAnyNonZero -> true
                    | _ -> false)

(** val dissat_eqb : dissat -> dissat -> bool **)

let dissat_eqb a b =
  match a with
  | DNone -> (match b with
              | DNone -> true
              | _ -> false)
  | DUnique -> (match b with
                | DUnique -> true
                | _ -> false)
  | DUnknown -> (match b with
                 | DUnknown -> true
                 | _ -> false)

(** val corr_eqb : corr -> corr -> bool **)

let corr_eqb a b =
  (&&)
    ((&&) ((&&) (base_eqb a.c_base b.c_base) (input_eqb a.c_input b.c_input))
      (eqb a.c_dissat b.c_dissat)) (eqb a.c_unit b.c_unit)

(** val mall_eqb : mall -> mall -> bool **)

let mall_eqb a b =
  (&&) ((&&) (dissat_eqb a.m_dissat b.m_dissat) (eqb a.m_signed b.m_signed))
    (eqb a.m_nm b.m_nm)

(** val ty_eqb : ty -> ty -> bool **)

let ty_eqb a b =
  (&&) (corr_eqb a.t_corr b.t_corr) (mall_eqb a.t_mall b.t_mall)

(** val errk_eqb : errk -> errk -> bool **)

let errk_eqb a b =
  match a with
  | NonZeroDupIf -> (match b with
                     | NonZeroDupIf -> true
                     | _ -> false)
  | LeftNotDissatisfiable ->
    (match b with
     | LeftNotDissatisfiable -> true
     | _ -> false)
  | RightNotDissatisfiable ->
    (match b with
     | RightNotDissatisfiable -> true
     | _ -> false)
  | SwapNonOne -> (match b with
                   | SwapNonOne -> true
                   | _ -> false)
  | NonZeroZero -> (match b with
                    | NonZeroZero -> true
                    | _ -> false)
  | LeftNotUnit -> (match b with
                    | LeftNotUnit -> true
                    | _ -> false)
  | ChildBase1 x -> (match b with
                     | ChildBase1 y -> base_eqb x y
                     | _ -> false)
  | ChildBase2 (x1, x2) ->
    (match b with
     | ChildBase2 (y1, y2) -> (&&) (base_eqb x1 y1) (base_eqb x2 y2)
     | _ -> false)
  | ChildBase3 (x1, x2, x3) ->
    (match b with
     | ChildBase3 (y1, y2, y3) ->
       (&&) ((&&) (base_eqb x1 y1) (base_eqb x2 y2)) (base_eqb x3 y3)
     | _ -> false)
  | ThresholdBase (i, x) ->
    (match b with
     | ThresholdBase (j, y) -> (&&) (N.eqb i j) (base_eqb x y)
     | _ -> false)
  | ThresholdDissat i ->
    (match b with
     | ThresholdDissat j -> N.eqb i j
     | _ -> false)
  | ThresholdNonUnit i ->
    (match b with
     | ThresholdNonUnit j -> N.eqb i j
     | _ -> false)

(** val res_eqb : ('a1 -> 'a1 -> bool) -> 'a1 res -> 'a1 res -> bool **)

let res_eqb f a b =
  match a with
  | ROk x -> (match b with
              | ROk y -> f x y
              | RErr _ -> false)
  | RErr x -> (match b with
               | ROk _ -> false
               | RErr y -> errk_eqb x y)

(** val c_true : corr **)

let c_true =
  { c_base = BB; c_input = IZero; c_dissat = false; c_unit = true }

(** val c_false : corr **)

let c_false =
  { c_base = BB; c_input = IZero; c_dissat = true; c_unit = true }

(** val c_pk_k : corr **)

let c_pk_k =
  { c_base = BK; c_input = IOneNonZero; c_dissat = true; c_unit = true }

(** val c_pk_h : corr **)

let c_pk_h =
  { c_base = BK; c_input = IAnyNonZero; c_dissat = true; c_unit = true }

(** val c_multi : corr **)

let c_multi =
  { c_base = BB; c_input = IAnyNonZero; c_dissat = true; c_unit = true }

(** val c_sortedmulti : corr **)

let c_sortedmulti =
  { c_base = BB; c_input = IAnyNonZero; c_dissat = true; c_unit = true }

(** val c_multi_a : corr **)

let c_multi_a =
  { c_base = BB; c_input = IAny; c_dissat = true; c_unit = true }

(** val c_sortedmulti_a : corr **)

let c_sortedmulti_a =
  { c_base = BB; c_input = IAny; c_dissat = true; c_unit = true }

(** val c_hash : corr **)

let c_hash =
  { c_base = BB; c_input = IOneNonZero; c_dissat = true; c_unit = true }

(** val c_time : corr **)

let c_time =
  { c_base = BB; c_input = IZero; c_dissat = false; c_unit = false }

(** val c_cast_alt : corr -> corr res **)

let c_cast_alt s =
  match s.c_base with
  | BB ->
    ROk { c_base = BW; c_input = IAny; c_dissat = s.c_dissat; c_unit =
      s.c_unit }
  | x -> RErr (ChildBase1 x)

(** val c_cast_swap : corr -> corr res **)

let c_cast_swap s =
  match s.c_base with
  | BB ->
    (match s.c_input with
     | IOne ->
       ROk { c_base = BW; c_input = IAny; c_dissat = s.c_dissat; c_unit =
         s.c_unit }
     | IOneNonZero ->
       ROk { c_base = BW; c_input = IAny; c_dissat = s.c_dissat; c_unit =
         s.c_unit }
     | _ -> RErr SwapNonOne)
  | x -> RErr (ChildBase1 x)

(** val c_cast_check : corr -> corr res **)

let c_cast_check s =
  match s.c_base with
  | BK ->
    ROk { c_base = BB; c_input = s.c_input; c_dissat = s.c_dissat; c_unit =
      true }
  | x -> RErr (ChildBase1 x)

(** val c_cast_dupif : corr -> corr res **)

let c_cast_dupif s =
  match s.c_base with
  | BV ->
    (match s.c_input with
     | IZero ->
       ROk { c_base = BB; c_input = IOneNonZero; c_dissat = true; c_unit =
         false }
     | _ -> RErr NonZeroDupIf)
  | x -> RErr (ChildBase1 x)

(** val c_cast_verify : corr -> corr res **)

let c_cast_verify s =
  match s.c_base with
  | BB ->
    ROk { c_base = BV; c_input = s.c_input; c_dissat = false; c_unit = false }
  | x -> RErr (ChildBase1 x)

(** val c_cast_nonzero : corr -> corr res **)

let c_cast_nonzero s =
  if (&&) (negb (input_eqb s.c_input IOneNonZero))
       (negb (input_eqb s.c_input IAnyNonZero))
  then RErr NonZeroZero
  else (match s.c_base with
        | BB ->
          ROk { c_base = BB; c_input = s.c_input; c_dissat = true; c_unit =
            s.c_unit }
        | x -> RErr (ChildBase1 x))

(** val c_cast_zeronotequal : corr -> corr res **)

let c_cast_zeronotequal s =
  match s.c_base with
  | BB ->
    ROk { c_base = BB; c_input = s.c_input; c_dissat = s.c_dissat; c_unit =
      true }
  | x -> RErr (ChildBase1 x)

(** val and_input : input -> input -> input **)

let and_input l r =
  match l with
  | IZero -> r
  | IOne -> (match r with
             | IZero -> IOne
             | _ -> IAny)
  | IOneNonZero -> (match r with
                    | IZero -> IOneNonZero
                    | _ -> IAnyNonZero)
  | x -> x

(** val c_and_b : corr -> corr -> corr res **)

let c_and_b l r =
  match l.c_base with
  | BB ->
    let x = BB in
    (match r.c_base with
     | BW ->
       ROk { c_base = BB; c_input = (and_input l.c_input r.c_input);
         c_dissat = ((&&) l.c_dissat r.c_dissat); c_unit = true }
     | x0 -> RErr (ChildBase2 (x, x0)))
  | x -> RErr (ChildBase2 (x, r.c_base))

(** val c_and_v : corr -> corr -> corr res **)

let c_and_v l r =
  match l.c_base with
  | BV ->
    (match r.c_base with
     | BW -> RErr (ChildBase2 (BV, BW))
     | x ->
       ROk { c_base = x; c_input = (and_input l.c_input r.c_input);
         c_dissat = false; c_unit = r.c_unit })
  | x -> RErr (ChildBase2 (x, r.c_base))

(** val c_or_b : corr -> corr -> corr res **)

let c_or_b l r =
  if negb l.c_dissat
  then RErr LeftNotDissatisfiable
  else if negb r.c_dissat
       then RErr RightNotDissatisfiable
       else (match l.c_base with
             | BB ->
               let x = BB in
               (match r.c_base with
                | BW ->
                  ROk { c_base = BB; c_input =
                    (match l.c_input with
                     | IZero ->
                       (match r.c_input with
                        | IOneNonZero -> IOne
                        | IAnyNonZero -> IAny
                        | x0 -> x0)
                     | IOne ->
                       (match r.c_input with
                        | IZero -> IOne
                        | _ -> IAny)
                     | IOneNonZero ->
                       (match r.c_input with
                        | IZero -> IOne
                        | _ -> IAny)
                     | _ -> IAny); c_dissat = true; c_unit = true }
                | x0 -> RErr (ChildBase2 (x, x0)))
             | x -> RErr (ChildBase2 (x, r.c_base)))

(** val or_dc_input : input -> input -> input **)

let or_dc_input l r =
  match l with
  | IZero -> (match r with
              | IZero -> IZero
              | _ -> IAny)
  | IOne -> (match r with
             | IZero -> IOne
             | _ -> IAny)
  | IOneNonZero -> (match r with
                    | IZero -> IOne
                    | _ -> IAny)
  | _ -> IAny

(** val c_or_d : corr -> corr -> corr res **)

let c_or_d l r =
  if negb l.c_dissat
  then RErr LeftNotDissatisfiable
  else if negb l.c_unit
       then RErr LeftNotUnit
       else (match l.c_base with
             | BB ->
               let x = BB in
               (match r.c_base with
                | BB ->
                  ROk { c_base = BB; c_input =
                    (or_dc_input l.c_input r.c_input); c_dissat = r.c_dissat;
                    c_unit = r.c_unit }
                | x0 -> RErr (ChildBase2 (x, x0)))
             | x -> RErr (ChildBase2 (x, r.c_base)))

(** val c_or_c : corr -> corr -> corr res **)

let c_or_c l r =
  if negb l.c_dissat
  then RErr LeftNotDissatisfiable
  else if negb l.c_unit
       then RErr LeftNotUnit
       else (match l.c_base with
             | BB ->
               let x = BB in
               (match r.c_base with
                | BV ->
                  ROk { c_base = BV; c_input =
                    (or_dc_input l.c_input r.c_input); c_dissat = false;
                    c_unit = false }
                | x0 -> RErr (ChildBase2 (x, x0)))
             | x -> RErr (ChildBase2 (x, r.c_base)))

(** val c_or_i : corr -> corr -> corr res **)

let c_or_i l r =
  let inp =
    match l.c_input with
    | IZero -> (match r.c_input with
                | IZero -> IOne
                | _ -> IAny)
    | _ -> IAny
  in
  let d = (||) l.c_dissat r.c_dissat in
  let u = (&&) l.c_unit r.c_unit in
  (match l.c_base with
   | BB ->
     let x = BB in
     (match r.c_base with
      | BB -> ROk { c_base = BB; c_input = inp; c_dissat = d; c_unit = u }
      | x0 -> RErr (ChildBase2 (x, x0)))
   | BK ->
     let x = BK in
     (match r.c_base with
      | BK -> ROk { c_base = BK; c_input = inp; c_dissat = d; c_unit = u }
      | x0 -> RErr (ChildBase2 (x, x0)))
   | BV ->
     let x = BV in
     (match r.c_base with
      | BV -> ROk { c_base = BV; c_input = inp; c_dissat = d; c_unit = u }
      | x0 -> RErr (ChildBase2 (x, x0)))
   | BW -> RErr (ChildBase2 (BW, r.c_base)))

(** val c_and_or : corr -> corr -> corr -> corr res **)

let c_and_or a b c =
  if negb a.c_dissat
  then RErr LeftNotDissatisfiable
  else if negb a.c_unit
       then RErr LeftNotUnit
       else let inp =
              match a.c_input with
              | IZero ->
                (match b.c_input with
                 | IZero -> (match c.c_input with
                             | IZero -> IZero
                             | _ -> IAny)
                 | IOne ->
                   (match c.c_input with
                    | IOne -> IOne
                    | IOneNonZero -> IOne
                    | _ -> IAny)
                 | IOneNonZero ->
                   (match c.c_input with
                    | IOne -> IOne
                    | IOneNonZero -> IOne
                    | _ -> IAny)
                 | _ -> IAny)
              | IOne ->
                (match b.c_input with
                 | IZero -> (match c.c_input with
                             | IZero -> IOne
                             | _ -> IAny)
                 | _ -> IAny)
              | IOneNonZero ->
                (match b.c_input with
                 | IZero -> (match c.c_input with
                             | IZero -> IOne
                             | _ -> IAny)
                 | _ -> IAny)
              | _ -> IAny
            in
            let d = c.c_dissat in
            let u = (&&) b.c_unit c.c_unit in
            (match a.c_base with
             | BB ->
               let x = BB in
               (match b.c_base with
                | BB ->
                  let y = BB in
                  (match c.c_base with
                   | BB ->
                     ROk { c_base = BB; c_input = inp; c_dissat = d; c_unit =
                       u }
                   | x0 -> RErr (ChildBase3 (x, y, x0)))
                | BK ->
                  let y = BK in
                  (match c.c_base with
                   | BK ->
                     ROk { c_base = BK; c_input = inp; c_dissat = d; c_unit =
                       u }
                   | x0 -> RErr (ChildBase3 (x, y, x0)))
                | BV ->
                  let y = BV in
                  (match c.c_base with
                   | BV ->
                     ROk { c_base = BV; c_input = inp; c_dissat = d; c_unit =
                       u }
                   | x0 -> RErr (ChildBase3 (x, y, x0)))
                | BW -> RErr (ChildBase3 (x, BW, c.c_base)))
             | x -> RErr (ChildBase3 (x, b.c_base, c.c_base)))

(** val c_thresh_loop : n -> n -> corr list -> n res **)

let rec c_thresh_loop i num_args = function
| [] -> ROk num_args
| s :: rest ->
  let num_args' =
    N.add num_args
      (match s.c_input with
       | IZero -> N0
       | IOne -> Npos XH
       | IOneNonZero -> Npos XH
       | _ -> Npos (XO XH))
  in
  if (&&) (N.eqb i N0) (negb (base_eqb s.c_base BB))
  then RErr (ThresholdBase (i, s.c_base))
  else if (&&) (negb (N.eqb i N0)) (negb (base_eqb s.c_base BW))
       then RErr (ThresholdBase (i, s.c_base))
       else if negb s.c_unit
            then RErr (ThresholdNonUnit i)
            else if negb s.c_dissat
                 then RErr (ThresholdDissat i)
                 else c_thresh_loop (N.add i (Npos XH)) num_args' rest

(** val c_threshold : n -> corr list -> corr res **)

let c_threshold _ subs =
  match c_thresh_loop N0 N0 subs with
  | ROk n0 ->
    ROk { c_base = BB; c_input =
      (match n0 with
       | N0 -> IZero
       | Npos p -> (match p with
                    | XH -> IOne
                    | _ -> IAny)); c_dissat = true; c_unit = true }
  | RErr e -> RErr e

(** val m_true : mall **)

let m_true =
  { m_dissat = DNone; m_signed = false; m_nm = true }

(** val m_false : mall **)

let m_false =
  { m_dissat = DUnique; m_signed = true; m_nm = true }

(** val m_pk_k : mall **)

let m_pk_k =
  { m_dissat = DUnique; m_signed = true; m_nm = true }

(** val m_pk_h : mall **)

let m_pk_h =
  { m_dissat = DUnique; m_signed = true; m_nm = true }

(** val m_multi : mall **)

let m_multi =
  { m_dissat = DUnique; m_signed = true; m_nm = true }

(** val m_sortedmulti : mall **)

let m_sortedmulti =
  { m_dissat = DUnique; m_signed = true; m_nm = true }

(** val m_multi_a : mall **)

let m_multi_a =
  { m_dissat = DUnique; m_signed = true; m_nm = true }

(** val m_sortedmulti_a : mall **)

let m_sortedmulti_a =
  { m_dissat = DUnique; m_signed = true; m_nm = true }

(** val m_hash : mall **)

let m_hash =
  { m_dissat = DUnknown; m_signed = false; m_nm = true }

(** val m_time : mall **)

let m_time =
  { m_dissat = DNone; m_signed = false; m_nm = true }

(** val m_cast_alt : mall -> mall **)

let m_cast_alt s =
  s

(** val m_cast_swap : mall -> mall **)

let m_cast_swap s =
  s

(** val m_cast_check : mall -> mall **)

let m_cast_check s =
  s

(** val none_to_unique : dissat -> dissat **)

let none_to_unique = function
| DNone -> DUnique
| _ -> DUnknown

(** val m_cast_dupif : mall -> mall **)

let m_cast_dupif s =
  { m_dissat = (none_to_unique s.m_dissat); m_signed = s.m_signed; m_nm =
    s.m_nm }

(** val m_cast_verify : mall -> mall **)

let m_cast_verify s =
  { m_dissat = DNone; m_signed = s.m_signed; m_nm = s.m_nm }

(** val m_cast_nonzero : mall -> mall **)

let m_cast_nonzero s =
  { m_dissat = (none_to_unique s.m_dissat); m_signed = s.m_signed; m_nm =
    s.m_nm }

(** val m_cast_zeronotequal : mall -> mall **)

let m_cast_zeronotequal s =
  s

(** val m_and_b : mall -> mall -> mall **)

let m_and_b l r =
  { m_dissat =
    (match l.m_dissat with
     | DNone ->
       let dl = DNone in
       (match r.m_dissat with
        | DNone -> DNone
        | DUnique ->
          let dr = DUnique in
          if (&&) (dissat_eqb dl DNone) l.m_signed
          then DNone
          else if (&&) (dissat_eqb dr DNone) r.m_signed
               then DNone
               else (match dl with
                     | DUnique ->
                       (match dr with
                        | DUnique ->
                          if (&&) l.m_signed r.m_signed
                          then DUnique
                          else DUnknown
                        | _ -> DUnknown)
                     | _ -> DUnknown)
        | DUnknown ->
          let dr = DUnknown in
          if (&&) (dissat_eqb dl DNone) l.m_signed
          then DNone
          else if (&&) (dissat_eqb dr DNone) r.m_signed
               then DNone
               else (match dl with
                     | DUnique ->
                       (match dr with
                        | DUnique ->
                          if (&&) l.m_signed r.m_signed
                          then DUnique
                          else DUnknown
                        | _ -> DUnknown)
                     | _ -> DUnknown))
     | DUnique ->
       let dl = DUnique in
       if (&&) (dissat_eqb dl DNone) l.m_signed
       then DNone
       else if (&&) (dissat_eqb r.m_dissat DNone) r.m_signed
            then DNone
            else (match dl with
                  | DUnique ->
                    (match r.m_dissat with
                     | DUnique ->
                       if (&&) l.m_signed r.m_signed
                       then DUnique
                       else DUnknown
                     | _ -> DUnknown)
                  | _ -> DUnknown)
     | DUnknown ->
       let dl = DUnknown in
       if (&&) (dissat_eqb dl DNone) l.m_signed
       then DNone
       else if (&&) (dissat_eqb r.m_dissat DNone) r.m_signed
            then DNone
            else (match dl with
                  | DUnique ->
                    (match r.m_dissat with
                     | DUnique ->
                       if (&&) l.m_signed r.m_signed
                       then DUnique
                       else DUnknown
                     | _ -> DUnknown)
                  | _ -> DUnknown)); m_signed = ((||) l.m_signed r.m_signed);
    m_nm = ((&&) l.m_nm r.m_nm) }

(** val m_and_v : mall -> mall -> mall **)

let m_and_v l r =
  { m_dissat =
    (if l.m_signed
     then DNone
     else (match r.m_dissat with
           | DNone -> DNone
           | _ -> DUnknown)); m_signed = ((||) l.m_signed r.m_signed); m_nm =
    ((&&) l.m_nm r.m_nm) }

(** val m_or_b : mall -> mall -> mall **)

let m_or_b l r =
  { m_dissat = DUnique; m_signed = ((&&) l.m_signed r.m_signed); m_nm =
    ((&&)
      ((&&) ((&&) ((&&) l.m_nm (dissat_eqb l.m_dissat DUnique)) r.m_nm)
        (dissat_eqb r.m_dissat DUnique)) ((||) l.m_signed r.m_signed)) }

(** val m_or_d : mall -> mall -> mall **)

let m_or_d l r =
  { m_dissat = r.m_dissat; m_signed = ((&&) l.m_signed r.m_signed); m_nm =
    ((&&) ((&&) ((&&) l.m_nm (dissat_eqb l.m_dissat DUnique)) r.m_nm)
      ((||) l.m_signed r.m_signed)) }

(** val m_or_c : mall -> mall -> mall **)

let m_or_c l r =
  { m_dissat = DNone; m_signed = ((&&) l.m_signed r.m_signed); m_nm =
    ((&&) ((&&) ((&&) l.m_nm (dissat_eqb l.m_dissat DUnique)) r.m_nm)
      ((||) l.m_signed r.m_signed)) }

(** val m_or_i : mall -> mall -> mall **)

let m_or_i l r =
  { m_dissat =
    (match l.m_dissat with
     | DNone -> r.m_dissat
     | DUnique -> (match r.m_dissat with
                   | DNone -> DUnique
                   | _ -> DUnknown)
     | DUnknown -> DUnknown); m_signed = ((&&) l.m_signed r.m_signed); m_nm =
    ((&&) ((&&) l.m_nm r.m_nm) ((||) l.m_signed r.m_signed)) }

(** val m_and_or : mall -> mall -> mall -> mall **)

let m_and_or a b c =
  { m_dissat =
    (if a.m_signed
     then c.m_dissat
     else (match b.m_dissat with
           | DNone -> c.m_dissat
           | _ -> DUnknown)); m_signed =
    ((&&) ((||) a.m_signed b.m_signed) c.m_signed); m_nm =
    ((&&)
      ((&&) ((&&) ((&&) a.m_nm c.m_nm) (dissat_eqb a.m_dissat DUnique))
        b.m_nm) ((||) ((||) a.m_signed b.m_signed) c.m_signed)) }

(** val m_thresh_loop :
    mall list -> n -> bool -> bool -> (n * bool) * bool **)

let rec m_thresh_loop subs signed_count all_du all_nm =
  match subs with
  | [] -> ((signed_count, all_du), all_nm)
  | s :: rest ->
    m_thresh_loop rest
      (N.add signed_count (if s.m_signed then Npos XH else N0))
      ((&&) all_du (dissat_eqb s.m_dissat DUnique)) ((&&) all_nm s.m_nm)

(** val m_threshold : n -> mall list -> mall **)

let m_threshold k subs =
  let n0 = N.of_nat (length subs) in
  let (p, all_nm) = m_thresh_loop subs N0 true true in
  let (sc, all_du) = p in
  { m_dissat = (if (&&) all_du (N.eqb sc n0) then DUnique else DUnknown);
  m_signed = (N.ltb (N.sub n0 k) sc); m_nm =
  ((&&) ((&&) all_nm (N.leb (N.sub n0 k) sc)) all_du) }

(** val lift1 : (corr -> corr res) -> (mall -> mall) -> ty -> ty res **)

let lift1 fc fm t =
  match fc t.t_corr with
  | ROk c -> ROk { t_corr = c; t_mall = (fm t.t_mall) }
  | RErr e -> RErr e

(** val lift2 :
    (corr -> corr -> corr res) -> (mall -> mall -> mall) -> ty -> ty -> ty res **)

let lift2 fc fm l r =
  match fc l.t_corr r.t_corr with
  | ROk c -> ROk { t_corr = c; t_mall = (fm l.t_mall r.t_mall) }
  | RErr e -> RErr e

(** val t_true : ty **)

let t_true =
  { t_corr = c_true; t_mall = m_true }

(** val t_false : ty **)

let t_false =
  { t_corr = c_false; t_mall = m_false }

(** val t_pk_k : ty **)

let t_pk_k =
  { t_corr = c_pk_k; t_mall = m_pk_k }

(** val t_pk_h : ty **)

let t_pk_h =
  { t_corr = c_pk_h; t_mall = m_pk_h }

(** val t_multi : ty **)

let t_multi =
  { t_corr = c_multi; t_mall = m_multi }

(** val t_sortedmulti : ty **)

let t_sortedmulti =
  { t_corr = c_sortedmulti; t_mall = m_sortedmulti }

(** val t_multi_a : ty **)

let t_multi_a =
  { t_corr = c_multi_a; t_mall = m_multi_a }

(** val t_sortedmulti_a : ty **)

let t_sortedmulti_a =
  { t_corr = c_sortedmulti_a; t_mall = m_sortedmulti_a }

(** val t_hash : ty **)

let t_hash =
  { t_corr = c_hash; t_mall = m_hash }

(** val t_time : ty **)

let t_time =
  { t_corr = c_time; t_mall = m_time }

(** val t_cast_alt : ty -> ty res **)

let t_cast_alt =
  lift1 c_cast_alt m_cast_alt

(** val t_cast_swap : ty -> ty res **)

let t_cast_swap =
  lift1 c_cast_swap m_cast_swap

(** val t_cast_check : ty -> ty res **)

let t_cast_check =
  lift1 c_cast_check m_cast_check

(** val t_cast_dupif : ty -> ty res **)

let t_cast_dupif =
  lift1 c_cast_dupif m_cast_dupif

(** val t_cast_verify : ty -> ty res **)

let t_cast_verify =
  lift1 c_cast_verify m_cast_verify

(** val t_cast_nonzero : ty -> ty res **)

let t_cast_nonzero =
  lift1 c_cast_nonzero m_cast_nonzero

(** val t_cast_zeronotequal : ty -> ty res **)

let t_cast_zeronotequal =
  lift1 c_cast_zeronotequal m_cast_zeronotequal

(** val t_and_b : ty -> ty -> ty res **)

let t_and_b =
  lift2 c_and_b m_and_b

(** val t_and_v : ty -> ty -> ty res **)

let t_and_v =
  lift2 c_and_v m_and_v

(** val t_or_b : ty -> ty -> ty res **)

let t_or_b =
  lift2 c_or_b m_or_b

(** val t_or_d : ty -> ty -> ty res **)

let t_or_d =
  lift2 c_or_d m_or_d

(** val t_or_c : ty -> ty -> ty res **)

let t_or_c =
  lift2 c_or_c m_or_c

(** val t_or_i : ty -> ty -> ty res **)

let t_or_i =
  lift2 c_or_i m_or_i

(** val t_and_or : ty -> ty -> ty -> ty res **)

let t_and_or a b c =
  match c_and_or a.t_corr b.t_corr c.t_corr with
  | ROk x ->
    ROk { t_corr = x; t_mall = (m_and_or a.t_mall b.t_mall c.t_mall) }
  | RErr e -> RErr e

(** val t_threshold : n -> ty list -> ty res **)

let t_threshold k subs =
  match c_threshold k (map (fun t -> t.t_corr) subs) with
  | ROk x ->
    ROk { t_corr = x; t_mall =
      (m_threshold k (map (fun t -> t.t_mall) subs)) }
  | RErr e -> RErr e

(** val all_base : base list **)

let all_base =
  BB :: (BK :: (BV :: (BW :: [])))

(** val all_input : input list **)

let all_input =
  IZero :: (IOne :: (IAny :: (IOneNonZero :: (IAnyNonZero :: []))))

(** val all_bool : bool list **)

let all_bool =
  false :: (true :: [])

(** val all_dissat : dissat list **)

let all_dissat =
  DNone :: (DUnique :: (DUnknown :: []))

(** val all_corr : corr list **)

let all_corr =
  flat_map (fun b ->
    flat_map (fun i ->
      flat_map (fun d ->
        map (fun u -> { c_base = b; c_input = i; c_dissat = d; c_unit = u })
          all_bool) all_bool) all_input) all_base

(** val all_mall : mall list **)

let all_mall =
  flat_map (fun d ->
    flat_map (fun s ->
      map (fun m -> { m_dissat = d; m_signed = s; m_nm = m }) all_bool)
      all_bool) all_dissat

(** val all_ty : ty list **)

let all_ty =
  flat_map (fun c -> map (fun m -> { t_corr = c; t_mall = m }) all_mall)
    all_corr

(** val rbind : 'a1 res -> ('a1 -> 'a2 res) -> 'a2 res **)

let rbind r f =
  match r with
  | ROk a -> f a
  | RErr e -> RErr e

(** val type_of : ms -> ty res **)

let rec type_of = function
| MTrue -> ROk t_true
| MFalse -> ROk t_false
| MPkK _ -> ROk t_pk_k
| MPkH _ -> ROk t_pk_h
| MRawPkH _ -> ROk t_pk_h
| MAfter _ -> ROk t_time
| MOlder _ -> ROk t_time
| MAlt x -> rbind (type_of x) t_cast_alt
| MSwap x -> rbind (type_of x) t_cast_swap
| MCheck x -> rbind (type_of x) t_cast_check
| MDupIf x -> rbind (type_of x) t_cast_dupif
| MVerify x -> rbind (type_of x) t_cast_verify
| MNonZero x -> rbind (type_of x) t_cast_nonzero
| MZeroNotEqual x -> rbind (type_of x) t_cast_zeronotequal
| MAndV (x, y) -> rbind (type_of x) (fun a -> rbind (type_of y) (t_and_v a))
| MAndB (x, y) -> rbind (type_of x) (fun a -> rbind (type_of y) (t_and_b a))
| MAndOr (a, b, c) ->
  rbind (type_of a) (fun ta ->
    rbind (type_of b) (fun tb -> rbind (type_of c) (t_and_or ta tb)))
| MOrB (x, y) -> rbind (type_of x) (fun a -> rbind (type_of y) (t_or_b a))
| MOrD (x, y) -> rbind (type_of x) (fun a -> rbind (type_of y) (t_or_d a))
| MOrC (x, y) -> rbind (type_of x) (fun a -> rbind (type_of y) (t_or_c a))
| MOrI (x, y) -> rbind (type_of x) (fun a -> rbind (type_of y) (t_or_i a))
| MThresh (k, xs) ->
  let tys =
    let rec go = function
    | [] -> ROk []
    | x :: r ->
      rbind (type_of x) (fun t -> rbind (go r) (fun ts -> ROk (t :: ts)))
    in go xs
  in
  rbind tys (t_threshold k)
| MMulti (_, _) -> ROk t_multi
| MSortedMulti (_, _) -> ROk t_sortedmulti
| MMultiA (_, _) -> ROk t_multi_a
| MSortedMultiA (_, _) -> ROk t_sortedmulti_a
| _ -> ROk t_hash

(** val thresh_ok : n -> nat -> n -> bool **)

let thresh_ok k n0 max0 =
  (&&) ((&&) (N.leb (Npos XH) k) (N.leb k (N.of_nat n0)))
    ((||) (N.eqb max0 N0) (N.leb (N.of_nat n0) max0))

(** val after_ok : n option -> n -> bool **)

let after_ok held t =
  match held with
  | Some l ->
    (&&)
      (eqb
        (N.ltb t (Npos (XO (XO (XO (XO (XO (XO (XO (XO (XI (XO (XI (XO (XO
          (XI (XI (XO (XI (XO (XI (XI (XO (XO (XI (XI (XI (XO (XI (XI
          XH))))))))))))))))))))))))))))))
        (N.ltb l (Npos (XO (XO (XO (XO (XO (XO (XO (XO (XI (XO (XI (XO (XO
          (XI (XI (XO (XI (XO (XI (XI (XO (XO (XI (XI (XI (XO (XI (XI
          XH))))))))))))))))))))))))))))))) (N.leb t l)
  | None -> false

(** val older_ok : n option -> n -> bool **)

let older_ok held t =
  match held with
  | Some s ->
    (&&)
      ((&&)
        (N.eqb
          (N.coq_land s (Npos (XO (XO (XO (XO (XO (XO (XO (XO (XO (XO (XO (XO
            (XO (XO (XO (XO (XO (XO (XO (XO (XO (XO (XO (XO (XO (XO (XO (XO
            (XO (XO (XO XH))))))))))))))))))))))))))))))))) N0)
        (N.eqb
          (N.coq_land t (Npos (XO (XO (XO (XO (XO (XO (XO (XO (XO (XO (XO (XO
            (XO (XO (XO (XO (XO (XO (XO (XO (XO (XO XH))))))))))))))))))))))))
          (N.coq_land s (Npos (XO (XO (XO (XO (XO (XO (XO (XO (XO (XO (XO (XO
            (XO (XO (XO (XO (XO (XO (XO (XO (XO (XO XH))))))))))))))))))))))))))
      (N.leb
        (N.coq_land t (Npos (XI (XI (XI (XI (XI (XI (XI (XI (XI (XI (XI (XI
          (XI (XI (XI XH)))))))))))))))))
        (N.coq_land s (Npos (XI (XI (XI (XI (XI (XI (XI (XI (XI (XI (XI (XI
          (XI (XI (XI XH))))))))))))))))))
  | None -> false

type vhash =
| VSha256
| VHash256
| VRipemd160
| VHash160

type vpolicy =
| CUnsat
| CTrivial
| CKey of key
| CAfter of n
| COlder of n
| CHash of vhash * bytes
| CAnd of vpolicy list
| COr of (n * vpolicy) list
| CThresh of n * vpolicy list

type spolicy =
| SUnsat
| STrivial
| SKey of key
| SAfter of n
| SOlder of n
| SHash of vhash * bytes
| SThresh of n * spolicy list

type world = { w_key : (key -> bool); w_pre : (vhash -> bytes -> bool);
               w_lock : n; w_seq : n }

(** val abs_met : world -> n -> bool **)

let abs_met w t =
  after_ok (Some w.w_lock) t

(** val rel_met : world -> n -> bool **)

let rel_met w t =
  older_ok (Some w.w_seq) t

(** val countb : bool list -> n **)

let rec countb = function
| [] -> N0
| b :: r -> N.add (if b then Npos XH else N0) (countb r)

(** val evals : world -> spolicy -> bool **)

let rec evals w = function
| SUnsat -> false
| STrivial -> true
| SKey k -> w.w_key k
| SAfter t -> abs_met w t
| SOlder t -> rel_met w t
| SHash (hk, h) -> w.w_pre hk h
| SThresh (k, l) -> N.leb k (countb (map (evals w) l))

(** val evalc : world -> vpolicy -> bool **)

let rec evalc w = function
| CUnsat -> false
| CTrivial -> true
| CKey k -> w.w_key k
| CAfter t -> abs_met w t
| COlder t -> rel_met w t
| CHash (hk, h) -> w.w_pre hk h
| CAnd l -> forallb (evalc w) l
| COr l -> existsb (fun wp -> let (_, q) = wp in evalc w q) l
| CThresh (k, l) -> N.leb k (countb (map (evalc w) l))

(** val lift_c : vpolicy -> spolicy **)

let rec lift_c = function
| CUnsat -> SUnsat
| CTrivial -> STrivial
| CKey k -> SKey k
| CAfter t -> SAfter t
| COlder t -> SOlder t
| CHash (hk, h) -> SHash (hk, h)
| CAnd l -> SThresh ((N.of_nat (length l)), (map lift_c l))
| COr l ->
  SThresh ((Npos XH), (map (fun wp -> let (_, q) = wp in lift_c q) l))
| CThresh (k, l) -> SThresh (k, (map lift_c l))

(** val lift_ms : ms -> spolicy **)

let rec lift_ms = function
| MTrue -> STrivial
| MPkK k -> SKey k
| MPkH k -> SKey k
| MAfter t -> SAfter t
| MOlder t -> SOlder t
| MSha256 h -> SHash (VSha256, h)
| MHash256 h -> SHash (VHash256, h)
| MRipemd160 h -> SHash (VRipemd160, h)
| MHash160 h -> SHash (VHash160, h)
| MAlt x -> lift_ms x
| MSwap x -> lift_ms x
| MCheck x -> lift_ms x
| MDupIf x -> lift_ms x
| MVerify x -> lift_ms x
| MNonZero x -> lift_ms x
| MZeroNotEqual x -> lift_ms x
| MAndV (x, y) ->
  SThresh ((Npos (XO XH)), ((lift_ms x) :: ((lift_ms y) :: [])))
| MAndB (x, y) ->
  SThresh ((Npos (XO XH)), ((lift_ms x) :: ((lift_ms y) :: [])))
| MAndOr (a, b, c) ->
  SThresh ((Npos XH), ((SThresh ((Npos (XO XH)),
    ((lift_ms a) :: ((lift_ms b) :: [])))) :: ((lift_ms c) :: [])))
| MOrB (x, y) -> SThresh ((Npos XH), ((lift_ms x) :: ((lift_ms y) :: [])))
| MOrD (x, y) -> SThresh ((Npos XH), ((lift_ms x) :: ((lift_ms y) :: [])))
| MOrC (x, y) -> SThresh ((Npos XH), ((lift_ms x) :: ((lift_ms y) :: [])))
| MOrI (x, y) -> SThresh ((Npos XH), ((lift_ms x) :: ((lift_ms y) :: [])))
| MThresh (k, xs) -> SThresh (k, (map lift_ms xs))
| MMulti (k, ks) -> SThresh (k, (map (fun x -> SKey x) ks))
| MSortedMulti (k, ks) -> SThresh (k, (map (fun x -> SKey x) ks))
| MMultiA (k, ks) -> SThresh (k, (map (fun x -> SKey x) ks))
| MSortedMultiA (k, ks) -> SThresh (k, (map (fun x -> SKey x) ks))
| _ -> SUnsat

(** val keys_s : spolicy -> key list **)

let rec keys_s = function
| SKey k -> k :: []
| SThresh (_, l) -> flat_map keys_s l
| _ -> []

(** val hashes_s : spolicy -> (vhash * bytes) list **)

let rec hashes_s = function
| SHash (hk, h) -> (hk, h) :: []
| SThresh (_, l) -> flat_map hashes_s l
| _ -> []

(** val abs_s : spolicy -> n list **)

let rec abs_s = function
| SAfter t -> t :: []
| SThresh (_, l) -> flat_map abs_s l
| _ -> []

(** val rel_s : spolicy -> n list **)

let rec rel_s = function
| SOlder t -> t :: []
| SThresh (_, l) -> flat_map rel_s l
| _ -> []

(** val vhash_eqb : vhash -> vhash -> bool **)

let vhash_eqb a b =
  match a with
  | VSha256 -> (match b with
                | VSha256 -> true
                | _ -> false)
  | VHash256 -> (match b with
                 | VHash256 -> true
                 | _ -> false)
  | VRipemd160 -> (match b with
                   | VRipemd160 -> true
                   | _ -> false)
  | VHash160 -> (match b with
                 | VHash160 -> true
                 | _ -> false)

(** val list_eqb : ('a1 -> 'a1 -> bool) -> 'a1 list -> 'a1 list -> bool **)

let rec list_eqb f a b =
  match a with
  | [] -> (match b with
           | [] -> true
           | _ :: _ -> false)
  | x :: r ->
    (match b with
     | [] -> false
     | y :: s -> (&&) (f x y) (list_eqb f r s))

(** val vbytes_eqb : bytes -> bytes -> bool **)

let vbytes_eqb =
  list_eqb N.eqb

(** val hatom_eqb : (vhash * bytes) -> (vhash * bytes) -> bool **)

let hatom_eqb a b =
  (&&) (vhash_eqb (fst a) (fst b)) (vbytes_eqb (snd a) (snd b))

(** val memb : ('a1 -> 'a1 -> bool) -> 'a1 -> 'a1 list -> bool **)

let rec memb f x = function
| [] -> false
| y :: r -> (||) (f x y) (memb f x r)

(** val dedup : ('a1 -> 'a1 -> bool) -> 'a1 list -> 'a1 list **)

let rec dedup f = function
| [] -> []
| x :: r -> if memb f x r then dedup f r else x :: (dedup f r)

type fworld = { fw_keys : key list; fw_hashes : (vhash * bytes) list;
                fw_lock : n; fw_seq : n }

(** val world_of : fworld -> world **)

let world_of f =
  { w_key = (fun k -> memb N.eqb k f.fw_keys); w_pre = (fun hk h ->
    memb hatom_eqb (hk, h) f.fw_hashes); w_lock = f.fw_lock; w_seq =
    f.fw_seq }

(** val sublists : 'a1 list -> 'a1 list list **)

let rec sublists = function
| [] -> [] :: []
| x :: r -> let s = sublists r in app (map (fun x0 -> x :: x0) s) s

(** val lOCK_THRESHOLD : n **)

let lOCK_THRESHOLD =
  Npos (XO (XO (XO (XO (XO (XO (XO (XO (XI (XO (XI (XO (XO (XI (XI (XO (XI
    (XO (XI (XI (XO (XO (XI (XI (XI (XO (XI (XI XH))))))))))))))))))))))))))))

(** val sEQ_DISABLE : n **)

let sEQ_DISABLE =
  Npos (XO (XO (XO (XO (XO (XO (XO (XO (XO (XO (XO (XO (XO (XO (XO (XO (XO
    (XO (XO (XO (XO (XO (XO (XO (XO (XO (XO (XO (XO (XO (XO
    XH)))))))))))))))))))))))))))))))

(** val sEQ_TYPE : n **)

let sEQ_TYPE =
  Npos (XO (XO (XO (XO (XO (XO (XO (XO (XO (XO (XO (XO (XO (XO (XO (XO (XO
    (XO (XO (XO (XO (XO XH))))))))))))))))))))))

(** val sEQ_KEEP : n **)

let sEQ_KEEP =
  Npos (XI (XI (XI (XI (XI (XI (XI (XI (XI (XI (XI (XI (XI (XI (XI (XI (XO
    (XO (XO (XO (XO (XO XH))))))))))))))))))))))

(** val lock_reps : n list -> n list **)

let lock_reps abs0 =
  N0 :: (lOCK_THRESHOLD :: abs0)

(** val seq_reps : n list -> n list **)

let seq_reps rel =
  sEQ_DISABLE :: (N0 :: (sEQ_TYPE :: (map (fun t -> N.coq_land t sEQ_KEEP)
                                       rel)))

(** val fworlds :
    key list -> (vhash * bytes) list -> n list -> n list -> fworld list **)

let fworlds ks hs abs0 rel =
  flat_map (fun k ->
    flat_map (fun h ->
      flat_map (fun l ->
        map (fun s -> { fw_keys = k; fw_hashes = h; fw_lock = l; fw_seq =
          s }) (seq_reps rel)) (lock_reps abs0)) (sublists hs)) (sublists ks)

(** val worlds_of : spolicy -> spolicy -> fworld list **)

let worlds_of p q =
  fworlds (dedup N.eqb (app (keys_s p) (keys_s q)))
    (dedup hatom_eqb (app (hashes_s p) (hashes_s q)))
    (dedup N.eqb (app (abs_s p) (abs_s q)))
    (dedup N.eqb (app (rel_s p) (rel_s q)))

(** val agree_on : spolicy -> spolicy -> fworld -> bool **)

let agree_on p q f =
  eqb (evals (world_of f) p) (evals (world_of f) q)

(** val equivb : spolicy -> spolicy -> bool **)

let equivb p q =
  forallb (agree_on p q) (worlds_of p q)

(** val find_diff : spolicy -> spolicy -> fworld option **)

let find_diff p q =
  find (fun f -> negb (agree_on p q f)) (worlds_of p q)

(** val sigless_worlds : spolicy -> fworld list **)

let sigless_worlds p =
  fworlds [] (dedup hatom_eqb (hashes_s p)) (dedup N.eqb (abs_s p))
    (dedup N.eqb (rel_s p))

(** val sem_signedb : spolicy -> bool **)

let sem_signedb p =
  forallb (fun f -> negb (evals (world_of f) p)) (sigless_worlds p)

(** val find_sigless : spolicy -> fworld option **)

let find_sigless p =
  find (fun f -> evals (world_of f) p) (sigless_worlds p)

(** val subterms : ms -> ms list **)

let rec subterms m =
  m :: (match m with
        | MAlt x -> subterms x
        | MSwap x -> subterms x
        | MCheck x -> subterms x
        | MDupIf x -> subterms x
        | MVerify x -> subterms x
        | MNonZero x -> subterms x
        | MZeroNotEqual x -> subterms x
        | MAndV (x, y) -> app (subterms x) (subterms y)
        | MAndB (x, y) -> app (subterms x) (subterms y)
        | MAndOr (a, b, c) -> app (subterms a) (app (subterms b) (subterms c))
        | MOrB (x, y) -> app (subterms x) (subterms y)
        | MOrD (x, y) -> app (subterms x) (subterms y)
        | MOrC (x, y) -> app (subterms x) (subterms y)
        | MOrI (x, y) -> app (subterms x) (subterms y)
        | MThresh (_, xs) -> flat_map subterms xs
        | _ -> [])

(** val res_ty_eqb : ty res -> ty res -> bool **)

let res_ty_eqb a b =
  res_eqb ty_eqb a b

(** val types_match : ms -> ty list -> bool **)

let types_match m attached =
  list_eqb res_ty_eqb (map type_of (subterms m))
    (map (fun x -> ROk x) attached)

(** val root_ty : ty list -> ty option **)

let root_ty =
  hd_error

type kkind =
| KComp
| KUncomp
| KXOnly

(** val legacy_like : ctx -> bool **)

let legacy_like = function
| Bare -> true
| Legacy -> true
| _ -> false

(** val key_ok : ctx -> kkind -> bool **)

let key_ok c k =
  match c with
  | Segwitv0 -> (match k with
                 | KComp -> true
                 | _ -> false)
  | Tap -> (match k with
            | KUncomp -> false
            | _ -> true)
  | _ -> (match k with
          | KXOnly -> false
          | _ -> true)

(** val lock_ok : n -> bool **)

let lock_ok t =
  (&&) (N.leb (Npos XH) t) (N.ltb t sEQ_DISABLE)

(** val frag_ok : ctx -> (key -> kkind) -> ms -> bool **)

let frag_ok c kk = function
| MPkK k -> key_ok c (kk k)
| MPkH k -> key_ok c (kk k)
| MRawPkH _ -> false
| MAfter t -> lock_ok t
| MOlder t -> lock_ok t
| MDupIf _ -> negb (legacy_like c)
| MOrI (_, _) -> negb (legacy_like c)
| MThresh (k, xs) -> thresh_ok k (length xs) N0
| MMulti (k, ks) ->
  (&&)
    ((&&) (negb (is_tap c))
      (thresh_ok k (length ks) (Npos (XO (XO (XI (XO XH)))))))
    (forallb (fun x -> key_ok c (kk x)) ks)
| MSortedMulti (k, ks) ->
  (&&)
    ((&&) (negb (is_tap c))
      (thresh_ok k (length ks) (Npos (XO (XO (XI (XO XH)))))))
    (forallb (fun x -> key_ok c (kk x)) ks)
| MMultiA (k, ks) ->
  (&&)
    ((&&) (is_tap c)
      (thresh_ok k (length ks) (Npos (XI (XI (XI (XO (XO (XI (XI (XI (XI
        XH)))))))))))) (forallb (fun x -> key_ok c (kk x)) ks)
| MSortedMultiA (k, ks) ->
  (&&)
    ((&&) (is_tap c)
      (thresh_ok k (length ks) (Npos (XI (XI (XI (XO (XO (XI (XI (XI (XI
        XH)))))))))))) (forallb (fun x -> key_ok c (kk x)) ks)
| _ -> true

(** val ms_keys : ms -> key list **)

let rec ms_keys = function
| MPkK k -> k :: []
| MPkH k -> k :: []
| MAlt x -> ms_keys x
| MSwap x -> ms_keys x
| MCheck x -> ms_keys x
| MDupIf x -> ms_keys x
| MVerify x -> ms_keys x
| MNonZero x -> ms_keys x
| MZeroNotEqual x -> ms_keys x
| MAndV (x, y) -> app (ms_keys x) (ms_keys y)
| MAndB (x, y) -> app (ms_keys x) (ms_keys y)
| MAndOr (a, b, c) -> app (ms_keys a) (app (ms_keys b) (ms_keys c))
| MOrB (x, y) -> app (ms_keys x) (ms_keys y)
| MOrD (x, y) -> app (ms_keys x) (ms_keys y)
| MOrC (x, y) -> app (ms_keys x) (ms_keys y)
| MOrI (x, y) -> app (ms_keys x) (ms_keys y)
| MThresh (_, xs) -> flat_map ms_keys xs
| MMulti (_, ks) -> ks
| MSortedMulti (_, ks) -> ks
| MMultiA (_, ks) -> ks
| MSortedMultiA (_, ks) -> ks
| _ -> []

(** val nodupb : key list -> bool **)

let rec nodupb = function
| [] -> true
| x :: r -> (&&) (negb (memb N.eqb x r)) (nodupb r)

type tlinfo = { csv_h : bool; csv_t : bool; cltv_h : bool; cltv_t : bool;
                tl_comb : bool }

(** val tl_none : tlinfo **)

let tl_none =
  { csv_h = false; csv_t = false; cltv_h = false; cltv_t = false; tl_comb =
    false }

(** val tl_step : n -> tlinfo -> tlinfo -> tlinfo **)

let tl_step k acc t =
  let clash =
    (&&) (N.ltb (Npos XH) k)
      ((||)
        ((||) ((||) ((&&) acc.csv_h t.csv_t) ((&&) acc.csv_t t.csv_h))
          ((&&) acc.cltv_t t.cltv_h)) ((&&) acc.cltv_h t.cltv_t))
  in
  { csv_h = ((||) acc.csv_h t.csv_h); csv_t = ((||) acc.csv_t t.csv_t);
  cltv_h = ((||) acc.cltv_h t.cltv_h); cltv_t = ((||) acc.cltv_t t.cltv_t);
  tl_comb = ((||) ((||) acc.tl_comb clash) t.tl_comb) }

(** val tl_combine : n -> tlinfo list -> tlinfo **)

let tl_combine k l =
  fold_left (tl_step k) l tl_none

(** val ms_tl : ms -> tlinfo **)

let rec ms_tl = function
| MAfter t ->
  { csv_h = false; csv_t = false; cltv_h = (N.ltb t lOCK_THRESHOLD); cltv_t =
    (negb (N.ltb t lOCK_THRESHOLD)); tl_comb = false }
| MOlder t ->
  { csv_h = (N.eqb (N.coq_land t sEQ_TYPE) N0); csv_t =
    (negb (N.eqb (N.coq_land t sEQ_TYPE) N0)); cltv_h = false; cltv_t =
    false; tl_comb = false }
| MAlt x -> ms_tl x
| MSwap x -> ms_tl x
| MCheck x -> ms_tl x
| MDupIf x -> ms_tl x
| MVerify x -> ms_tl x
| MNonZero x -> ms_tl x
| MZeroNotEqual x -> ms_tl x
| MAndV (x, y) -> tl_combine (Npos (XO XH)) ((ms_tl x) :: ((ms_tl y) :: []))
| MAndB (x, y) -> tl_combine (Npos (XO XH)) ((ms_tl x) :: ((ms_tl y) :: []))
| MAndOr (a, b, c) ->
  tl_combine (Npos XH)
    ((tl_combine (Npos (XO XH)) ((ms_tl a) :: ((ms_tl b) :: []))) :: (
    (ms_tl c) :: []))
| MOrB (x, y) -> tl_combine (Npos XH) ((ms_tl x) :: ((ms_tl y) :: []))
| MOrD (x, y) -> tl_combine (Npos XH) ((ms_tl x) :: ((ms_tl y) :: []))
| MOrC (x, y) -> tl_combine (Npos XH) ((ms_tl x) :: ((ms_tl y) :: []))
| MOrI (x, y) -> tl_combine (Npos XH) ((ms_tl x) :: ((ms_tl y) :: []))
| MThresh (k, xs) -> tl_combine k (map ms_tl xs)
| _ -> tl_none

(** val ms_height : ms -> n **)

let rec ms_height = function
| MAlt x -> N.add (Npos XH) (ms_height x)
| MSwap x -> N.add (Npos XH) (ms_height x)
| MCheck x -> N.add (Npos XH) (ms_height x)
| MDupIf x -> N.add (Npos XH) (ms_height x)
| MVerify x -> N.add (Npos XH) (ms_height x)
| MNonZero x -> N.add (Npos XH) (ms_height x)
| MZeroNotEqual x -> N.add (Npos XH) (ms_height x)
| MAndV (x, y) -> N.add (Npos XH) (N.max (ms_height x) (ms_height y))
| MAndB (x, y) -> N.add (Npos XH) (N.max (ms_height x) (ms_height y))
| MAndOr (a, b, c) ->
  N.add (Npos XH) (N.max (ms_height a) (N.max (ms_height b) (ms_height c)))
| MOrB (x, y) -> N.add (Npos XH) (N.max (ms_height x) (ms_height y))
| MOrD (x, y) -> N.add (Npos XH) (N.max (ms_height x) (ms_height y))
| MOrC (x, y) -> N.add (Npos XH) (N.max (ms_height x) (ms_height y))
| MOrI (x, y) -> N.add (Npos XH) (N.max (ms_height x) (ms_height y))
| MThresh (_, xs) ->
  N.add (Npos XH) (fold_right (fun x acc -> N.max (ms_height x) acc) N0 xs)
| _ -> N0

(** val ctx_ok : ctx -> (key -> kkind) -> ms -> bool **)

let ctx_ok c kk m =
  (&&)
    ((&&) ((&&) (forallb (frag_ok c kk) (subterms m)) (nodupb (ms_keys m)))
      (negb (ms_tl m).tl_comb))
    (N.leb (ms_height m) (Npos (XO (XI (XO (XO (XI (XO (XO (XI XH))))))))))

(** val val_keyenv : (key -> kkind) -> keyenv **)

let val_keyenv kk =
  { kb = (fun k ->
    repeat (Npos (XO XH))
      (match kk k with
       | KComp ->
         S (S (S (S (S (S (S (S (S (S (S (S (S (S (S (S (S (S (S (S (S (S (S
           (S (S (S (S (S (S (S (S (S (S O))))))))))))))))))))))))))))))))
       | KUncomp ->
         S (S (S (S (S (S (S (S (S (S (S (S (S (S (S (S (S (S (S (S (S (S (S
           (S (S (S (S (S (S (S (S (S (S (S (S (S (S (S (S (S (S (S (S (S (S
           (S (S (S (S (S (S (S (S (S (S (S (S (S (S (S (S (S (S (S (S
           O))))))))))))))))))))))))))))))))))))))))))))))))))))))))))))))))
       | KXOnly ->
         S (S (S (S (S (S (S (S (S (S (S (S (S (S (S (S (S (S (S (S (S (S (S
           (S (S (S (S (S (S (S (S (S O)))))))))))))))))))))))))))))))));
    kh = (fun _ ->
    repeat N0 (S (S (S (S (S (S (S (S (S (S (S (S (S (S (S (S (S (S (S (S
      O))))))))))))))))))))); ksort = (fun ks -> ks) }

(** val script_len : (key -> kkind) -> ms -> n **)

let script_len kk m =
  N.of_nat (length (encode (val_keyenv kk) m))

(** val instr_ops : instr -> n **)

let rec instr_ops = function
| IOp _ -> Npos XH
| IIf (_, t, e) ->
  let go =
    let rec go = function
    | [] -> N0
    | x :: r -> N.add (instr_ops x) (go r)
    in go
  in
  N.add (N.add (Npos (XO XH)) (go t))
    (match e with
     | Some el -> N.add (Npos XH) (go el)
     | None -> N0)
| _ -> N0

(** val script_ops : script -> n **)

let rec script_ops = function
| [] -> N0
| x :: r -> N.add (instr_ops x) (script_ops r)

(** val multisig_keys : ms -> n **)

let multisig_keys m =
  fold_right (fun x acc ->
    match x with
    | MMulti (_, ks) -> N.add (N.of_nat (length ks)) acc
    | MSortedMulti (_, ks) -> N.add (N.of_nat (length ks)) acc
    | _ -> acc) N0 (subterms m)

(** val ops_bound : (key -> kkind) -> ms -> n **)

let ops_bound kk m =
  N.add (script_ops (enc (val_keyenv kk) m)) (multisig_keys m)

(** val wit_items : ms -> n **)

let wit_items m =
  fold_right (fun x acc ->
    N.add
      (match x with
       | MPkK _ -> Npos XH
       | MPkH _ -> Npos (XO XH)
       | MRawPkH _ -> Npos (XO XH)
       | MSha256 _ -> Npos XH
       | MHash256 _ -> Npos XH
       | MRipemd160 _ -> Npos XH
       | MHash160 _ -> Npos XH
       | MDupIf _ -> Npos XH
       | MOrI (_, _) -> Npos XH
       | MMulti (k, _) -> N.add k (Npos XH)
       | MSortedMulti (k, _) -> N.add k (Npos XH)
       | MMultiA (_, ks) -> N.of_nat (length ks)
       | MSortedMultiA (_, ks) -> N.of_nat (length ks)
       | _ -> N0) acc) N0 (subterms m)

(** val wit_bytes : (key -> kkind) -> ms -> n **)

let wit_bytes _ m =
  fold_right (fun x acc ->
    N.add
      (match x with
       | MPkK _ -> Npos (XO (XI (XO (XI (XO (XO XH))))))
       | MPkH _ ->
         N.add (Npos (XO (XI (XO (XI (XO (XO XH))))))) (Npos (XO (XI (XO (XO
           (XO (XO XH)))))))
       | MRawPkH _ ->
         N.add (Npos (XO (XI (XO (XI (XO (XO XH))))))) (Npos (XO (XI (XO (XO
           (XO (XO XH)))))))
       | MSha256 _ -> Npos (XI (XO (XO (XO (XO XH)))))
       | MHash256 _ -> Npos (XI (XO (XO (XO (XO XH)))))
       | MRipemd160 _ -> Npos (XI (XO (XO (XO (XO XH)))))
       | MHash160 _ -> Npos (XI (XO (XO (XO (XO XH)))))
       | MDupIf _ -> Npos (XO XH)
       | MOrI (_, _) -> Npos (XO XH)
       | MMulti (k, _) ->
         N.add (Npos XH) (N.mul (Npos (XO (XI (XO (XI (XO (XO XH))))))) k)
       | MSortedMulti (k, _) ->
         N.add (Npos XH) (N.mul (Npos (XO (XI (XO (XI (XO (XO XH))))))) k)
       | MMultiA (_, ks) ->
         N.mul (Npos (XO (XI (XO (XI (XO (XO XH))))))) (N.of_nat (length ks))
       | MSortedMultiA (_, ks) ->
         N.mul (Npos (XO (XI (XO (XI (XO (XO XH))))))) (N.of_nat (length ks))
       | _ -> N0) acc) N0 (subterms m)

(** val instr_count : instr -> n **)

let rec instr_count = function
| IIf (_, t, e) ->
  let go =
    let rec go = function
    | [] -> N0
    | x :: r -> N.add (instr_count x) (go r)
    in go
  in
  N.add (N.add (Npos XH) (go t)) (match e with
                                  | Some el -> go el
                                  | None -> N0)
| _ -> Npos XH

(** val script_instrs : script -> n **)

let rec script_instrs = function
| [] -> N0
| x :: r -> N.add (instr_count x) (script_instrs r)

(** val stack_bound : (key -> kkind) -> ms -> n **)

let stack_bound kk m =
  N.add (wit_items m) (script_instrs (enc (val_keyenv kk) m))

(** val limits_ok : ctx -> (key -> kkind) -> ms -> bool **)

let limits_ok c kk m =
  match c with
  | Bare ->
    (&&)
      (N.leb (script_len kk m) (Npos (XO (XO (XO (XO (XI (XO (XO (XO (XI (XI
        (XI (XO (XO XH)))))))))))))))
      (N.leb (ops_bound kk m) (Npos (XI (XO (XO (XI (XO (XO (XI XH)))))))))
  | Legacy ->
    (&&)
      ((&&)
        (N.leb (script_len kk m) (Npos (XO (XO (XO (XI (XO (XO (XO (XO (XO
          XH)))))))))))
        (N.leb (ops_bound kk m) (Npos (XI (XO (XO (XI (XO (XO (XI XH))))))))))
      (N.leb (wit_bytes kk m) (Npos (XO (XI (XO (XO (XI (XI (XI (XO (XO (XI
        XH))))))))))))
  | Segwitv0 ->
    (&&)
      ((&&)
        ((&&)
          (N.leb (script_len kk m) (Npos (XO (XO (XO (XO (XI (XO (XO (XO (XO
            (XI (XI XH)))))))))))))
          (N.leb (ops_bound kk m) (Npos (XI (XO (XO (XI (XO (XO (XI
            XH))))))))))
        (N.leb (N.add (wit_items m) (Npos XH)) (Npos (XO (XO (XI (XO (XO (XI
          XH)))))))))
      (N.leb (stack_bound kk m) (Npos (XO (XO (XO (XI (XO (XI (XI (XI (XI
        XH)))))))))))
  | Tap ->
    N.leb (stack_bound kk m) (Npos (XO (XO (XO (XI (XO (XI (XI (XI (XI
      XH))))))))))

(** val bare_top_ok : ms -> bool **)

let bare_top_ok = function
| MCheck x ->
  (match x with
   | MPkK _ -> true
   | MPkH _ -> true
   | MRawPkH _ -> true
   | _ -> false)
| MMulti (_, ks) -> Nat.leb (length ks) (S (S (S O)))
| MSortedMulti (_, ks) -> Nat.leb (length ks) (S (S (S O)))
| _ -> false

type clause =
| ClEquiv
| ClTypes
| ClBaseB
| ClSigned
| ClNonMall
| ClSemSigned
| ClCtx
| ClLimits
| ClBareTop
| ClTreeShape
| ClLeaves
| ClInternalKey

(** val root_flag : (ty -> bool) -> ty list -> bool **)

let root_flag f attached =
  match root_ty attached with
  | Some t -> f t
  | None -> false

(** val ms_clauses :
    ctx -> (key -> kkind) -> ms -> ty list -> (clause * bool) list **)

let ms_clauses c kk m attached =
  (ClTypes, (types_match m attached)) :: ((ClBaseB,
    (root_flag (fun t -> base_eqb t.t_corr.c_base BB) attached)) :: ((ClSigned,
    (root_flag (fun t -> t.t_mall.m_signed) attached)) :: ((ClNonMall,
    (root_flag (fun t -> t.t_mall.m_nm) attached)) :: ((ClSemSigned,
    (sem_signedb (lift_ms m))) :: ((ClCtx, (ctx_ok c kk m)) :: ((ClLimits,
    (limits_ok c kk m)) :: []))))))

(** val clauses :
    ctx -> (key -> kkind) -> bool -> vpolicy -> ms -> ty list ->
    (clause * bool) list **)

let clauses c kk bare_desc pol m attached =
  (ClEquiv, (equivb (lift_c pol) (lift_ms m))) :: ((ClBareTop,
    ((||) (negb bare_desc) (bare_top_ok m))) :: (ms_clauses c kk m attached))

(** val failing : (clause * bool) list -> clause list **)

let failing l =
  map fst (filter (fun cb -> negb (snd cb)) l)

type vtree =
| VLeaf of ms * ty list
| VNode of vtree * vtree

(** val build_tree :
    nat -> n -> (n * (ms * ty list)) list -> (vtree * (n * (ms * ty list))
    list) option **)

let rec build_tree fuel d l = match l with
| [] -> None
| p :: rest ->
  let (dl, p0) = p in
  let (m, a) = p0 in
  if N.eqb dl d
  then Some ((VLeaf (m, a)), rest)
  else (match fuel with
        | O -> None
        | S f ->
          (match build_tree f (N.add d (Npos XH)) l with
           | Some p1 ->
             let (lt, rest1) = p1 in
             (match build_tree f (N.add d (Npos XH)) rest1 with
              | Some p2 ->
                let (rt, rest2) = p2 in Some ((VNode (lt, rt)), rest2)
              | None -> None)
           | None -> None))

(** val tAPROOT_MAX_DEPTH : nat **)

let tAPROOT_MAX_DEPTH =
  S (S (S (S (S (S (S (S (S (S (S (S (S (S (S (S (S (S (S (S (S (S (S (S (S
    (S (S (S (S (S (S (S (S (S (S (S (S (S (S (S (S (S (S (S (S (S (S (S (S
    (S (S (S (S (S (S (S (S (S (S (S (S (S (S (S (S (S (S (S (S (S (S (S (S
    (S (S (S (S (S (S (S (S (S (S (S (S (S (S (S (S (S (S (S (S (S (S (S (S
    (S (S (S (S (S (S (S (S (S (S (S (S (S (S (S (S (S (S (S (S (S (S (S (S
    (S (S (S (S (S (S (S
    O)))))))))))))))))))))))))))))))))))))))))))))))))))))))))))))))))))))))))))))))))))))))))))))))))))))))))))))))))))))))))))))))

(** val tree_of : (n * (ms * ty list)) list -> vtree option **)

let tree_of l =
  match build_tree tAPROOT_MAX_DEPTH N0 l with
  | Some p -> let (t, l0) = p in (match l0 with
                                  | [] -> Some t
                                  | _ :: _ -> None)
  | None -> None

(** val ms_eqb : ms -> ms -> bool **)

let rec ms_eqb a b =
  match a with
  | MTrue -> (match b with
              | MTrue -> true
              | _ -> false)
  | MFalse -> (match b with
               | MFalse -> true
               | _ -> false)
  | MPkK x -> (match b with
               | MPkK y -> N.eqb x y
               | _ -> false)
  | MPkH x -> (match b with
               | MPkH y -> N.eqb x y
               | _ -> false)
  | MRawPkH x -> (match b with
                  | MRawPkH y -> vbytes_eqb x y
                  | _ -> false)
  | MAfter x -> (match b with
                 | MAfter y -> N.eqb x y
                 | _ -> false)
  | MOlder x -> (match b with
                 | MOlder y -> N.eqb x y
                 | _ -> false)
  | MSha256 x -> (match b with
                  | MSha256 y -> vbytes_eqb x y
                  | _ -> false)
  | MHash256 x -> (match b with
                   | MHash256 y -> vbytes_eqb x y
                   | _ -> false)
  | MRipemd160 x -> (match b with
                     | MRipemd160 y -> vbytes_eqb x y
                     | _ -> false)
  | MHash160 x -> (match b with
                   | MHash160 y -> vbytes_eqb x y
                   | _ -> false)
  | MAlt x -> (match b with
               | MAlt y -> ms_eqb x y
               | _ -> false)
  | MSwap x -> (match b with
                | MSwap y -> ms_eqb x y
                | _ -> false)
  | MCheck x -> (match b with
                 | MCheck y -> ms_eqb x y
                 | _ -> false)
  | MDupIf x -> (match b with
                 | MDupIf y -> ms_eqb x y
                 | _ -> false)
  | MVerify x -> (match b with
                  | MVerify y -> ms_eqb x y
                  | _ -> false)
  | MNonZero x -> (match b with
                   | MNonZero y -> ms_eqb x y
                   | _ -> false)
  | MZeroNotEqual x ->
    (match b with
     | MZeroNotEqual y -> ms_eqb x y
     | _ -> false)
  | MAndV (x1, x2) ->
    (match b with
     | MAndV (y1, y2) -> (&&) (ms_eqb x1 y1) (ms_eqb x2 y2)
     | _ -> false)
  | MAndB (x1, x2) ->
    (match b with
     | MAndB (y1, y2) -> (&&) (ms_eqb x1 y1) (ms_eqb x2 y2)
     | _ -> false)
  | MAndOr (x1, x2, x3) ->
    (match b with
     | MAndOr (y1, y2, y3) ->
       (&&) ((&&) (ms_eqb x1 y1) (ms_eqb x2 y2)) (ms_eqb x3 y3)
     | _ -> false)
  | MOrB (x1, x2) ->
    (match b with
     | MOrB (y1, y2) -> (&&) (ms_eqb x1 y1) (ms_eqb x2 y2)
     | _ -> false)
  | MOrD (x1, x2) ->
    (match b with
     | MOrD (y1, y2) -> (&&) (ms_eqb x1 y1) (ms_eqb x2 y2)
     | _ -> false)
  | MOrC (x1, x2) ->
    (match b with
     | MOrC (y1, y2) -> (&&) (ms_eqb x1 y1) (ms_eqb x2 y2)
     | _ -> false)
  | MOrI (x1, x2) ->
    (match b with
     | MOrI (y1, y2) -> (&&) (ms_eqb x1 y1) (ms_eqb x2 y2)
     | _ -> false)
  | MThresh (k, xs) ->
    (match b with
     | MThresh (j, ys) ->
       (&&) (N.eqb k j)
         (let rec go l1 l2 =
            match l1 with
            | [] -> (match l2 with
                     | [] -> true
                     | _ :: _ -> false)
            | x :: r ->
              (match l2 with
               | [] -> false
               | y :: s -> (&&) (ms_eqb x y) (go r s))
          in go xs ys)
     | _ -> false)
  | MMulti (k, xs) ->
    (match b with
     | MMulti (j, ys) -> (&&) (N.eqb k j) (list_eqb N.eqb xs ys)
     | _ -> false)
  | MSortedMulti (k, xs) ->
    (match b with
     | MSortedMulti (j, ys) -> (&&) (N.eqb k j) (list_eqb N.eqb xs ys)
     | _ -> false)
  | MMultiA (k, xs) ->
    (match b with
     | MMultiA (j, ys) -> (&&) (N.eqb k j) (list_eqb N.eqb xs ys)
     | _ -> false)
  | MSortedMultiA (k, xs) ->
    (match b with
     | MSortedMultiA (j, ys) -> (&&) (N.eqb k j) (list_eqb N.eqb xs ys)
     | _ -> false)

(** val remove_one : ms -> ms list -> ms list option **)

let rec remove_one x = function
| [] -> None
| y :: r ->
  if ms_eqb x y
  then Some r
  else (match remove_one x r with
        | Some r' -> Some (y :: r')
        | None -> None)

(** val perm_eqb : ms list -> ms list -> bool **)

let rec perm_eqb a b =
  match a with
  | [] -> (match b with
           | [] -> true
           | _ :: _ -> false)
  | x :: r ->
    (match remove_one x b with
     | Some b' -> perm_eqb r b'
     | None -> false)

(** val tr_policy : key -> bool -> ms list -> spolicy **)

let tr_policy ik ik_in_policy leaves =
  SThresh ((Npos XH),
    ((if ik_in_policy then SKey ik else SUnsat) :: (map lift_ms leaves)))

(** val tr_clauses :
    (key -> kkind) -> vpolicy -> key -> bool -> (n * (ms * ty list)) list ->
    ms list option -> (clause * bool) list **)

let tr_clauses kk pol ik ik_in_policy dl expected =
  let leaves = map (fun x -> fst (snd x)) dl in
  (ClEquiv,
  (equivb (lift_c pol) (tr_policy ik ik_in_policy leaves))) :: ((ClInternalKey,
  ((&&) (key_ok Tap (kk ik))
    ((||) ik_in_policy
      (negb
        (memb N.eqb ik (app (keys_s (lift_c pol)) (flat_map ms_keys leaves))))))) :: ((ClTreeShape,
  (match dl with
   | [] -> true
   | _ :: _ -> (match tree_of dl with
                | Some _ -> true
                | None -> false))) :: ((ClLeaves,
  (match expected with
   | Some ex -> perm_eqb leaves ex
   | None -> true)) :: (flat_map (fun x ->
                         ms_clauses Tap kk (fst (snd x)) (snd (snd x))) dl))))

(** val ty_of_code : n -> ty option **)

let ty_of_code c =
  nth_error all_ty (N.to_nat c)

(** val decode_tys : n list -> ty list option **)

let rec decode_tys = function
| [] -> Some []
| c :: r ->
  (match ty_of_code c with
   | Some t ->
     (match decode_tys r with
      | Some ts -> Some (t :: ts)
      | None -> None)
   | None -> None)

(** val kk_of_list : (key * kkind) list -> key -> kkind **)

let kk_of_list l k =
  match find (fun p -> N.eqb (fst p) k) l with
  | Some p -> snd p
  | None -> KComp

(** val run_ms_case :
    ctx -> (key * kkind) list -> bool -> vpolicy -> ms -> n list -> clause
    list **)

let run_ms_case c kkl bare pol m codes =
  match decode_tys codes with
  | Some att -> failing (clauses c (kk_of_list kkl) bare pol m att)
  | None -> ClTypes :: []

(** val decode_leaves :
    (n * (ms * n list)) list -> (n * (ms * ty list)) list option **)

let rec decode_leaves = function
| [] -> Some []
| p :: r ->
  let (d, p0) = p in
  let (m, codes) = p0 in
  (match decode_tys codes with
   | Some att ->
     (match decode_leaves r with
      | Some rs -> Some ((d, (m, att)) :: rs)
      | None -> None)
   | None -> None)

(** val run_tr_case :
    (key * kkind) list -> vpolicy -> key -> bool -> (n * (ms * n list)) list
    -> ms list option -> clause list **)

let run_tr_case kkl pol ik ik_in_policy dl expected =
  match decode_leaves dl with
  | Some dl' ->
    failing (tr_clauses (kk_of_list kkl) pol ik ik_in_policy dl' expected)
  | None -> ClTypes :: []
