#!/bin/bash
# Build the C09 driver on top of the shared extraction (ocaml/build.sh produces model.ml).
set -e
cd "$(dirname "$0")"
./build.sh >/dev/null
ocamlfind ocamlopt -O2 -w -a -package str model.mli model.ml driver_ext.ml -o driver_ext 2>/dev/null || ocamlfind ocamlopt -w -a model.mli model.ml driver_ext.ml -o driver_ext
echo built ocaml/driver_ext
