#!/bin/bash
# Extract the C04 models to OCaml and build the codec driver (offline).
set -e
cd "$(dirname "$0")"
coqc -Q ../coq/Script Verif -Q ../coq/Ms Verif -Q ../coq/Proofs Verif ../coq/Extract/ExtractCodec.v >/dev/null
rm -f ../coq/Extract/*.glob
ocamlfind ocamlopt -O2 -w -a -package str model_codec.mli model_codec.ml driver_codec.ml -o driver_codec 2>/dev/null || ocamlfind ocamlopt -w -a model_codec.mli model_codec.ml driver_codec.ml -o driver_codec
echo built ocaml/driver_codec
