(* Driver for the C07 `lift` engine. Reads the harness's text blocks and, with the EXTRACTED
   Coq model / specification (coq/Ms/LiftModel.v, SatSpec.v):
   (1) tie: the implementation's lifted policy (or error class) must equal the model's
       [lift_iter] / [lift_desc] result exactly;
   (2) oracle, independent of the model of lift: for every asset world, the implementation's
       policy evaluated by the specification's truth table [leval] must agree with
       (a) "the implementation's malleable satisfier found a satisfaction" and
       (b) "the specification's satisfaction table is non-empty" ([all_sat] / [desc_spendable]).
   Hand-written glue (trusted base): parsing and table lookups only. *)
open Lmodel

let rec pos_of_int (i : int) : positive =
  if i = 1 then XH else if i land 1 = 1 then XI (pos_of_int (i lsr 1)) else XO (pos_of_int (i lsr 1))
let n_of_int (i : int) : n = if i = 0 then N0 else Npos (pos_of_int i)
let rec int_of_pos = function XH -> 1 | XO p -> 2 * int_of_pos p | XI p -> 2 * int_of_pos p + 1
let int_of_n = function N0 -> 0 | Npos p -> int_of_pos p

let hexval c =
  match c with
  | '0' .. '9' -> Char.code c - 48
  | 'a' .. 'f' -> Char.code c - 87
  | 'A' .. 'F' -> Char.code c - 55
  | _ -> failwith "hex"
let byte_tab = Array.init 256 n_of_int
let bytes_of_hex (s : string) : n list =
  if s = "-" then []
  else begin
    let n = String.length s / 2 in
    let rec go i acc = if i < 0 then acc else go (i - 1) (byte_tab.(hexval s.[2 * i] * 16 + hexval s.[2 * i + 1]) :: acc) in
    go (n - 1) []
  end
let split s = List.filter (fun x -> x <> "") (String.split_on_char ' ' s)

(* ------------------------------------------------------------------ world *)
type keyrec = { full : n list; h_full : n list; xonly : n list; h_x : n list; comp : n list }
type prerec = { pre : n list; sha : n list; h256 : n list; rip : n list; h160 : n list }
let keys : (int * keyrec) list ref = ref []
let pres : (int * prerec) list ref = ref []
let key i = List.assoc i !keys

exception Parse of string
let parse_ms (toks : string list) : ms =
  let rest = ref toks in
  let next () = match !rest with x :: r -> rest := r; x | [] -> raise (Parse "eof") in
  let num () = n_of_int (int_of_string (next ())) in
  let keysn n = List.init n (fun _ -> num ()) in
  let rec go () : ms =
    match next () with
    | "1" -> MTrue | "0" -> MFalse
    | "pk_k" -> MPkK (num ()) | "pk_h" -> MPkH (num ())
    | "raw_pk_h" -> MRawPkH (bytes_of_hex (next ()))
    | "after" -> MAfter (num ()) | "older" -> MOlder (num ())
    | "sha256" -> MSha256 (bytes_of_hex (next ())) | "hash256" -> MHash256 (bytes_of_hex (next ()))
    | "ripemd160" -> MRipemd160 (bytes_of_hex (next ())) | "hash160" -> MHash160 (bytes_of_hex (next ()))
    | "a" -> MAlt (go ()) | "s" -> MSwap (go ()) | "c" -> MCheck (go ()) | "d" -> MDupIf (go ())
    | "v" -> MVerify (go ()) | "j" -> MNonZero (go ()) | "n" -> MZeroNotEqual (go ())
    | "and_v" -> let x = go () in let y = go () in MAndV (x, y)
    | "and_b" -> let x = go () in let y = go () in MAndB (x, y)
    | "andor" -> let a = go () in let b = go () in let c = go () in MAndOr (a, b, c)
    | "or_b" -> let x = go () in let y = go () in MOrB (x, y)
    | "or_d" -> let x = go () in let y = go () in MOrD (x, y)
    | "or_c" -> let x = go () in let y = go () in MOrC (x, y)
    | "or_i" -> let x = go () in let y = go () in MOrI (x, y)
    | "thresh" -> let k = num () in let n = int_of_string (next ()) in
      let rec kids i = if i = 0 then [] else let x = go () in x :: kids (i - 1) in MThresh (k, kids n)
    | "multi" -> let k = num () in let n = int_of_string (next ()) in MMulti (k, keysn n)
    | "sortedmulti" -> let k = num () in let n = int_of_string (next ()) in MSortedMulti (k, keysn n)
    | "multi_a" -> let k = num () in let n = int_of_string (next ()) in MMultiA (k, keysn n)
    | "sortedmulti_a" -> let k = num () in let n = int_of_string (next ()) in MSortedMultiA (k, keysn n)
    | t -> raise (Parse t) in
  let m = go () in
  if !rest <> [] then raise (Parse "trailing"); m

let parse_pol (toks : string list) : lpolicy =
  let rest = ref toks in
  let next () = match !rest with x :: r -> rest := r; x | [] -> raise (Parse "eof") in
  let num () = n_of_int (int_of_string (next ())) in
  let rec go () : lpolicy =
    match next () with
    | "U" -> LUnsat | "T" -> LTrivial
    | "pk" -> LKey (num ())
    | "after" -> LAfter (num ()) | "older" -> LOlder (num ())
    | "sha256" -> LSha256 (bytes_of_hex (next ())) | "hash256" -> LHash256 (bytes_of_hex (next ()))
    | "ripemd160" -> LRipemd160 (bytes_of_hex (next ())) | "hash160" -> LHash160 (bytes_of_hex (next ()))
    | "thresh" -> let k = num () in let n = int_of_string (next ()) in
      let rec kids i = if i = 0 then [] else let x = go () in x :: kids (i - 1) in LThresh (k, kids n)
    | t -> raise (Parse t) in
  let p = go () in
  if !rest <> [] then raise (Parse "trailing"); p

let rec show_pol (p : lpolicy) : string =
  match p with
  | LUnsat -> "U" | LTrivial -> "T"
  | LKey k -> Printf.sprintf "pk(%d)" (int_of_n k)
  | LAfter t -> Printf.sprintf "after(%d)" (int_of_n t)
  | LOlder t -> Printf.sprintf "older(%d)" (int_of_n t)
  | LSha256 h -> "sha256(" ^ short h ^ ")" | LHash256 h -> "hash256(" ^ short h ^ ")"
  | LRipemd160 h -> "ripemd160(" ^ short h ^ ")" | LHash160 h -> "hash160(" ^ short h ^ ")"
  | LThresh (k, ps) -> Printf.sprintf "thresh(%d,%s)" (int_of_n k) (String.concat "," (List.map show_pol ps))
and short h = String.concat "" (List.map (fun x -> Printf.sprintf "%02x" (int_of_n x)) (List.filteri (fun i _ -> i < 4) h))

let show_res (r : lres) : string =
  match r with
  | LOk p -> "OK:" ^ show_pol p
  | LErr EBranchExceedResourceLimits -> "ERR:BranchExceedResourceLimits"
  | LErr EHeightTimelockCombination -> "ERR:HeightTimelockCombination"
  | LErr ERawDescriptorLift -> "ERR:RawDescriptorLift"
  | LPanic -> "PANIC"

let ints_of_bytes b = List.map int_of_n b
let keyenv_of (tap : bool) : keyenv =
  { kb = (fun k -> let r = key (int_of_n k) in if tap then r.xonly else r.full);
    kh = (fun k -> let r = key (int_of_n k) in if tap then r.h_x else r.h_full);
    ksort = (fun ks ->
      let keyf k = let r = key (int_of_n k) in ints_of_bytes (if tap then r.xonly else r.comp) in
      List.stable_sort (fun a b -> compare (keyf a) (keyf b)) ks) }

let opt_n = function None -> None | Some i -> Some (n_of_int i)

let pre_for (pm : int) (sel : prerec -> n list) (img : n list) : n list option =
  match List.find_opt (fun (j, p) -> sel p = img && j < 30 && pm land (1 lsl j) <> 0 && j < List.length !pres - 1) !pres with
  | Some (_, p) -> Some p.pre
  | None -> None

let dummy_sig : n list = [byte_tab.(1)]
let assets_of km pm (held_abs : int option) (held_rel : int option) : assets =
  { a_sig = (fun k -> if km land (1 lsl (int_of_n k)) <> 0 then Some dummy_sig else None);
    a_sha256 = pre_for pm (fun p -> p.sha);
    a_hash256 = pre_for pm (fun p -> p.h256);
    a_ripemd160 = pre_for pm (fun p -> p.rip);
    a_hash160 = pre_for pm (fun p -> p.h160);
    a_after = after_ok (opt_n held_abs);
    a_older = older_ok (opt_n held_rel) }

(* ------------------------------------------------------------------ case state *)
type case = {
  id : string; kind : string; tap : bool;
  mutable desc : string;
  mutable mss : (string * ms) list;
  mutable rls : bool list;
  mutable slen : (int * int) list;      (* per script: encoded length, script_size() *)
  mutable keyonly : int option;
  mutable internal : int option;
  mutable impl : lres option;           (* what the implementation returned *)
  mutable impl_txt : string;
  mutable target : target option;
  mutable nworlds : int;
}
and target = TMs of ms | TDesc of ldesc

let hist : (string, int) Hashtbl.t = Hashtbl.create 64
let bump k = Hashtbl.replace hist k (1 + (try Hashtbl.find hist k with Not_found -> 0))
let frag_hist (toks : string list) =
  List.iter (fun t -> if String.length t > 0 && not (t.[0] >= '0' && t.[0] <= '9') && String.length t < 14 then bump ("frag/" ^ t)) toks
let rec pol_hist (p : lpolicy) =
  match p with
  | LUnsat -> bump "pol/unsat" | LTrivial -> bump "pol/trivial" | LKey _ -> bump "pol/key"
  | LAfter _ -> bump "pol/after" | LOlder _ -> bump "pol/older"
  | LSha256 _ | LHash256 _ | LRipemd160 _ | LHash160 _ -> bump "pol/hash"
  | LThresh (k, ps) ->
    let n = List.length ps in
    bump (if int_of_n k = n then "pol/and" else if int_of_n k = 1 then "pol/or" else "pol/thresh");
    List.iter pol_hist ps

let n_cases = ref 0 and lift_ok = ref 0 and lift_err = ref 0 and lift_panic = ref 0
let lift_eq = ref 0 and lift_diff = ref 0
let worlds = ref 0 and worlds_true = ref 0 and bad = ref 0 and sat_panic = ref 0
let exhaustive = ref 0 and sampled = ref 0
let samples : string list ref = ref []

let ctx_of_kind (kind : string) : ctx =
  match kind with
  | "ms-bare" | "bare" -> Bare
  | "ms-legacy" | "sh" -> Legacy
  | "ms-segv0" | "wsh" | "shwsh" -> Segwitv0
  | _ -> Tap
(* keys 6 and 7 of the harness World are uncompressed (Bare / Legacy only) *)
let unc_key (k : n) : bool = let i = int_of_n k in i = 6 || i = 7
let rl_eq = ref 0 and rl_diff = ref 0
let over_limit = ref 0 and x_run = ref 0 and x_bad = ref 0 and x_max_ops = ref 0 and x_max_depth = ref 0 and x_max_items = ref 0
let dummy_e : n list ref = ref [] and dummy_s : n list ref = ref []

(* environment for executing the implementation's witness with the specification's instrumented
   Script semantics: every key "signs" with the engine's dummy signatures *)
let hash_of kind (inp : n list) : n list =
  match List.find_opt (fun (_, p) -> p.pre = inp) !pres with
  | Some (_, p) -> (match kind with `Sha -> p.sha | `H256 -> p.h256 | `Rip -> p.rip | `H160 -> p.h160)
  | None ->
    (match kind with
     | `H160 ->
       (match List.find_opt (fun (_, k) -> k.full = inp || k.xonly = inp || k.comp = inp) !keys with
        | Some (_, k) -> if k.xonly = inp then k.h_x else k.h_full
        | None -> [byte_tab.(255)])
     | _ -> [byte_tab.(255)])
let env_of (cx : ctx) (held_abs : int option) (held_rel : int option) : env =
  { e_sv = (match cx with Tap -> SvTapscript | Segwitv0 -> SvWitnessV0 | _ -> SvBase);
    e_locktime = n_of_int (match held_abs with Some l -> l | None -> 0);
    e_sequence = n_of_int (match held_rel with Some q -> q | None -> if held_abs = None then 0xffffffff else 0xfffffffe);
    e_txversion = n_of_int 2;
    e_sigok = (fun _ sg -> sg <> [] && (sg = !dummy_e || sg = !dummy_s));
    e_keyok = (fun _ -> true);
    e_sha256 = hash_of `Sha; e_hash256 = hash_of `H256; e_ripemd160 = hash_of `Rip; e_hash160 = hash_of `H160 }

let build_target (c : case) : target option =
  let one () = match c.mss, c.rls with [(_, m)], [rl] -> Some (rl, m) | _ -> None in
  match c.kind with
  | "ms-segv0" | "ms-legacy" | "ms-bare" | "ms-tap" -> (match c.mss with [(_, m)] -> Some (TMs m) | _ -> None)
  | "wsh" -> (match one () with Some (rl, m) -> Some (TDesc (DWsh (rl, m))) | None -> None)
  | "shwsh" -> (match one () with Some (rl, m) -> Some (TDesc (DShWsh (rl, m))) | None -> None)
  | "sh" -> (match one () with Some (rl, m) -> Some (TDesc (DSh (rl, m))) | None -> None)
  | "bare" -> (match one () with Some (rl, m) -> Some (TDesc (DBare (rl, m))) | None -> None)
  | "pkh" -> (match c.keyonly with Some k -> Some (TDesc (DPkh (n_of_int k))) | None -> None)
  | "wpkh" -> (match c.keyonly with Some k -> Some (TDesc (DWpkh (n_of_int k))) | None -> None)
  | "shwpkh" -> (match c.keyonly with Some k -> Some (TDesc (DShWpkh (n_of_int k))) | None -> None)
  | "tr" ->
    (match c.internal with
     | Some ik when List.length c.mss = List.length c.rls ->
       Some (TDesc (DTr (n_of_int ik, List.map2 (fun rl (_, m) -> (rl, m)) c.rls c.mss)))
     | _ -> None)
  | _ -> None

let ms_text (c : case) = String.concat " | " (List.map fst c.mss)

let handle_lift (c : case) (toks : string list) =
  let impl, txt =
    (match toks with
     | "OK" :: rest -> (LOk (parse_pol rest), String.concat " " rest)
     | "ERR" :: "BranchExceedResourceLimits" :: _ -> (LErr EBranchExceedResourceLimits, "ERR")
     | "ERR" :: "HeightTimelockCombination" :: _ -> (LErr EHeightTimelockCombination, "ERR")
     | "ERR" :: "RawDescriptorLift" :: _ -> (LErr ERawDescriptorLift, "ERR")
     | "PANIC" :: _ -> (LPanic, "PANIC")
     | _ -> (LPanic, "UNKNOWN:" ^ String.concat " " toks)) in
  c.impl <- Some impl; c.impl_txt <- txt;
  (match impl with
   | LOk p -> incr lift_ok; pol_hist p
   | LErr e -> incr lift_err;
     bump (match e with EBranchExceedResourceLimits -> "lifterr/BranchExceedResourceLimits"
                      | EHeightTimelockCombination -> "lifterr/HeightTimelockCombination"
                      | ERawDescriptorLift -> "lifterr/RawDescriptorLift")
   | LPanic -> incr lift_panic;
     Printf.printf "PANIC lift case=%s kind=%s desc=%s ms=%s got=%s\n" c.id c.kind c.desc (ms_text c) txt);
  c.target <- build_target c;
  match c.target with
  | None -> Printf.printf "DIFF lift case=%s kind=%s reason=unparsed-case\n" c.id c.kind; incr lift_diff
  | Some t ->
    let cx = ctx_of_kind c.kind in
    let model = (match t with
        | TMs m -> lift_ctx cx unc_key m
        | TDesc d -> lift_desc_ctx unc_key d) in
    (* tie of the verdict itself: the library's within_resource_limits() vs the model computed from the fragment *)
    let impl_bits = c.rls in
    let model_bits = (match t with
        | TMs m -> [within_resource_limits cx unc_key m]
        | TDesc d -> desc_bits (redesc unc_key d)) in
    if impl_bits = model_bits then incr rl_eq
    else begin
      incr rl_diff;
      Printf.printf "DIFF rl case=%s kind=%s impl=%s model=%s desc=%s ms=%s\n" c.id c.kind
        (String.concat "," (List.map string_of_bool impl_bits)) (String.concat "," (List.map string_of_bool model_bits))
        c.desc (ms_text c)
    end;
    if lres_eqb model impl then begin
      incr lift_eq;
      if List.length !samples < 12 && (!n_cases mod 37 = 1 || List.length !samples < 3) then
        samples := Printf.sprintf "%s %s: %s => %s" c.kind c.id (if c.mss = [] then c.desc else ms_text c) (show_res impl) :: !samples
    end else begin
      incr lift_diff;
      Printf.printf "DIFF lift case=%s kind=%s desc=%s impl=%s model=%s ms=%s\n" c.id c.kind c.desc (show_res impl) (show_res model) (ms_text c)
    end

(* an upper bound on the number of entries of the specification table (all assets available), so that
   the list-valued table is only evaluated where it is small; elsewhere the comparison is
   policy vs satisfier (and the witness execution) *)
let rec choose (n : int) (k : int) : float =
  if k < 0 || k > n then 0.0 else if k = 0 then 1.0 else choose (n - 1) (k - 1) *. float_of_int n /. float_of_int k
let rec tbl_size (m : ms) : float * float =
  match m with
  | MTrue -> (1., 0.) | MFalse -> (0., 1.)
  | MPkK _ | MPkH _ | MSha256 _ | MHash256 _ | MRipemd160 _ | MHash160 _ -> (1., 1.)
  | MRawPkH _ -> (0., 0.) | MAfter _ | MOlder _ -> (1., 0.)
  | MAlt x | MSwap x | MCheck x | MZeroNotEqual x -> tbl_size x
  | MDupIf x | MNonZero x -> (fst (tbl_size x), 1.)
  | MVerify x -> (fst (tbl_size x), 0.)
  | MAndV (x, y) -> let (sx, _) = tbl_size x and (sy, dy) = tbl_size y in (sx *. sy, sx *. dy)
  | MAndB (x, y) -> let (sx, dx) = tbl_size x and (sy, dy) = tbl_size y in (sx *. sy, dx *. dy)
  | MAndOr (a, b, c) ->
    let (sa, da) = tbl_size a and (sb, _) = tbl_size b and (sc, dc) = tbl_size c in (sa *. sb +. da *. sc, da *. dc)
  | MOrB (x, z) -> let (sx, dx) = tbl_size x and (sz, dz) = tbl_size z in (dx *. sz +. sx *. dz, dx *. dz)
  | MOrC (x, z) -> let (sx, dx) = tbl_size x and (sz, _) = tbl_size z in (sx +. dx *. sz, 0.)
  | MOrD (x, z) -> let (sx, dx) = tbl_size x and (sz, dz) = tbl_size z in (sx +. dx *. sz, dx *. dz)
  | MOrI (x, z) -> let (sx, dx) = tbl_size x and (sz, dz) = tbl_size z in (sx +. sz, dx +. dz)
  | MThresh (_, xs) ->
    let t = List.fold_left (fun acc x -> let (a, b) = tbl_size x in acc *. (a +. b)) 1. xs in (t, t)
  | MMulti (k, ks) | MSortedMulti (k, ks) | MMultiA (k, ks) | MSortedMultiA (k, ks) ->
    (choose (List.length ks) (int_of_n k) *. float_of_int (1 + List.length ks / 50), 1.)
let table_feasible (m : ms) : bool = let (a, b) = tbl_size m in a +. b <= 200000.
let table_skipped = ref 0

let handle_world (c : case) (toks : string list) =
  match toks, c.impl, c.target with
  | km :: pm :: l :: s :: v :: _, Some (LOk p), Some t ->
    let kmi = int_of_string km and pmi = int_of_string pm in
    let held_abs = if l = "-" then None else Some (int_of_string l) in
    let held_rel = if s = "-" then None else Some (int_of_string s) in
    let a = assets_of kmi pmi held_abs held_rel in
    let ke = keyenv_of c.tap in
    incr worlds; c.nworlds <- c.nworlds + 1;
    if v = "P" then begin
      incr sat_panic;
      Printf.printf "PANIC satisfier case=%s kind=%s keymask=%s premask=%s lock=%s seq=%s scriptlen=%s predicted=%s desc=%s ms=%s\n" c.id c.kind km pm l s
        (String.concat "," (List.map (fun (a, _) -> string_of_int a) c.slen)) (String.concat "," (List.map (fun (_, b) -> string_of_int b) c.slen))
        c.desc (ms_text c)
    end else begin
      let e_pol = leval a p in
      let e_sat = (v = "1") in
      let feasible = (match t with
          | TMs m -> table_feasible m
          | TDesc d -> List.for_all (fun (_, m) -> table_feasible m) c.mss) in
      let e_tab =
        if not feasible then (incr table_skipped; e_pol)
        else (match t with
            | TMs m -> nonempty (all_sat ke a m)
            | TDesc d -> desc_spendable ke a (fun _ -> a) d) in
      if e_pol then incr worlds_true;
      (* oracle that does not trust within_resource_limits: the satisfaction the library found in
         this world must fit the context's limits on the initial stack *)
      (match toks with
       | _ :: _ :: _ :: _ :: _ :: n :: bytes :: _ when e_sat ->
         let n = int_of_string n and bytes = int_of_string bytes in
         if n > !x_max_items then x_max_items := n;
         let cx = ctx_of_kind c.kind in
         let why =
           (match cx with
            | Tap -> if n > 1000 then Some "more-than-1000-stack-elements" else None
            | Segwitv0 -> if n > 1000 then Some "more-than-1000-stack-elements" else if n > 100 then Some "more-than-100-witness-items" else None
            | Legacy ->
              (* the scriptSig of a P2SH spend = the items + the push of the redeem script (Core judges the whole) *)
              let sl = (match c.slen with (a, _) :: _ -> a | [] -> 0) in
              let push = if sl < 76 then 1 else if sl < 256 then 2 else 3 in
              if n > 1000 then Some "more-than-1000-stack-elements"
              else if bytes + sl + push > 1650 then Some "scriptsig-over-1650-bytes" else None
            (* the library's Bare context has no scriptSig-size rule (bare descriptors admit only pk / pkh / multi) *)
            | Bare -> if n > 1000 then Some "more-than-1000-stack-elements" else None) in
         (match why with
          | Some r ->
            incr over_limit;
            Printf.printf "BAD C07 case=%s kind=%s keymask=%s premask=%s lock=%s seq=%s policy_says=%b satisfier_says=%b table_says=%b limit=%s items=%d bytes=%d policy=%s desc=%s ms=%s\n"
              c.id c.kind km pm l s e_pol e_sat e_tab r n bytes (show_pol p) (if c.desc = "" then "-" else c.desc) (ms_text c)
          | None -> ())
       | _ -> ());
      if e_pol <> e_sat || e_pol <> e_tab then begin
        incr bad;
        Printf.printf "BAD C07 case=%s kind=%s keymask=%s premask=%s lock=%s seq=%s policy_says=%b satisfier_says=%b table_says=%b policy=%s desc=%s ms=%s\n"
          c.id c.kind km pm l s e_pol e_sat e_tab (show_pol p) (if c.desc = "" then "-" else c.desc) (ms_text c)
      end
    end
  | _ -> ()

let handle_x (c : case) (toks : string list) =
  match toks with
  | km :: pm :: l :: s :: script :: _n :: items ->
    let held_abs = if l = "-" then None else Some (int_of_string l) in
    let held_rel = if s = "-" then None else Some (int_of_string s) in
    let cx = ctx_of_kind c.kind in
    let e = env_of cx held_abs held_rel in
    incr x_run;
    let fail why ops depth =
      incr x_bad;
      Printf.printf "BAD C07 case=%s kind=%s keymask=%s premask=%s lock=%s seq=%s policy_says=true satisfier_says=true table_says=true limit=%s ops=%d depth=%d items=%d policy=- desc=%s ms=%s\n"
        c.id c.kind km pm l s why ops depth (List.length items) (if c.desc = "" then "-" else c.desc) (ms_text c) in
    (match trace_of_script e (bytes_of_hex script) (List.map bytes_of_hex items) with
     | None -> fail "script-does-not-parse" 0 0
     | Some ((ops, depth), acc) ->
       let ops = int_of_n ops and depth = int_of_n depth in
       if ops > !x_max_ops then x_max_ops := ops;
       if depth > !x_max_depth then x_max_depth := depth;
       (* "exactly one true element is left" is the acceptance rule of B-typed scripts only *)
       let is_b = (match c.target with
           | Some (TMs m) -> (match type_of m with ROk t -> t.t_corr.c_base = BB | RErr _ -> false)
           | _ -> true) in
       if is_b && not acc then fail "witness-rejected-by-the-script-semantics" ops depth
       else if depth > 1000 then fail "more-than-1000-stack-elements-during-execution" ops depth
       else if cx <> Tap && ops > 201 then fail "more-than-201-ops" ops depth)
  | _ -> ()

let () =
  let cur = ref None in
  let upd f = match !cur with Some c -> f c | None -> () in
  (try
     while true do
       let line = input_line stdin in
       match split line with
       | "KEY" :: i :: full :: hf :: x :: hx :: comp :: _ ->
         keys := (int_of_string i, { full = bytes_of_hex full; h_full = bytes_of_hex hf; xonly = bytes_of_hex x;
                                     h_x = bytes_of_hex hx; comp = bytes_of_hex comp }) :: !keys
       | "PRE" :: j :: p :: s :: h2 :: r :: h1 :: _ ->
         pres := !pres @ [(int_of_string j, { pre = bytes_of_hex p; sha = bytes_of_hex s; h256 = bytes_of_hex h2;
                                              rip = bytes_of_hex r; h160 = bytes_of_hex h1 })]
       | "CASE" :: id :: kind :: ctx :: _ ->
         incr n_cases; bump ("kind/" ^ kind);
         cur := Some { id; kind; tap = (ctx = "ctx=tap"); desc = ""; mss = []; rls = []; slen = []; keyonly = None; internal = None;
                       impl = None; impl_txt = ""; target = None; nworlds = 0 }
       | "DESC" :: d :: _ -> upd (fun c -> c.desc <- d)
       | "MS" :: rest ->
         upd (fun c -> frag_hist rest;
               (try c.mss <- c.mss @ [(String.concat " " rest, parse_ms rest)]
                with Parse t -> Printf.printf "DIFF lift case=%s kind=%s reason=ms-parse-%s\n" c.id c.kind t))
       | "RL" :: b :: _ -> upd (fun c -> c.rls <- c.rls @ [b = "1"])
       | "SCRIPTLEN" :: a :: b :: _ -> upd (fun c -> c.slen <- c.slen @ [(int_of_string a, int_of_string b)])
       | "KEYONLY" :: k :: _ -> upd (fun c -> c.keyonly <- Some (int_of_string k))
       | "INTERNAL" :: k :: _ -> upd (fun c -> c.internal <- Some (int_of_string k))
       | "LIFT" :: rest -> upd (fun c -> handle_lift c rest)
       | "ATOMS" :: k :: p :: a :: r :: w :: ex :: _ ->
         upd (fun c ->
             if ex = "exhaustive=1" then incr exhaustive else incr sampled;
             let geti s = int_of_string (List.nth (String.split_on_char '=' s) 1) in
             let atoms = geti k + geti p + geti a + geti r in
             bump (Printf.sprintf "atoms/%02d" atoms);
             let nw = geti w in
             bump ("worlds/" ^ (if nw <= 4 then "001-004" else if nw <= 16 then "005-016" else if nw <= 64 then "017-064"
                                else if nw <= 256 then "065-256" else if nw <= 1024 then "257-1024" else "1025+")))
       | "W" :: rest -> upd (fun c -> handle_world c rest)
       | "X" :: rest -> upd (fun c -> handle_x c rest)
       | "DUMMY" :: a :: b :: _ -> dummy_e := bytes_of_hex a; dummy_s := bytes_of_hex b
       | "END" :: _ -> cur := None
       | "PANIC" :: _ -> print_endline line
       | _ -> ()
     done
   with End_of_file -> ());
  Printf.printf "SUMMARY cases=%d lift_ok=%d lift_err=%d lift_panic=%d lift_eq=%d lift_diff=%d worlds=%d worlds_true=%d bad=%d sat_panic=%d exhaustive=%d sampled=%d rl_eq=%d rl_diff=%d over_limit=%d x_run=%d x_bad=%d\n"
    !n_cases !lift_ok !lift_err !lift_panic !lift_eq !lift_diff !worlds !worlds_true !bad !sat_panic !exhaustive !sampled
    !rl_eq !rl_diff !over_limit !x_run !x_bad;
  Printf.printf "MAXES ops=%d depth=%d items=%d table_skipped=%d\n" !x_max_ops !x_max_depth !x_max_items !table_skipped;
  Hashtbl.iter (fun k v -> Printf.printf "HIST %s %d\n" k v) hist;
  List.iter (fun s -> Printf.printf "SAMPLE %s\n" s) (List.rev !samples)
