
val negb : bool -> bool

type nat =
| O
| S of nat

val fst : ('a1 * 'a2) -> 'a1

val snd : ('a1 * 'a2) -> 'a2

val length : 'a1 list -> nat

val app : 'a1 list -> 'a1 list -> 'a1 list

type comparison =
| Eq
| Lt
| Gt

val compOpp : comparison -> comparison

val add : nat -> nat -> nat

val eqb : bool -> bool -> bool

module Nat :
 sig
  val leb : nat -> nat -> bool
 end

val hd_error : 'a1 list -> 'a1 option

val nth_error : 'a1 list -> nat -> 'a1 option

val rev : 'a1 list -> 'a1 list

val map : ('a1 -> 'a2) -> 'a1 list -> 'a2 list

val flat_map : ('a1 -> 'a2 list) -> 'a1 list -> 'a2 list

val fold_left : ('a1 -> 'a2 -> 'a1) -> 'a2 list -> 'a1 -> 'a1

val fold_right : ('a2 -> 'a1 -> 'a1) -> 'a1 -> 'a2 list -> 'a1

val existsb : ('a1 -> bool) -> 'a1 list -> bool

val forallb : ('a1 -> bool) -> 'a1 list -> bool

val filter : ('a1 -> bool) -> 'a1 list -> 'a1 list

val find : ('a1 -> bool) -> 'a1 list -> 'a1 option

val repeat : 'a1 -> nat -> 'a1 list

type positive =
| XI of positive
| XO of positive
| XH

type n =
| N0
| Npos of positive

type z =
| Z0
| Zpos of positive
| Zneg of positive

module Pos :
 sig
  type mask =
  | IsNul
  | IsPos of positive
  | IsNeg
 end

module Coq_Pos :
 sig
  val succ : positive -> positive

  val add : positive -> positive -> positive

  val add_carry : positive -> positive -> positive

  val pred_double : positive -> positive

  type mask = Pos.mask =
  | IsNul
  | IsPos of positive
  | IsNeg

  val succ_double_mask : mask -> mask

  val double_mask : mask -> mask

  val double_pred_mask : positive -> mask

  val sub_mask : positive -> positive -> mask

  val sub_mask_carry : positive -> positive -> mask

  val mul : positive -> positive -> positive

  val size : positive -> positive

  val compare_cont : comparison -> positive -> positive -> comparison

  val compare : positive -> positive -> comparison

  val eqb : positive -> positive -> bool

  val coq_Nsucc_double : n -> n

  val coq_Ndouble : n -> n

  val coq_land : positive -> positive -> n

  val iter_op : ('a1 -> 'a1 -> 'a1) -> positive -> 'a1 -> 'a1

  val to_nat : positive -> nat

  val of_succ_nat : nat -> positive
 end

module N :
 sig
  val succ_double : n -> n

  val double : n -> n

  val add : n -> n -> n

  val sub : n -> n -> n

  val mul : n -> n -> n

  val compare : n -> n -> comparison

  val eqb : n -> n -> bool

  val leb : n -> n -> bool

  val ltb : n -> n -> bool

  val max : n -> n -> n

  val pos_div_eucl : positive -> n -> n * n

  val div_eucl : n -> n -> n * n

  val div : n -> n -> n

  val modulo : n -> n -> n

  val coq_land : n -> n -> n

  val to_nat : n -> nat

  val of_nat : nat -> n
 end

module Z :
 sig
  val double : z -> z

  val succ_double : z -> z

  val pred_double : z -> z

  val pos_sub : positive -> positive -> z

  val add : z -> z -> z

  val opp : z -> z

  val sub : z -> z -> z

  val mul : z -> z -> z

  val compare : z -> z -> comparison

  val leb : z -> z -> bool

  val ltb : z -> z -> bool

  val eqb : z -> z -> bool

  val abs : z -> z

  val to_nat : z -> nat

  val to_N : z -> n

  val of_nat : nat -> z

  val of_N : n -> z

  val pos_div_eucl : positive -> z -> z * z

  val div_eucl : z -> z -> z * z

  val div : z -> z -> z

  val modulo : z -> z -> z

  val log2 : z -> z
 end

type byte = n

type bytes = byte list

val blen : bytes -> n

val le_bytes_fuel : nat -> z -> bytes

val le_bytes : z -> bytes

val num_encode : z -> bytes

type opcode =
| OP_VERIFY
| OP_TOALTSTACK
| OP_FROMALTSTACK
| OP_IFDUP
| OP_DUP
| OP_SWAP
| OP_SIZE
| OP_DROP
| OP_EQUAL
| OP_EQUALVERIFY
| OP_0NOTEQUAL
| OP_ADD
| OP_BOOLAND
| OP_BOOLOR
| OP_NUMEQUAL
| OP_NUMEQUALVERIFY
| OP_RIPEMD160
| OP_SHA256
| OP_HASH160
| OP_HASH256
| OP_CHECKSIG
| OP_CHECKSIGVERIFY
| OP_CHECKMULTISIG
| OP_CHECKMULTISIGVERIFY
| OP_CHECKSIGADD
| OP_CLTV
| OP_CSV
| OP_OTHER of n

type instr =
| IPush of bytes
| INum of z
| IOp of opcode
| IIf of bool * instr list * instr list option

type script = instr list

val opcode_byte : opcode -> n

val oPB_IF : n

val oPB_NOTIF : n

val oPB_ELSE : n

val oPB_ENDIF : n

val ser_push : bytes -> bytes

val ser_num : z -> bytes

val ser_instr : instr -> bytes

val serialize : script -> bytes

type ctx =
| Bare
| Legacy
| Segwitv0
| Tap

val is_tap : ctx -> bool

type key = n

type ms =
| MTrue
| MFalse
| MPkK of key
| MPkH of key
| MRawPkH of bytes
| MAfter of n
| MOlder of n
| MSha256 of bytes
| MHash256 of bytes
| MRipemd160 of bytes
| MHash160 of bytes
| MAlt of ms
| MSwap of ms
| MCheck of ms
| MDupIf of ms
| MVerify of ms
| MNonZero of ms
| MZeroNotEqual of ms
| MAndV of ms * ms
| MAndB of ms * ms
| MAndOr of ms * ms * ms
| MOrB of ms * ms
| MOrD of ms * ms
| MOrC of ms * ms
| MOrI of ms * ms
| MThresh of n * ms list
| MMulti of n * key list
| MSortedMulti of n * key list
| MMultiA of n * key list
| MSortedMultiA of n * key list

type keyenv = { kb : (key -> bytes); kh : (key -> bytes);
                ksort : (key list -> key list) }

val push_int : z -> instr

val verify_form : opcode -> opcode option

val push_verify : script -> script

val hash_frag : opcode -> bytes -> script

val enc : keyenv -> ms -> script

val encode : keyenv -> ms -> bytes

type base =
| BB
| BK
| BV
| BW

type input =
| IZero
| IOne
| IAny
| IOneNonZero
| IAnyNonZero

type corr = { c_base : base; c_input : input; c_dissat : bool; c_unit : bool }

type dissat =
| DNone
| DUnique
| DUnknown

type mall = { m_dissat : dissat; m_signed : bool; m_nm : bool }

type ty = { t_corr : corr; t_mall : mall }

type errk =
| NonZeroDupIf
| LeftNotDissatisfiable
| RightNotDissatisfiable
| SwapNonOne
| NonZeroZero
| LeftNotUnit
| ChildBase1 of base
| ChildBase2 of base * base
| ChildBase3 of base * base * base
| ThresholdBase of n * base
| ThresholdDissat of n
| ThresholdNonUnit of n

type 'a res =
| ROk of 'a
| RErr of errk

val base_eqb : base -> base -> bool

val input_eqb : input -> input -> bool

val dissat_eqb : dissat -> dissat -> bool

val corr_eqb : corr -> corr -> bool

val mall_eqb : mall -> mall -> bool

val ty_eqb : ty -> ty -> bool

val errk_eqb : errk -> errk -> bool

val res_eqb : ('a1 -> 'a1 -> bool) -> 'a1 res -> 'a1 res -> bool

val c_true : corr

val c_false : corr

val c_pk_k : corr

val c_pk_h : corr

val c_multi : corr

val c_sortedmulti : corr

val c_multi_a : corr

val c_sortedmulti_a : corr

val c_hash : corr

val c_time : corr

val c_cast_alt : corr -> corr res

val c_cast_swap : corr -> corr res

val c_cast_check : corr -> corr res

val c_cast_dupif : corr -> corr res

val c_cast_verify : corr -> corr res

val c_cast_nonzero : corr -> corr res

val c_cast_zeronotequal : corr -> corr res

val and_input : input -> input -> input

val c_and_b : corr -> corr -> corr res

val c_and_v : corr -> corr -> corr res

val c_or_b : corr -> corr -> corr res

val or_dc_input : input -> input -> input

val c_or_d : corr -> corr -> corr res

val c_or_c : corr -> corr -> corr res

val c_or_i : corr -> corr -> corr res

val c_and_or : corr -> corr -> corr -> corr res

val c_thresh_loop : n -> n -> corr list -> n res

val c_threshold : n -> corr list -> corr res

val m_true : mall

val m_false : mall

val m_pk_k : mall

val m_pk_h : mall

val m_multi : mall

val m_sortedmulti : mall

val m_multi_a : mall

val m_sortedmulti_a : mall

val m_hash : mall

val m_time : mall

val m_cast_alt : mall -> mall

val m_cast_swap : mall -> mall

val m_cast_check : mall -> mall

val none_to_unique : dissat -> dissat

val m_cast_dupif : mall -> mall

val m_cast_verify : mall -> mall

val m_cast_nonzero : mall -> mall

val m_cast_zeronotequal : mall -> mall

val m_and_b : mall -> mall -> mall

val m_and_v : mall -> mall -> mall

val m_or_b : mall -> mall -> mall

val m_or_d : mall -> mall -> mall

val m_or_c : mall -> mall -> mall

val m_or_i : mall -> mall -> mall

val m_and_or : mall -> mall -> mall -> mall

val m_thresh_loop : mall list -> n -> bool -> bool -> (n * bool) * bool

val m_threshold : n -> mall list -> mall

val lift1 : (corr -> corr res) -> (mall -> mall) -> ty -> ty res

val lift2 :
  (corr -> corr -> corr res) -> (mall -> mall -> mall) -> ty -> ty -> ty res

val t_true : ty

val t_false : ty

val t_pk_k : ty

val t_pk_h : ty

val t_multi : ty

val t_sortedmulti : ty

val t_multi_a : ty

val t_sortedmulti_a : ty

val t_hash : ty

val t_time : ty

val t_cast_alt : ty -> ty res

val t_cast_swap : ty -> ty res

val t_cast_check : ty -> ty res

val t_cast_dupif : ty -> ty res

val t_cast_verify : ty -> ty res

val t_cast_nonzero : ty -> ty res

val t_cast_zeronotequal : ty -> ty res

val t_and_b : ty -> ty -> ty res

val t_and_v : ty -> ty -> ty res

val t_or_b : ty -> ty -> ty res

val t_or_d : ty -> ty -> ty res

val t_or_c : ty -> ty -> ty res

val t_or_i : ty -> ty -> ty res

val t_and_or : ty -> ty -> ty -> ty res

val t_threshold : n -> ty list -> ty res

val all_base : base list

val all_input : input list

val all_bool : bool list

val all_dissat : dissat list

val all_corr : corr list

val all_mall : mall list

val all_ty : ty list

val rbind : 'a1 res -> ('a1 -> 'a2 res) -> 'a2 res

val type_of : ms -> ty res

val thresh_ok : n -> nat -> n -> bool

val after_ok : n option -> n -> bool

val older_ok : n option -> n -> bool

type vhash =
| VSha256
| VHash256
| VRipemd160
| VHash160

type vpolicy =
| CUnsat
| CTrivial
| CKey of key
| CAfter of n
| COlder of n
| CHash of vhash * bytes
| CAnd of vpolicy list
| COr of (n * vpolicy) list
| CThresh of n * vpolicy list

type spolicy =
| SUnsat
| STrivial
| SKey of key
| SAfter of n
| SOlder of n
| SHash of vhash * bytes
| SThresh of n * spolicy list

type world = { w_key : (key -> bool); w_pre : (vhash -> bytes -> bool);
               w_lock : n; w_seq : n }

val abs_met : world -> n -> bool

val rel_met : world -> n -> bool

val countb : bool list -> n

val evals : world -> spolicy -> bool

val evalc : world -> vpolicy -> bool

val lift_c : vpolicy -> spolicy

val lift_ms : ms -> spolicy

val keys_s : spolicy -> key list

val hashes_s : spolicy -> (vhash * bytes) list

val abs_s : spolicy -> n list

val rel_s : spolicy -> n list

val vhash_eqb : vhash -> vhash -> bool

val list_eqb : ('a1 -> 'a1 -> bool) -> 'a1 list -> 'a1 list -> bool

val vbytes_eqb : bytes -> bytes -> bool

val hatom_eqb : (vhash * bytes) -> (vhash * bytes) -> bool

val memb : ('a1 -> 'a1 -> bool) -> 'a1 -> 'a1 list -> bool

val dedup : ('a1 -> 'a1 -> bool) -> 'a1 list -> 'a1 list

type fworld = { fw_keys : key list; fw_hashes : (vhash * bytes) list;
                fw_lock : n; fw_seq : n }

val world_of : fworld -> world

val sublists : 'a1 list -> 'a1 list list

val lOCK_THRESHOLD : n

val sEQ_DISABLE : n

val sEQ_TYPE : n

val sEQ_KEEP : n

val lock_reps : n list -> n list

val seq_reps : n list -> n list

val fworlds :
  key list -> (vhash * bytes) list -> n list -> n list -> fworld list

val worlds_of : spolicy -> spolicy -> fworld list

val agree_on : spolicy -> spolicy -> fworld -> bool

val equivb : spolicy -> spolicy -> bool

val find_diff : spolicy -> spolicy -> fworld option

val sigless_worlds : spolicy -> fworld list

val sem_signedb : spolicy -> bool

val find_sigless : spolicy -> fworld option

val subterms : ms -> ms list

val res_ty_eqb : ty res -> ty res -> bool

val types_match : ms -> ty list -> bool

val root_ty : ty list -> ty option

type kkind =
| KComp
| KUncomp
| KXOnly

val legacy_like : ctx -> bool

val key_ok : ctx -> kkind -> bool

val lock_ok : n -> bool

val frag_ok : ctx -> (key -> kkind) -> ms -> bool

val ms_keys : ms -> key list

val nodupb : key list -> bool

type tlinfo = { csv_h : bool; csv_t : bool; cltv_h : bool; cltv_t : bool;
                tl_comb : bool }

val tl_none : tlinfo

val tl_step : n -> tlinfo -> tlinfo -> tlinfo

val tl_combine : n -> tlinfo list -> tlinfo

val ms_tl : ms -> tlinfo

val ms_height : ms -> n

val ctx_ok : ctx -> (key -> kkind) -> ms -> bool

val val_keyenv : (key -> kkind) -> keyenv

val script_len : (key -> kkind) -> ms -> n

val instr_ops : instr -> n

val script_ops : script -> n

val multisig_keys : ms -> n

val ops_bound : (key -> kkind) -> ms -> n

val wit_items : ms -> n

val wit_bytes : (key -> kkind) -> ms -> n

val instr_count : instr -> n

val script_instrs : script -> n

val stack_bound : (key -> kkind) -> ms -> n

val limits_ok : ctx -> (key -> kkind) -> ms -> bool

val bare_top_ok : ms -> bool

type clause =
| ClEquiv
| ClTypes
| ClBaseB
| ClSigned
| ClNonMall
| ClSemSigned
| ClCtx
| ClLimits
| ClBareTop
| ClTreeShape
| ClLeaves
| ClInternalKey

val root_flag : (ty -> bool) -> ty list -> bool

val ms_clauses :
  ctx -> (key -> kkind) -> ms -> ty list -> (clause * bool) list

val clauses :
  ctx -> (key -> kkind) -> bool -> vpolicy -> ms -> ty list ->
  (clause * bool) list

val failing : (clause * bool) list -> clause list

type vtree =
| VLeaf of ms * ty list
| VNode of vtree * vtree

val build_tree :
  nat -> n -> (n * (ms * ty list)) list -> (vtree * (n * (ms * ty list))
  list) option

val tAPROOT_MAX_DEPTH : nat

val tree_of : (n * (ms * ty list)) list -> vtree option

val ms_eqb : ms -> ms -> bool

val remove_one : ms -> ms list -> ms list option

val perm_eqb : ms list -> ms list -> bool

val tr_policy : key -> bool -> ms list -> spolicy

val tr_clauses :
  (key -> kkind) -> vpolicy -> key -> bool -> (n * (ms * ty list)) list -> ms
  list option -> (clause * bool) list

val ty_of_code : n -> ty option

val decode_tys : n list -> ty list option

val kk_of_list : (key * kkind) list -> key -> kkind

val run_ms_case :
  ctx -> (key * kkind) list -> bool -> vpolicy -> ms -> n list -> clause list

val decode_leaves :
  (n * (ms * n list)) list -> (n * (ms * ty list)) list option

val run_tr_case :
  (key * kkind) list -> vpolicy -> key -> bool -> (n * (ms * n list)) list ->
  ms list option -> clause list
