(* Driver for the extracted C04 models: reads the `codec` engine's text blocks and compares,
   case by case, the implementation's observations with the extracted Coq model:
     L  lexer tokens / error class          vs  LexModel.lex
     P  raw parser result (decode::decode)  vs  DecodeModel.parse
     D max  decode_with_validation_params(MAX)  vs  DecodeModel.decode_max
     E  encode / script_size / pk_cost / has_free_verify / type of generated ASTs
        vs  Ast.encode, CodecExt.script_size / pk_cost / hfv, TypeCheck.type_of
     every accepted D line: re-encoding / size / pk_cost / type of the decoded AST vs the model's
   Prints DIFF lines, HIST lines and one SUMMARY line.
   Hand-written glue (trusted base): text parsing, key tables, printing. *)
open Model_codec

let rec pos_of_int (i : int) : positive =
  if i = 1 then XH else if i land 1 = 1 then XI (pos_of_int (i lsr 1)) else XO (pos_of_int (i lsr 1))
let n_of_int (i : int) : n = if i = 0 then N0 else Npos (pos_of_int i)
let rec int_of_pos = function XH -> 1 | XO p -> 2 * int_of_pos p | XI p -> 2 * int_of_pos p + 1
let int_of_n = function N0 -> 0 | Npos p -> int_of_pos p

let hexval c =
  match c with
  | '0' .. '9' -> Char.code c - 48
  | 'a' .. 'f' -> Char.code c - 87
  | 'A' .. 'F' -> Char.code c - 55
  | _ -> failwith "hex"
let byte_tab = Array.init 256 n_of_int
let bytes_of_hex (s : string) : bytes =
  if s = "-" then []
  else begin
    let n = String.length s / 2 in
    let rec go i acc = if i < 0 then acc else go (i - 1) (byte_tab.(hexval s.[2 * i] * 16 + hexval s.[2 * i + 1]) :: acc) in
    go (n - 1) []
  end
let hex_of_bytes (b : bytes) : string =
  if b = [] then "-" else String.concat "" (List.map (fun x -> Printf.sprintf "%02x" (int_of_n x)) b)
let split s = List.filter (fun x -> x <> "") (String.split_on_char ' ' s)

(* ------------------------------------------------------------------ world *)
type keyrec = { full : bytes; h_full : bytes; xonly : bytes; h_x : bytes; comp : bytes }
let keys : (int * keyrec) list ref = ref []
let sentinel : bytes = [byte_tab.(255)]

(* per-case table of keys that are not in the world: index 100+ *)
let extra : (string * int) list ref = ref []       (* hex -> index *)
let key_valid : (string * bool) list ref = ref []  (* hex -> from_slice succeeds (harness, secp256k1) *)

let ctx_of = function "bare" -> Bare | "legacy" -> Legacy | "segwitv0" -> Segwitv0 | _ -> Tap
let tap_of c = (c = "tap")

let world_bytes tap i = let r = List.assoc i !keys in if tap then r.xonly else r.full

let key_of_bytes tap (b : bytes) : int =
  match List.find_opt (fun (i, _) -> world_bytes tap i = b) !keys with
  | Some (i, _) -> i
  | None ->
    let h = hex_of_bytes b in
    (match List.assoc_opt h !extra with
     | Some i -> i
     | None -> let i = 100 + List.length !extra in extra := (h, i) :: !extra; i)

let bytes_of_key tap (k : int) : bytes =
  if k < 100 then world_bytes tap k
  else match List.find_opt (fun (_, i) -> i = k) !extra with Some (h, _) -> bytes_of_hex h | None -> sentinel

let ints_of_bytes b = List.map int_of_n b
let keyenv_of (tap : bool) : keyenv =
  { kb = (fun k -> bytes_of_key tap (int_of_n k));
    kh = (fun k -> let i = int_of_n k in
           if i < 100 then (let r = List.assoc i !keys in if tap then r.h_x else r.h_full) else sentinel);
    ksort = (fun ks ->
      let keyf k = let i = int_of_n k in
        if i < 100 then (let r = List.assoc i !keys in ints_of_bytes (if tap then r.xonly else r.comp))
        else ints_of_bytes (bytes_of_key tap i) in
      List.stable_sort (fun a b -> compare (keyf a) (keyf b)) ks) }

let denv_of (ctxs : string) : denv =
  let tap = tap_of ctxs in
  { d_ctx = ctx_of ctxs; d_ke = keyenv_of tap;
    d_key = (fun b ->
      match List.assoc_opt (hex_of_bytes b) !key_valid with
      | Some true -> Some (n_of_int (key_of_bytes tap b))
      | _ -> None) }

(* ------------------------------------------------------------------ MS prefix dump: parse and print *)
exception Parse of string
let parse_ms (tap : bool) (toks : string list) : ms =
  let rest = ref toks in
  let next () = match !rest with x :: r -> rest := r; x | [] -> raise (Parse "eof") in
  let num () = n_of_int (int_of_string (next ())) in
  let keyt () =
    let t = next () in
    if String.length t > 0 && t.[0] = 'x' then n_of_int (key_of_bytes tap (bytes_of_hex (String.sub t 1 (String.length t - 1))))
    else n_of_int (int_of_string t) in
  let keysn n = List.init n (fun _ -> keyt ()) in
  let rec go () : ms =
    match next () with
    | "1" -> MTrue | "0" -> MFalse
    | "pk_k" -> MPkK (keyt ()) | "pk_h" -> MPkH (keyt ())
    | "raw_pk_h" -> MRawPkH (bytes_of_hex (next ()))
    | "after" -> MAfter (num ()) | "older" -> MOlder (num ())
    | "sha256" -> MSha256 (bytes_of_hex (next ())) | "hash256" -> MHash256 (bytes_of_hex (next ()))
    | "ripemd160" -> MRipemd160 (bytes_of_hex (next ())) | "hash160" -> MHash160 (bytes_of_hex (next ()))
    | "a" -> MAlt (go ()) | "s" -> MSwap (go ()) | "c" -> MCheck (go ()) | "d" -> MDupIf (go ())
    | "v" -> MVerify (go ()) | "j" -> MNonZero (go ()) | "n" -> MZeroNotEqual (go ())
    | "and_v" -> let x = go () in let y = go () in MAndV (x, y)
    | "and_b" -> let x = go () in let y = go () in MAndB (x, y)
    | "andor" -> let a = go () in let b = go () in let c = go () in MAndOr (a, b, c)
    | "or_b" -> let x = go () in let y = go () in MOrB (x, y)
    | "or_d" -> let x = go () in let y = go () in MOrD (x, y)
    | "or_c" -> let x = go () in let y = go () in MOrC (x, y)
    | "or_i" -> let x = go () in let y = go () in MOrI (x, y)
    | "thresh" -> let k = num () in let n = int_of_string (next ()) in MThresh (k, List.init n (fun _ -> go ()))
    | "multi" -> let k = num () in let n = int_of_string (next ()) in MMulti (k, keysn n)
    | "sortedmulti" -> let k = num () in let n = int_of_string (next ()) in MSortedMulti (k, keysn n)
    | "multi_a" -> let k = num () in let n = int_of_string (next ()) in MMultiA (k, keysn n)
    | "sortedmulti_a" -> let k = num () in let n = int_of_string (next ()) in MSortedMultiA (k, keysn n)
    | t -> raise (Parse t) in
  let m = go () in
  if !rest <> [] then raise (Parse "trailing"); m

let dump_ms (tap : bool) (m : ms) : string =
  let b = Buffer.create 256 in
  let w s = if Buffer.length b > 0 then Buffer.add_char b ' '; Buffer.add_string b s in
  let key k = let i = int_of_n k in
    if i < 100 then w (string_of_int i) else w ("x" ^ hex_of_bytes (bytes_of_key tap i)) in
  let num k = w (string_of_int (int_of_n k)) in
  let rec go m =
    match m with
    | MTrue -> w "1" | MFalse -> w "0"
    | MPkK k -> w "pk_k"; key k | MPkH k -> w "pk_h"; key k
    | MRawPkH h -> w "raw_pk_h"; w (hex_of_bytes h)
    | MAfter t -> w "after"; num t | MOlder t -> w "older"; num t
    | MSha256 h -> w "sha256"; w (hex_of_bytes h) | MHash256 h -> w "hash256"; w (hex_of_bytes h)
    | MRipemd160 h -> w "ripemd160"; w (hex_of_bytes h) | MHash160 h -> w "hash160"; w (hex_of_bytes h)
    | MAlt x -> w "a"; go x | MSwap x -> w "s"; go x | MCheck x -> w "c"; go x | MDupIf x -> w "d"; go x
    | MVerify x -> w "v"; go x | MNonZero x -> w "j"; go x | MZeroNotEqual x -> w "n"; go x
    | MAndV (x, y) -> w "and_v"; go x; go y | MAndB (x, y) -> w "and_b"; go x; go y
    | MAndOr (x, y, z) -> w "andor"; go x; go y; go z
    | MOrB (x, y) -> w "or_b"; go x; go y | MOrD (x, y) -> w "or_d"; go x; go y
    | MOrC (x, y) -> w "or_c"; go x; go y | MOrI (x, y) -> w "or_i"; go x; go y
    | MThresh (k, xs) -> w "thresh"; num k; w (string_of_int (List.length xs)); List.iter go xs
    | MMulti (k, ks) -> w "multi"; num k; w (string_of_int (List.length ks)); List.iter key ks
    | MSortedMulti (k, ks) -> w "sortedmulti"; num k; w (string_of_int (List.length ks)); List.iter key ks
    | MMultiA (k, ks) -> w "multi_a"; num k; w (string_of_int (List.length ks)); List.iter key ks
    | MSortedMultiA (k, ks) -> w "sortedmulti_a"; num k; w (string_of_int (List.length ks)); List.iter key ks in
  go m; Buffer.contents b

let ty_str (t : ty) : string =
  let c = t.t_corr and m = t.t_mall in
  let b = match c.c_base with BB -> "B" | BK -> "K" | BV -> "V" | BW -> "W" in
  let i = match c.c_input with IZero -> "z" | IOne -> "o" | IAny -> "a" | IOneNonZero -> "on" | IAnyNonZero -> "an" in
  let d = match m.m_dissat with DNone -> "N" | DUnique -> "U" | DUnknown -> "K" in
  let bi x = if x then "1" else "0" in
  Printf.sprintf "%s.%s.%s%s.%s.%s%s" b i (bi c.c_dissat) (bi c.c_unit) d (bi m.m_signed) (bi m.m_nm)
let ty_of (m : ms) : string = match type_of m with ROk t -> ty_str t | RErr _ -> "illtyped"

let tok_str (t : token) : string =
  match t with
  | TkBoolAnd -> "BoolAnd" | TkBoolOr -> "BoolOr" | TkAdd -> "Add" | TkEqual -> "Equal" | TkNumEqual -> "NumEqual"
  | TkCheckSig -> "CheckSig" | TkCheckSigAdd -> "CheckSigAdd" | TkCheckMultiSig -> "CheckMultiSig"
  | TkCheckSequenceVerify -> "CheckSequenceVerify" | TkCheckLockTimeVerify -> "CheckLockTimeVerify"
  | TkFromAltStack -> "FromAltStack" | TkToAltStack -> "ToAltStack" | TkDrop -> "Drop" | TkDup -> "Dup"
  | TkIf -> "If" | TkIfDup -> "IfDup" | TkNotIf -> "NotIf" | TkElse -> "Else" | TkEndIf -> "EndIf"
  | TkZeroNotEqual -> "ZeroNotEqual" | TkSize -> "Size" | TkSwap -> "Swap" | TkVerify -> "Verify"
  | TkRipemd160 -> "Ripemd160" | TkHash160 -> "Hash160" | TkSha256 -> "Sha256" | TkHash256 -> "Hash256"
  | TkNum n -> "Num:" ^ string_of_int (int_of_n n)
  | TkHash20 b -> "Hash20:" ^ hex_of_bytes b | TkBytes32 b -> "Bytes32:" ^ hex_of_bytes b
  | TkBytes33 b -> "Bytes33:" ^ hex_of_bytes b | TkBytes65 b -> "Bytes65:" ^ hex_of_bytes b

let lexerr_str = function
  | LeEarlyEnd -> "ScriptLexer:Script:EarlyEndOfScript" | LeNonMinimalPush -> "ScriptLexer:Script:NonMinimalPush"
  | LeInvalidInt -> "ScriptLexer:InvalidInt" | LeNegativeInt -> "ScriptLexer:NegativeInt"
  | LeInvalidOpcode -> "ScriptLexer:InvalidOpcode" | LeNonMinimalVerify -> "ScriptLexer:NonMinimalVerify"
  | LeFuel -> "MODEL-OUT-OF-FUEL"
let ctxerr_str = function
  | CeUncompressedKeysNotAllowed -> "UncompressedKeysNotAllowed" | CeMultiANotAllowed -> "MultiANotAllowed"
  | CeTaprootMultiDisabled -> "TaprootMultiDisabled" | CeMaxWitnessScriptSizeExceeded -> "MaxWitnessScriptSizeExceeded"
  | CeMaxRedeemScriptSizeExceeded -> "MaxRedeemScriptSizeExceeded" | CeMaxBareScriptSizeExceeded -> "MaxBareScriptSizeExceeded"
let derr_str = function
  | DeLex e -> lexerr_str e | DeUnexpectedStart -> "UnexpectedStart" | DeUnexpected -> "Unexpected"
  | DeTrailing -> "Trailing" | DeTypeCheck -> "TypeCheck" | DeMaxRecursiveDepthExceeded -> "MaxRecursiveDepthExceeded"
  | DePubKeyCtxError -> "PubKeyCtxError" | DeAbsoluteLockTime -> "AbsoluteLockTime"
  | DeRelativeLockTime -> "RelativeLockTime" | DeThreshold -> "Threshold"
  | DeContextError c -> "ContextError:" ^ ctxerr_str c

(* ------------------------------------------------------------------ statistics *)
let hist : (string, int) Hashtbl.t = Hashtbl.create 256
let bump k = Hashtbl.replace hist k (1 + (try Hashtbl.find hist k with Not_found -> 0))
let cnt : (string, int) Hashtbl.t = Hashtbl.create 32
let inc k = Hashtbl.replace cnt k (1 + (try Hashtbl.find cnt k with Not_found -> 0))
let ndiff = ref 0
let diff kind id ctx hex impl model =
  incr ndiff; inc ("diff_" ^ kind);
  if !ndiff <= 400 then Printf.printf "DIFF kind=%s id=%s ctx=%s hex=%s impl=[%s] model=[%s]\n" kind id ctx hex impl model

(* ------------------------------------------------------------------ one case *)
type case = {
  id : string; ctx : string; kind : string; hex : string;
  mutable src : string option; mutable enc : string list option;
  mutable l : string option; mutable p : string option; mutable d : (string * string) list;
}

let cmp kind c impl model = if impl = model then inc (kind ^ "_eq") else diff kind c.id c.ctx c.hex impl model

let process (c : case) =
  inc "cases";
  bump ("ctx/" ^ c.ctx); bump ("kind/" ^ c.kind);
  let tap = tap_of c.ctx in
  let e = denv_of c.ctx in
  let b = bytes_of_hex c.hex in
  (* lexer *)
  let mtoks = lex b in
  (match c.l with
   | Some impl ->
     let model = (match mtoks with
         | LexOk ts -> String.trim ("ok " ^ String.concat " " (List.map tok_str ts))
         | LexErr er -> "err " ^ lexerr_str er) in
     bump ("lex/" ^ (match mtoks with LexOk _ -> "ok" | LexErr er -> lexerr_str er));
     cmp "lex" c (String.trim impl) model
   | None -> ());
  (* raw parser *)
  (match c.p, mtoks with
   | Some impl, LexOk ts ->
     let model = (match parse e ts with
         | OOk (m, rest) -> Printf.sprintf "ok %d %s | %s" (List.length rest) (ty_of m) (dump_ms tap m)
         | OErr er -> "err " ^ derr_str er
         | OPanic n -> "panic" ^ string_of_int (int_of_n n)
         | OFuel -> "MODEL-OUT-OF-FUEL") in
     cmp "parse" c impl model
   | _ -> ());
  (* decode with ValidationParams::MAX *)
  (match List.assoc_opt "max" c.d with
   | Some impl ->
     let mres = decode_max e b in
     let model = (match mres with
         | OOk m ->
           let ke = keyenv_of tap in
           Printf.sprintf "ok %s %d %d %s | %s" (ty_of m) (int_of_n (script_size e.d_ctx ke m))
             (int_of_n (pk_cost e.d_ctx ke m)) (hex_of_bytes (encode ke m)) (dump_ms tap m)
         | OErr er -> "err " ^ derr_str er
         | OPanic n -> "panic"
         | OFuel -> "MODEL-OUT-OF-FUEL") in
     bump ("decode/" ^ (match mres with OOk _ -> "ok" | OErr er -> derr_str er | _ -> "panic"));
     cmp "decode" c impl model
   | None -> ());
  (* generated AST: encoder, sizes, free verify, type *)
  (match c.src, c.enc with
   | Some s, Some (ehex :: sz :: pc :: hf :: ty :: _) ->
     (try
        let m = parse_ms tap (split s) in
        let ke = keyenv_of tap in
        List.iter (fun t -> if String.length t > 0 && not ((t.[0] >= '0' && t.[0] <= '9') || t.[0] = 'x' || t.[0] = '-') then bump ("frag/" ^ t)) (split s);
        cmp "enc" c ehex (hex_of_bytes (encode ke m));
        cmp "size" c sz (string_of_int (int_of_n (script_size e.d_ctx ke m)));
        cmp "pkcost" c pc (string_of_int (int_of_n (pk_cost e.d_ctx ke m)));
        cmp "hfv" c hf (if hfv m then "1" else "0");
        cmp "type" c ty (ty_of m)
      with Parse t -> diff "srcparse" c.id c.ctx c.hex s t)
   | _ -> ());
  (* every AST the implementation returned under cons / sane: model encoder and sizes on it *)
  List.iter (fun (tag, line) ->
      if tag <> "max" && String.length line > 3 && String.sub line 0 3 = "ok " then begin
        match String.index_opt line '|' with
        | Some i ->
          let head = split (String.sub line 3 (i - 3)) in
          let dump = String.sub line (i + 1) (String.length line - i - 1) in
          (match head with
           | [ty; sz; pc; re] ->
             (try
                let m = parse_ms tap (split dump) in
                let ke = keyenv_of tap in
                cmp "reenc" c re (hex_of_bytes (encode ke m));
                cmp "resize" c sz (string_of_int (int_of_n (script_size e.d_ctx ke m)));
                cmp "repkcost" c pc (string_of_int (int_of_n (pk_cost e.d_ctx ke m)));
                cmp "retype" c ty (ty_of m)
              with Parse t -> diff "dumpparse" c.id c.ctx c.hex dump t)
           | _ -> ())
        | None -> ()
      end) c.d

let () =
  let cur : case option ref = ref None in
  (try
     while true do
       let line = input_line stdin in
       let n = String.length line in
       if n >= 2 && line.[0] = 'W' && line.[1] = ' ' then begin
         match split line with
         | [_; i; full; hf; x; hx; comp] ->
           keys := !keys @ [(int_of_string i, { full = bytes_of_hex full; h_full = bytes_of_hex hf; xonly = bytes_of_hex x;
                                                 h_x = bytes_of_hex hx; comp = bytes_of_hex comp })]
         | _ -> ()
       end else if n >= 2 && line.[0] = 'C' && line.[1] = ' ' then begin
         match split line with
         | [_; id; ctx; kind; hex] ->
           extra := []; key_valid := [];
           cur := Some { id; ctx; kind; hex; src = None; enc = None; l = None; p = None; d = [] }
         | _ -> cur := None
       end else begin
         match !cur with
         | None -> ()
         | Some c ->
           if n >= 2 && line.[1] = ' ' then begin
             let body = String.sub line 2 (n - 2) in
             match line.[0] with
             | 'S' -> c.src <- Some body
             | 'E' -> c.enc <- Some (split body)
             | 'K' -> List.iter (fun kv ->
                 match String.split_on_char '=' kv with
                 | [h; v] -> key_valid := (h, v = "1") :: !key_valid
                 | _ -> ()) (split body)
             | 'L' -> c.l <- Some body
             | 'P' -> c.p <- Some body
             | 'D' ->
               (match String.index_opt body ' ' with
                | Some i -> c.d <- (String.sub body 0 i, String.sub body (i + 1) (String.length body - i - 1)) :: c.d
                | None -> ())
             | _ -> ()
           end else if line = "." then begin
             (try process c with ex -> diff "driver-exception" c.id c.ctx c.hex (Printexc.to_string ex) "");
             cur := None
           end
       end
     done
   with End_of_file -> ());
  let keys_sorted = List.sort compare (Hashtbl.fold (fun k v acc -> (k, v) :: acc) hist []) in
  List.iter (fun (k, v) -> Printf.printf "HIST %s %d\n" k v) keys_sorted;
  let cs = List.sort compare (Hashtbl.fold (fun k v acc -> (k, v) :: acc) cnt []) in
  Printf.printf "SUMMARY %s diffs=%d\n" (String.concat " " (List.map (fun (k, v) -> Printf.sprintf "%s=%d" k v) cs)) !ndiff
