(* C13 driver: reads the `interp` engine's text blocks and, per spend,
   (1) ORACLE: judges the spend with the extracted Script specification (verify_spend_ext) using
       the valid (key, signature) pairs of that transaction; the interpreter accepting a spend the
       specification rejects is a false accept (classified by the smallest counterfactual that
       makes the specification accept: non-final sequence / tx version 2 / the implementation's
       own signature-parsing verdicts);
   (2) completeness: a library satisfaction of a sane descriptor that the specification accepts
       must be accepted by the interpreter; and (interp_complete against the Script semantics) so
       must a MUTATED spend the specification accepts whose script the context's decoder accepts --
       else a false reject; scripts outside the context's language (IMSX) are counted, and the
       model is run on them to reproduce interp_complete_base_selector_refuted;
   (3) exactness: for accepted spends, the reported constraints must equal the checks of the
       executed path (extracted exec_tr + checks on the real script bytes);
   (4) the lifted-policy verdict computed by the harness on the reported set;
   (5) MODEL tie: runs the extracted interpreter model (InterpModel.interp / interp_pk) on the
       miniscript the implementation decoded, the same stack and environment, and compares
       verdict (error class) and ordered constraint list.
   Hand-written glue (trusted base): parsing and table lookups only. *)
open Model_interp

let rec pos_of_int (i : int) : positive =
  if i = 1 then XH else if i land 1 = 1 then XI (pos_of_int (i lsr 1)) else XO (pos_of_int (i lsr 1))
let n_of_int (i : int) : n = if i = 0 then N0 else Npos (pos_of_int i)
let rec int_of_pos = function XH -> 1 | XO p -> 2 * int_of_pos p | XI p -> 2 * int_of_pos p + 1
let int_of_n = function N0 -> 0 | Npos p -> int_of_pos p

let hexval c =
  match c with
  | '0' .. '9' -> Char.code c - 48
  | 'a' .. 'f' -> Char.code c - 87
  | 'A' .. 'F' -> Char.code c - 55
  | _ -> failwith "hex"
let byte_tab = Array.init 256 n_of_int
let bytes_of_hex (s : string) : bytes =
  if s = "-" then []
  else begin
    let n = String.length s / 2 in
    let rec go i acc = if i < 0 then acc else go (i - 1) (byte_tab.(hexval s.[2 * i] * 16 + hexval s.[2 * i + 1]) :: acc) in
    go (n - 1) []
  end
let hex_of_bytes (b : bytes) : string =
  if b = [] then "-" else String.concat "" (List.map (fun x -> Printf.sprintf "%02x" (int_of_n x)) b)
let hexs l = String.concat "," (List.map hex_of_bytes l)
let split s = List.filter (fun x -> x <> "") (String.split_on_char ' ' s)

(* ------------------------------------------------------------------ world *)
type keyrec = { full : bytes; h_full : bytes; xonly : bytes; h_x : bytes; comp : bytes }
type prerec = { pre : bytes; sha : bytes; h256 : bytes; rip : bytes; h160 : bytes }
let keys : (int * keyrec) list ref = ref []
let pres : (int * prerec) list ref = ref []
let sentinel : bytes = [byte_tab.(255)]
let key i = List.assoc i !keys

type case = {
  id : string; kind : string; sane : bool;
  mutable desc : string;
  mutable scripts : bytes list;
  mutable mss : string list;
  mutable spk : bytes;
  mutable hashes_c : (string * (bytes * bytes)) list;
}

type spend = {
  sid : string; base : string; mk : string; txv : int; lock : int; seq : int;
  mutable ssig : bytes; mutable wit : bytes list;
  mutable hashes : (string * (bytes * bytes)) list;
  mutable sigok : (bytes * bytes) list;
  mutable isigx : (bytes * bytes) list;
  mutable sighb : (bytes * bytes) list;   (* invalid as given, valid once the hash-type byte is a standard one / dropped *)
  mutable isign : (bytes * bytes) list;
  mutable tapok : bool;
  mutable ims : string option;
  mutable imsx : string option;   (* script outside the context's language, decoded with the restrictions lifted *)
  mutable verdict : string; mutable cons : string list;
  mutable policy : string;
  mutable ftx : string list;                      (* from_txdata's real outcome *)
  mutable decs : (string * bytes * string) list;  (* context, element, hash of the decoded miniscript's text *)
  mutable fpk : (bytes * bool) list; mutable fxo : bytes list; mutable fcommit : bool;
}

let hash_lookup (c : case) (s : spend) kind (inp : bytes) : bytes =
  let rec find = function
    | [] -> None
    | (k, (i, o)) :: r -> if k = kind && i = inp then Some o else find r in
  match find s.hashes with
  | Some o -> o
  | None ->
    match find c.hashes_c with
    | Some o -> o
    | None ->
      let from_pre = List.find_opt (fun (_, p) -> p.pre = inp) !pres in
      (match from_pre with
       | Some (_, p) -> (match kind with "sha256" -> p.sha | "hash256" -> p.h256 | "ripemd160" -> p.rip | _ -> p.h160)
       | None ->
         if kind = "hash160" then
           (match List.find_opt (fun (_, k) -> k.full = inp || k.xonly = inp) !keys with
            | Some (_, k) -> if k.full = inp then k.h_full else k.h_x
            | None -> sentinel)
         else sentinel)

let is_tapkind k = (k = "tr" || k = "trkey")
let is_legacy k = (k = "sh" || k = "bare" || k = "barepk" || k = "pkh")

let known_keys () = List.concat_map (fun (_, k) -> [k.full; k.xonly; k.comp]) !keys

(* oracle environment; [sigtab] = the valid pairs; seq/txv overridable for the classification *)
let mk_env (c : case) (s : spend) ?(seq = s.seq) ?(txv = s.txv) (sigtab : (bytes * bytes) list) : env =
  let known = known_keys () in
  let tap = is_tapkind c.kind in
  { e_sv = SvBase;
    e_locktime = n_of_int s.lock; e_sequence = n_of_int seq; e_txversion = n_of_int txv;
    e_sigok = (fun k sg -> List.mem (k, sg) sigtab);
    e_keyok = (fun k ->
      let l = List.length k in
      if tap then l = 32
      else (l = 33 || (l = 65 && is_legacy c.kind)) && List.mem k known);
    e_sha256 = hash_lookup c s "sha256";
    e_hash256 = hash_lookup c s "hash256";
    e_ripemd160 = hash_lookup c s "ripemd160";
    e_hash160 = hash_lookup c s "hash160" }

(* ------------------------------------------------------------------ MS prefix parser *)
exception Parse of string
let parse_ms (toks : string list) : ms =
  let rest = ref toks in
  let next () = match !rest with x :: r -> rest := r; x | [] -> raise (Parse "eof") in
  let num () = n_of_int (int_of_string (next ())) in
  let keysn n = List.init n (fun _ -> num ()) in
  let rec go () : ms =
    match next () with
    | "1" -> MTrue | "0" -> MFalse
    | "pk_k" -> MPkK (num ()) | "pk_h" -> MPkH (num ())
    | "raw_pk_h" -> MRawPkH (bytes_of_hex (next ()))
    | "after" -> MAfter (num ()) | "older" -> MOlder (num ())
    | "sha256" -> MSha256 (bytes_of_hex (next ())) | "hash256" -> MHash256 (bytes_of_hex (next ()))
    | "ripemd160" -> MRipemd160 (bytes_of_hex (next ())) | "hash160" -> MHash160 (bytes_of_hex (next ()))
    | "a" -> MAlt (go ()) | "s" -> MSwap (go ()) | "c" -> MCheck (go ()) | "d" -> MDupIf (go ())
    | "v" -> MVerify (go ()) | "j" -> MNonZero (go ()) | "n" -> MZeroNotEqual (go ())
    | "and_v" -> let x = go () in let y = go () in MAndV (x, y)
    | "and_b" -> let x = go () in let y = go () in MAndB (x, y)
    | "andor" -> let a = go () in let b = go () in let c = go () in MAndOr (a, b, c)
    | "or_b" -> let x = go () in let y = go () in MOrB (x, y)
    | "or_d" -> let x = go () in let y = go () in MOrD (x, y)
    | "or_c" -> let x = go () in let y = go () in MOrC (x, y)
    | "or_i" -> let x = go () in let y = go () in MOrI (x, y)
    | "thresh" -> let k = num () in let n = int_of_string (next ()) in MThresh (k, List.init n (fun _ -> go ()))
    | "multi" -> let k = num () in let n = int_of_string (next ()) in MMulti (k, keysn n)
    | "sortedmulti" -> let k = num () in let n = int_of_string (next ()) in MSortedMulti (k, keysn n)
    | "multi_a" -> let k = num () in let n = int_of_string (next ()) in MMultiA (k, keysn n)
    | "sortedmulti_a" -> let k = num () in let n = int_of_string (next ()) in MSortedMultiA (k, keysn n)
    | t -> raise (Parse t) in
  let m = go () in
  if !rest <> [] then raise (Parse "trailing"); m

let ints_of_bytes b = List.map int_of_n b
let keyenv_of (tap : bool) : keyenv =
  { kb = (fun k -> let r = key (int_of_n k) in if tap then r.xonly else r.full);
    kh = (fun k -> let r = key (int_of_n k) in if tap then r.h_x else r.h_full);
    ksort = (fun ks ->
      let keyf k = let r = key (int_of_n k) in ints_of_bytes (if tap then r.xonly else r.comp) in
      List.stable_sort (fun a b -> compare (keyf a) (keyf b)) ks) }

(* ------------------------------------------------------------------ statistics *)
let hist : (string, int) Hashtbl.t = Hashtbl.create 256
let bump k = Hashtbl.replace hist k (1 + (try Hashtbl.find hist k with Not_found -> 0))
let cnt : (string, int) Hashtbl.t = Hashtbl.create 32
let inc k = Hashtbl.replace cnt k (1 + (try Hashtbl.find cnt k with Not_found -> 0))
let get k = try Hashtbl.find cnt k with Not_found -> 0
let samples : string list ref = ref []
let frag_hist (toks : string list) =
  List.iter (fun t -> if String.length t > 0 && not (t.[0] >= '0' && t.[0] <= '9') then bump ("frag/" ^ t)) toks

(* ------------------------------------------------------------------ per-spend pieces *)
let ssig_stack (s : spend) : bytes list option =          (* head = top *)
  match parse_script s.ssig with
  | Some ss -> pushonly_stack ss []
  | None -> None

let rec drop_last = function [] -> [] | [_] -> [] | x :: r -> x :: drop_last r
let rec last_opt = function [] -> None | [x] -> Some x | _ :: r -> last_opt r

(* the inner script and its initial stack (head = top), as real execution sees them *)
let inner (c : case) (s : spend) : (sigversion * bytes * bytes list) option =
  match c.kind with
  | "wsh" | "shwsh" ->
    (match List.rev s.wit with sc :: items_rev -> Some (SvWitnessV0, sc, items_rev) | [] -> None)
  | "sh" -> (match ssig_stack s with Some (sc :: st) -> Some (SvBase, sc, st) | _ -> None)
  | "bare" | "barepk" | "pkh" -> (match ssig_stack s with Some st -> Some (SvBase, c.spk, st) | None -> None)
  | "tr" ->
    (match List.rev s.wit with _ :: sc :: items_rev -> Some (SvTapscript, sc, items_rev) | _ -> None)
  | "wpkh" | "shwpkh" ->
    (match s.wit with
     | [sg; k] ->
       let prog = hash_lookup c s "hash160" k in
       Some (SvWitnessV0, serialize (p2pkh_script prog), [k; sg])
     | _ -> None)
  | _ -> None

let kd_name = function KSha256 -> "sha256" | KHash256 -> "hash256" | KRipemd160 -> "ripemd160" | KHash160 -> "hash160"

let check_str (k : check) : string =
  match k with
  | KSig (k, s) -> "sig:" ^ hex_of_bytes k ^ ":" ^ hex_of_bytes s
  | KPre (kd, h, p) -> kd_name kd ^ ":" ^ hex_of_bytes h ^ ":" ^ hex_of_bytes p
  | KAbs n -> "after:" ^ string_of_int (int_of_n n)
  | KRel n -> "older:" ^ string_of_int (int_of_n (rel_norm n))   (* as the relative::LockTime it denotes *)

(* the spec's checks for an accepted spend, as strings; None when the oracle side has no trace *)
let spec_checks (c : case) (s : spend) (e : env) : string list option =
  match c.kind with
  | "trkey" ->
    (match s.wit with [sg] -> Some ["sig:" ^ hex_of_bytes (List.filteri (fun i _ -> i >= 2) c.spk) ^ ":" ^ hex_of_bytes sg] | _ -> None)
  | "tr" when List.length s.wit = 1 ->
    (match s.wit with [sg] -> Some ["sig:" ^ hex_of_bytes (List.filteri (fun i _ -> i >= 2) c.spk) ^ ":" ^ hex_of_bytes sg] | _ -> None)
  | _ ->
    (match inner c s with
     | Some (sv, sc, st) ->
       (match parse_script sc with
        | Some scr -> (match accepts_tr (with_sv e sv) scr st with Some ks -> Some (List.map check_str ks) | None -> None)
        | None -> None)
     | None -> None)

(* projection of a reported constraint (harness string) to a check string *)
let proj_cons (x : string) : string =
  match String.split_on_char ':' x with
  | ["pk"; k; s] -> "sig:" ^ k ^ ":" ^ s
  | ["pkh"; _; k; s] -> "sig:" ^ k ^ ":" ^ s
  | _ -> x

let err_name = function
  | EStackEnd -> "stack_end" | EElemPush -> "elem_push" | EStackBool -> "stack_bool" | EVerifyFailed -> "verify"
  | EPkEval -> "pk_eval" | ESig -> "sig" | EPkHashFail -> "pkh_fail" | EPubkeyParse -> "key_parse"
  | EPreimageLen -> "preimage_len" | EAbsNotMet -> "abs_not_met" | EAbsInvalid -> "abs_invalid"
  | ERelNotMet -> "rel_not_met" | ERelDisabled -> "rel_disabled" | EMultiInsufficient -> "multi_insufficient"
  | EMultiMissingZero -> "multi_missing_zero" | EMultiEval -> "multi_eval"
  | ECouldNotEvaluate -> "could_not_evaluate" | EScriptSat -> "script_sat"

(* the implementation re-serialises signatures: a 65-byte Schnorr signature with hash type 0x00
   prints as 64 bytes *)
let norm_sig (tap : bool) (sg : bytes) : bytes =
  if tap && List.length sg = 65 && last_opt sg = Some N0 then drop_last sg else sg

let constr_str (tap : bool) (x : constr) : string =
  match x with
  | CsPk (k, s) -> "pk:" ^ hex_of_bytes k ^ ":" ^ hex_of_bytes (norm_sig tap s)
  | CsPkh (h, k, s) -> "pkh:" ^ hex_of_bytes h ^ ":" ^ hex_of_bytes k ^ ":" ^ hex_of_bytes (norm_sig tap s)
  | CsHash (kd, h, p) -> kd_name kd ^ ":" ^ hex_of_bytes h ^ ":" ^ hex_of_bytes p
  | CsOlder n -> "older:" ^ string_of_int (int_of_n (rel_norm n))
  | CsAfter n -> "after:" ^ string_of_int (int_of_n n)

let outcome_str (tap : bool) (o : ioutcome) : string =
  let cs l = String.concat " " (List.map (constr_str tap) l) in
  match o with
  | IAccept l -> "ok | " ^ cs l
  | IReject (er, l) -> "err:iter:" ^ err_name er ^ " | " ^ cs l
  | IPanicked s -> "panic site " ^ string_of_int (int_of_n s) ^ " | "
  | INoFuel -> "nofuel | "

(* inputs of the model for this spend: (miniscript or None for key-only, key, items); None = not
   applicable (unknown script) *)
let model_inputs (c : case) (s : spend) : (ms option * bytes * bytes list) option =
  let outkey = List.filteri (fun i _ -> i >= 2) c.spk in
  match c.kind with
  | "trkey" -> Some (None, outkey, s.wit)
  | "tr" when List.length s.wit = 1 -> Some (None, outkey, s.wit)
  | "wpkh" | "shwpkh" -> (match last_opt s.wit with Some k -> Some (None, k, drop_last s.wit) | None -> None)
  | "barepk" ->
    let n = List.length c.spk in
    let k = List.filteri (fun i _ -> i >= 1 && i < n - 1) c.spk in
    (match ssig_stack s with Some st -> Some (None, k, List.rev st) | None -> None)
  | "pkh" -> (match ssig_stack s with Some (k :: st) -> Some (None, k, List.rev st) | _ -> None)
  | _ ->
    (match s.ims with
     | Some d when d <> "?" ->
       let m = parse_ms (split d) in
       let items = (match c.kind with
           | "wsh" | "shwsh" -> Some (drop_last s.wit)
           | "tr" -> Some (drop_last (drop_last s.wit))
           | "sh" -> (match ssig_stack s with Some (_ :: st) -> Some (List.rev st) | _ -> None)
           | "bare" -> (match ssig_stack s with Some st -> Some (List.rev st) | None -> None)
           | _ -> None) in
       (match items with Some items -> Some (Some m, [], items) | None -> None)
     | _ -> None)

let impl_sigtab (s : spend) = List.filter (fun p -> not (List.mem p s.isign)) s.sigok @ s.isigx

let model_run (c : case) (s : spend) : string option =
  let tap = is_tapkind c.kind in
  let e = mk_env c s (impl_sigtab s) in
  let known = known_keys () in
  let kp k = List.mem k known in
  match model_inputs c s with
  | Some (Some m, _, items) -> Some (outcome_str tap (interp e (keyenv_of tap) kp m (astack_of_items items)))
  | Some (None, k, items) -> Some (outcome_str tap (interp_pk e k (astack_of_items items)))
  | None -> None

(* ---- the same case as a Coq term (Tables/InterpCasesGen.v), with the implementation's observation *)
let cq_bytes (b : bytes) : string = "[" ^ String.concat ";" (List.map (fun x -> string_of_int (int_of_n x)) b) ^ "]"
let cq_n (x : n) : string = string_of_int (int_of_n x)
let rec cq_ms (m : ms) : string =
  let un c x = "(" ^ c ^ " " ^ cq_ms x ^ ")" in
  let bin c x y = "(" ^ c ^ " " ^ cq_ms x ^ " " ^ cq_ms y ^ ")" in
  let keysl ks = "[" ^ String.concat ";" (List.map cq_n ks) ^ "]" in
  match m with
  | MTrue -> "MTrue" | MFalse -> "MFalse"
  | MPkK k -> "(MPkK " ^ cq_n k ^ ")" | MPkH k -> "(MPkH " ^ cq_n k ^ ")"
  | MRawPkH h -> "(MRawPkH " ^ cq_bytes h ^ ")"
  | MAfter t -> "(MAfter " ^ cq_n t ^ ")" | MOlder t -> "(MOlder " ^ cq_n t ^ ")"
  | MSha256 h -> "(MSha256 " ^ cq_bytes h ^ ")" | MHash256 h -> "(MHash256 " ^ cq_bytes h ^ ")"
  | MRipemd160 h -> "(MRipemd160 " ^ cq_bytes h ^ ")" | MHash160 h -> "(MHash160 " ^ cq_bytes h ^ ")"
  | MAlt x -> un "MAlt" x | MSwap x -> un "MSwap" x | MCheck x -> un "MCheck" x | MDupIf x -> un "MDupIf" x
  | MVerify x -> un "MVerify" x | MNonZero x -> un "MNonZero" x | MZeroNotEqual x -> un "MZeroNotEqual" x
  | MAndV (x, y) -> bin "MAndV" x y | MAndB (x, y) -> bin "MAndB" x y
  | MAndOr (a, b, c) -> "(MAndOr " ^ cq_ms a ^ " " ^ cq_ms b ^ " " ^ cq_ms c ^ ")"
  | MOrB (x, y) -> bin "MOrB" x y | MOrD (x, y) -> bin "MOrD" x y | MOrC (x, y) -> bin "MOrC" x y | MOrI (x, y) -> bin "MOrI" x y
  | MThresh (k, xs) -> "(MThresh " ^ cq_n k ^ " [" ^ String.concat ";" (List.map cq_ms xs) ^ "])"
  | MMulti (k, ks) -> "(MMulti " ^ cq_n k ^ " " ^ keysl ks ^ ")"
  | MSortedMulti (k, ks) -> "(MSortedMulti " ^ cq_n k ^ " " ^ keysl ks ^ ")"
  | MMultiA (k, ks) -> "(MMultiA " ^ cq_n k ^ " " ^ keysl ks ^ ")"
  | MSortedMultiA (k, ks) -> "(MSortedMultiA " ^ cq_n k ^ " " ^ keysl ks ^ ")"

let cq_err = function
  | "stack_end" -> "EStackEnd" | "elem_push" -> "EElemPush" | "stack_bool" -> "EStackBool" | "verify" -> "EVerifyFailed"
  | "pk_eval" -> "EPkEval" | "sig" -> "ESig" | "pkh_fail" -> "EPkHashFail" | "key_parse" -> "EPubkeyParse"
  | "preimage_len" -> "EPreimageLen" | "abs_not_met" -> "EAbsNotMet" | "abs_invalid" -> "EAbsInvalid"
  | "rel_not_met" -> "ERelNotMet" | "rel_disabled" -> "ERelDisabled" | "multi_insufficient" -> "EMultiInsufficient"
  | "multi_missing_zero" -> "EMultiMissingZero" | "multi_eval" -> "EMultiEval"
  | "could_not_evaluate" -> "ECouldNotEvaluate" | "script_sat" -> "EScriptSat"
  | x -> failwith ("unknown class " ^ x)

let cq_cons (x : string) : string =
  let b h = cq_bytes (bytes_of_hex h) in
  match String.split_on_char ':' x with
  | ["pk"; k; s] -> "(CsPk " ^ b k ^ " " ^ b s ^ ")"
  | ["pkh"; h; k; s] -> "(CsPkh " ^ b h ^ " " ^ b k ^ " " ^ b s ^ ")"
  | ["sha256"; h; p] -> "(CsHash KSha256 " ^ b h ^ " " ^ b p ^ ")"
  | ["hash256"; h; p] -> "(CsHash KHash256 " ^ b h ^ " " ^ b p ^ ")"
  | ["ripemd160"; h; p] -> "(CsHash KRipemd160 " ^ b h ^ " " ^ b p ^ ")"
  | ["hash160"; h; p] -> "(CsHash KHash160 " ^ b h ^ " " ^ b p ^ ")"
  | ["older"; n] -> "(CsOlder " ^ n ^ ")"
  | ["after"; n] -> "(CsAfter " ^ n ^ ")"
  | _ -> failwith ("bad constraint " ^ x)

let coq_case (c : case) (s : spend) : string option =
  let tap = is_tapkind c.kind in
  match model_inputs c s with
  | None -> None
  | Some (mo, k, items) ->
    let expect =
      let cs = "[" ^ String.concat ";" (List.map cq_cons s.cons) ^ "]" in
      if s.verdict = "ok" then "(IAccept " ^ cs ^ ")"
      else (match String.split_on_char ':' s.verdict with
          | ["err"; "iter"; cl] -> "(IReject " ^ cq_err cl ^ " " ^ cs ^ ")"
          | _ -> failwith "verdict") in
    let kinds = [(KSha256, "sha256", "KSha256"); (KHash256, "hash256", "KHash256");
                 (KRipemd160, "ripemd160", "KRipemd160"); (KHash160, "hash160", "KHash160")] in
    let hashes = List.concat_map (fun it ->
        List.filter_map (fun (_, nm, cn) ->
            let o = hash_lookup c s nm it in
            if o = sentinel then None else Some ("(" ^ cn ^ ",(" ^ cq_bytes it ^ "," ^ cq_bytes o ^ "))")) kinds) items in
    let ke = keyenv_of tap in
    let rec mkeys (m : ms) : int list =
      match m with
      | MPkK k | MPkH k -> [int_of_n k]
      | MAlt x | MSwap x | MCheck x | MDupIf x | MVerify x | MNonZero x | MZeroNotEqual x -> mkeys x
      | MAndV (x, y) | MAndB (x, y) | MOrB (x, y) | MOrD (x, y) | MOrC (x, y) | MOrI (x, y) -> mkeys x @ mkeys y
      | MAndOr (a, b, c) -> mkeys a @ mkeys b @ mkeys c
      | MThresh (_, xs) -> List.concat_map mkeys xs
      | MMulti (_, ks) | MSortedMulti (_, ks) | MMultiA (_, ks) | MSortedMultiA (_, ks) -> List.map int_of_n ks
      | _ -> [] in
    let idx = List.sort_uniq compare (match mo with Some m -> mkeys m | None -> []) in
    let kbl = String.concat ";" (List.map (fun i -> "(" ^ string_of_int i ^ "," ^ cq_bytes (ke.kb (n_of_int i)) ^ ")") idx) in
    let khl = String.concat ";" (List.map (fun i -> "(" ^ string_of_int i ^ "," ^ cq_bytes (ke.kh (n_of_int i)) ^ ")") idx) in
    let sigl = String.concat ";" (List.map (fun (a, b) -> "(" ^ cq_bytes a ^ "," ^ cq_bytes b ^ ")") (impl_sigtab s)) in
    let kpl = String.concat ";" (List.map cq_bytes (List.filter (fun k -> List.mem k items) (known_keys ()))) in
    Some (Printf.sprintf "mkIC %s %s [%s] %d %d %d [%s] [%s] [%s] [%s] [%s] %s"
            (match mo with Some m -> "(Some " ^ cq_ms m ^ ")" | None -> "None")
            (cq_bytes k) (String.concat ";" (List.map cq_bytes items)) s.lock s.seq s.txv kbl khl sigl
            (String.concat ";" hashes) kpl expect)

let coq_max = (try int_of_string (Sys.getenv "VERIF_COQ_SAMPLES") with _ -> 0)
let coq_stride = (try int_of_string (Sys.getenv "VERIF_COQ_STRIDE") with _ -> 53)
let coq_emitted = ref 0

let describe (c : case) (s : spend) =
  Printf.sprintf "case=%s sid=%s kind=%s sane=%b base=%s mk=%s txv=%d lock=%d seq=%d desc=%s wit=%s ssig=%s spk=%s"
    c.id s.sid c.kind c.sane s.base s.mk s.txv s.lock s.seq c.desc (hexs s.wit) (hex_of_bytes s.ssig) (hex_of_bytes c.spk)

let mk_class (mk : string) : string =
  (* w:drop -> drop ; multi(...) -> multi ; noncanon-x -> noncanon-x *)
  if String.length mk >= 5 && String.sub mk 0 5 = "multi" then "multi"
  else if String.length mk > 2 && mk.[1] = ':' then String.sub mk 2 (String.length mk - 2)
  else mk

(* ------------------------------------------------------------------ from_txdata: model vs implementation
   (coq/Ms/InterpTxdataModel.v extracted; parameters read from the harness's DEC / FPK / FXO / FCOMMIT /
   HASH tables).  Compared: error class, or output kind + key bytes / the decoded text of the element
   the model chose as script; the model's stack and script code against the stack the evaluator tie
   runs on ([model_inputs]) and the script real execution runs ([inner]). *)
let ferr_name = function
  | FNonEmptyWitness -> "non_empty_witness" | FNonEmptyScriptSig -> "non_empty_script_sig"
  | FUnexpectedStackEnd -> "stack_end" | FExpectedPush -> "expected_push" | FPubkeyParse -> "pubkey_parse"
  | FUncompressedPubkey -> "uncompressed_pubkey" | FXOnlyParse -> "xonly_parse"
  | FIncorrectPubkeyHash -> "incorrect_pubkey_hash" | FIncorrectWPubkeyHash -> "incorrect_wpubkey_hash"
  | FIncorrectScriptHash -> "incorrect_script_hash" | FIncorrectWScriptHash -> "incorrect_wscript_hash"
  | FTapAnnexUnsupported -> "annex" | FUnexpectedStackBoolean -> "stack_bool"
  | FControlBlockParse -> "control_block_parse" | FControlBlockVerify -> "control_block_verify" | FDecode -> "decode"
let pk_name = function PtPk -> "pk" | PtPkh -> "pkh" | PtWpkh -> "wpkh" | PtShWpkh -> "shwpkh" | PtTr -> "trkey"
let sc_name = function StBare -> "bare" | StSh -> "sh" | StWsh -> "wsh" | StShWsh -> "shwsh" | StTr -> "tr"
let ctx_name = function DBare -> "bare" | DLegacy -> "legacy" | DSegv0 -> "segv0" | DTap -> "tap"
let ctx_of = function StBare -> DBare | StSh -> DLegacy | StWsh | StShWsh -> DSegv0 | StTr -> DTap

let ftx_check (c : case) (s : spend) =
  if s.ftx <> [] then begin
    let e = mk_env c s s.sigok in
    let fe = { f_dec = (fun cx b -> List.exists (fun (cn, bb, _) -> cn = ctx_name cx && bb = b) s.decs);
               f_pk = (fun b -> List.assoc_opt b s.fpk);
               f_xonly = (fun b -> List.mem b s.fxo);
               f_commit = (fun _ _ -> s.fcommit) } in
    let r = from_txdata e fe c.spk s.ssig s.wit in
    let model = match r with
      | FErr er -> "err " ^ ferr_name er
      | FOk (InPk (k, t), _, _) -> "ok " ^ pk_name t ^ " " ^ hex_of_bytes k
      | FOk (InScript (sb, t), _, _) ->
        let h = (match List.find_opt (fun (cn, bb, _) -> cn = ctx_name (ctx_of t) && bb = sb) s.decs with
            | Some (_, _, h) -> h | None -> "?") in
        "ok " ^ sc_name t ^ " " ^ h in
    let impl = String.concat " " s.ftx in
    bump ("ftx/" ^ (match s.ftx with "err" :: cl :: _ -> "err:" ^ cl | "ok" :: k :: _ -> "ok:" ^ k | _ -> "panic"));
    if model = impl then inc "ftx_eq"
    else begin
      inc "ftx_diff";
      Printf.printf "DIFF ftx %s impl=[%s] model=[%s] ssig=%s wit=%s\n" (describe c s) impl model (hex_of_bytes s.ssig) (hexs s.wit)
    end;
    (match r with
     | FOk (i, st, code) ->
       (* the stack handed to the evaluator = the stack the evaluator tie runs the model of `iter` on *)
       (match model_inputs c s with
        | Some (_, _, items) ->
          if astack_of_items items = st then inc "ftx_stack_eq"
          else begin inc "ftx_diff"; Printf.printf "DIFF ftx-stack %s model-stack=%s tie-items=%s\n" (describe c s) (hexs (List.map conc st)) (hexs items) end
        | None -> inc "ftx_stack_na");
       (* script, stack and script code = what real execution runs (the specification driver's view) *)
       (match i, inner c s with
        | InScript (sb, t), Some (sv, sc, stk) ->
          if sb = sc && List.map conc st = stk && code = Some sc && sv_of t = sv then inc "ftx_inner_eq"
          else begin inc "ftx_diff"; Printf.printf "DIFF ftx-inner %s model-script=%s spec-script=%s\n" (describe c s) (hex_of_bytes sb) (hex_of_bytes sc) end
        | InPk (k, (PtWpkh | PtShWpkh)), Some (_, sc, _) ->
          if code = Some sc then inc "ftx_inner_eq"
          else begin inc "ftx_diff"; Printf.printf "DIFF ftx-code %s spec-script=%s\n" (describe c s) (hex_of_bytes sc) end
        | InPk (_, (PtPk | PtPkh)), _ ->
          if code = Some c.spk then inc "ftx_inner_eq" else begin inc "ftx_diff"; Printf.printf "DIFF ftx-code %s\n" (describe c s) end
        | InPk (_, PtTr), _ ->
          if code = None then inc "ftx_inner_eq" else begin inc "ftx_diff"; Printf.printf "DIFF ftx-code %s\n" (describe c s) end
        | _ -> inc "ftx_inner_na")
     | FErr _ -> ())
  end

let handle_spend (c : case) (s : spend) =
  ftx_check c s;
  inc "spends";
  let impl_ok = (s.verdict = "ok") in
  let vclass = if impl_ok then "ok" else s.verdict in
  bump ("verdict/" ^ vclass);
  bump ("mutation/" ^ mk_class s.mk ^ (if impl_ok then "/accepted" else "/rejected"));
  bump ("kind/" ^ c.kind);
  bump ("env/" ^ (if s.txv < 2 then "v1" else "v2") ^ (if s.seq = 0xffffffff then "/final" else if s.seq land 0x80000000 <> 0 then "/disabled" else "/rel"));
  if s.verdict = "panic" then begin
    inc "panic";
    Printf.printf "BAD panic %s\n" (describe c s)
  end;
  (* (1) oracle *)
  let e = mk_env c s s.sigok in
  let commit = (fun _ _ -> s.tapok) in
  let oracle_ok = verify_spend_ext e commit c.spk s.ssig s.wit in
  bump ("oracle/" ^ (if oracle_ok then "accept" else "reject") ^ "/impl/" ^ (if impl_ok then "accept" else "reject"));
  if impl_ok && oracle_ok then inc "both_accept";
  (* a MUTATED spend the specification accepts and the interpreter rejects.  coq: interp_complete says
     there is none for a script of the interpreter's language (decode_consensus in the output's context
     succeeds; that context forbids or_i and d: before segwit, which is the hypothesis [isel]).
     - the script decodes in its context: a false reject (violation).  Cause by counterfactual: SvBase
       and SvWitnessV0 differ in Script/Exec.v only by MINIMALIF; if the same script on the same stack
       fails once MINIMALIF is on, the acceptance hinges on a non-minimal IF selector.
     - the script is a miniscript only with the context's restrictions lifted (IMSX): out of the
       language, from_txdata refuses it whatever the stack -- not a violation; the model is run on the
       permissively decoded miniscript to reproduce coq's interp_complete_base_selector_refuted on
       real script bytes and real signatures (counter refutation_reproduced). *)
  if (not impl_ok) && oracle_ok && s.base = "mut" then begin
    inc "impl_stricter";
    let minimalif_sensitive () =
      match inner c s with
      | Some (SvBase, sc, st) ->
        (match parse_script sc with
         | Some scr -> accepts_tr (with_sv e SvBase) scr st <> None && accepts_tr (with_sv e SvWitnessV0) scr st = None
         | None -> false)
      | _ -> false in
    let from_decode = (s.verdict = "err:from:decode") in
    match s.imsx with
    | Some d when from_decode ->
      inc "out_of_language";
      bump ("lang/" ^ c.kind ^ "/" ^ mk_class s.mk);
      let m = (try model_run c { s with ims = Some d } with _ -> None) in
      (match m with
       | Some o ->
         let is_pref p = String.length o >= String.length p && String.sub o 0 (String.length p) = p in
         if is_pref "err:iter:elem_push" && minimalif_sensitive () then inc "refutation_reproduced"
         else if is_pref "ok" then inc "out_of_language_model_accepts"
         else begin
           inc "out_of_language_model_other";
           Printf.printf "BAD false-reject cause=unexplained-reject:%s:%s verdict=%s model=%s %s\n"
             c.kind (mk_class s.mk) s.verdict (String.concat "_" (split o)) (describe c s)
         end
       | None -> inc "out_of_language_model_na")
    | _ ->
      let cause =
        if minimalif_sensitive () then "base-sigversion-nonminimal-selector"
        else "unexplained-reject:" ^ c.kind ^ ":" ^ mk_class s.mk in
      inc "false_reject";
      Printf.printf "BAD false-reject cause=%s verdict=%s %s\n" cause s.verdict (describe c s)
  end;
  if impl_ok && not oracle_ok then begin
    inc "false_accept";
    (* classification: the smallest counterfactual under which the specification accepts *)
    let itab = s.sigok @ s.isigx in
    let try_ (fs, fv, fg) =
      let seq = if fs && s.seq = 0xffffffff then 0xfffffffe else s.seq in
      let txv = if fv && s.txv < 2 then 2 else s.txv in
      let tab = if fg then itab else s.sigok in
      verify_spend_ext (mk_env c s ~seq ~txv tab) commit c.spk s.ssig s.wit in
    let combos = [ ((true, false, false), "after-final-sequence");
                   ((false, true, false), "older-tx-version-1");
                   ((false, false, true), "sig-parse-laxity");
                   ((true, true, false), "after-final-sequence+older-tx-version-1");
                   ((true, false, true), "after-final-sequence+sig-parse-laxity");
                   ((false, true, true), "older-tx-version-1+sig-parse-laxity");
                   ((true, true, true), "after-final-sequence+older-tx-version-1+sig-parse-laxity") ] in
    let applicable (fs, fv, fg) =
      (not fs || s.seq = 0xffffffff) && (not fv || s.txv < 2) && (not fg || s.isigx <> []) in
    let cause =
      match List.find_opt (fun (f, _) -> applicable f && try_ f) combos with
      | Some (_, name) -> name
      | None ->
        let k = mk_class s.mk in
        let contains (sub : string) (str : string) =
          let n = String.length sub and m = String.length str in
          let rec go i = i + n <= m && (String.sub str i n = sub || go (i + 1)) in go 0 in
        let script_is_01 = (match inner c s with Some (_, sc, _) -> sc = [byte_tab.(1)] | None -> false) in
        (* scriptSig shape (BIP141): the specification accepts once the scriptSig is reduced to the single
           redeem-script push (nested segwit) resp. emptied (native segwit, taproot) *)
        let ssig_fixed =
          match c.kind with
          | "shwsh" | "shwpkh" ->
            (match ssig_stack s with
             | Some (rb :: _ :: _) -> Some (serialize [IPush rb])
             | _ -> None)
          | "wsh" | "wpkh" | "tr" | "trkey" -> if s.ssig <> [] then Some [] else None
          | _ -> None in
        (* the hash-type byte: the specification accepts once the signatures that only fail because of
           their last byte count as valid -- the interpreter verified against a digest for another
           hash type than the byte given *)
        let hb_cause =
          s.sighb <> [] &&
          List.exists (fun (seq, txv) -> verify_spend_ext (mk_env c s ~seq ~txv (s.sigok @ s.isigx @ s.sighb)) commit c.spk s.ssig s.wit)
            [ (s.seq, s.txv); ((if s.seq = 0xffffffff then 0xfffffffe else s.seq), (if s.txv < 2 then 2 else s.txv)) ] in
        let ssig_cause =
          match ssig_fixed with
          | Some fixed when verify_spend_ext (mk_env c s s.sigok) commit c.spk fixed s.wit ->
            Some (if fixed = [] then "native-segwit-scriptsig-nonempty" else "nested-segwit-scriptsig-extra-push")
          | _ -> None in
        if hb_cause then "sig-hashtype-byte-not-committed"
        else if ssig_cause <> None then (match ssig_cause with Some x -> x | None -> "")
        else if script_is_01 then "script-elem-01-as-op1"
        else if contains "noncanon" s.mk then "noncanonical-script-reencoded"
        else "unexplained:" ^ c.kind ^ ":" ^ k in
    Printf.printf "BAD false-accept cause=%s %s cons=%s\n" cause (describe c s) (String.concat "," s.cons)
  end;
  (* (2) completeness *)
  if s.base = "lib" && c.sane then begin
    inc "lib_sane";
    if oracle_ok then begin
      inc "lib_sane_valid";
      if not impl_ok then begin
        inc "incomplete";
        Printf.printf "BAD complete verdict=%s %s\n" s.verdict (describe c s)
      end
    end
  end;
  (* (3) exactness of the reported constraints, (4) policy *)
  if impl_ok && oracle_ok then begin
    (match spec_checks c s e with
     | Some ks ->
       inc "constraints_checked";
       let mine = List.map proj_cons s.cons in
       if mine <> ks then begin
         inc "constraints_bad";
         Printf.printf "BAD constraints %s reported=%s executed=%s\n" (describe c s) (String.concat "," mine) (String.concat "," ks)
       end
     | None -> inc "constraints_no_trace");
    if s.policy = "0" then begin
      inc "policy_bad";
      Printf.printf "BAD policy %s cons=%s\n" (describe c s) (String.concat "," s.cons)
    end else if s.policy = "1" then inc "policy_ok"
  end;
  (* (5) model tie *)
  let from_failed = String.length s.verdict >= 8 && String.sub s.verdict 0 8 = "err:from" in
  if not from_failed && s.verdict <> "panic" then begin
    match (try model_run c s with Parse t -> Some ("parse-error " ^ t)) with
    | Some m ->
      let impl = vclass ^ " | " ^ String.concat " " s.cons in
      if !coq_emitted < coq_max && s.isigx = [] && (get "model_eq" + get "model_diff") mod coq_stride = 0 then begin
        match (try coq_case c s with _ -> None) with
        | Some t -> incr coq_emitted; Printf.printf "COQCASE %s\n" t
        | None -> ()
      end;
      if m = impl then inc "model_eq"
      else begin
        inc "model_diff";
        Printf.printf "DIFF model %s ims=%s impl=[%s] model=[%s]\n" (describe c s)
          (match s.ims with Some d -> d | None -> "-") impl m
      end
    | None -> inc "model_na"
  end;
  if List.length !samples < 12 && (get "spends" mod 997 = 1) then
    samples := Printf.sprintf "%s impl=%s oracle=%b cons=%s" (describe c s) s.verdict oracle_ok (String.concat "," s.cons) :: !samples

let pairs_of k s = (bytes_of_hex k, bytes_of_hex s)

let kv (toks : string list) (name : string) : string =
  let p = name ^ "=" in
  let n = String.length p in
  match List.find_opt (fun t -> String.length t >= n && String.sub t 0 n = p) toks with
  | Some t -> String.sub t n (String.length t - n)
  | None -> ""

let () =
  let cur = ref None in
  let sp : spend option ref = ref None in
  let ncases = ref 0 in
  let upd f = match !cur with Some c -> f c | None -> () in
  let ups f = match !sp with Some s -> f s | None -> () in
  (try
     while true do
       let line = input_line stdin in
       match split line with
       | "KEY" :: i :: full :: hf :: x :: hx :: comp :: _ ->
         keys := (int_of_string i, { full = bytes_of_hex full; h_full = bytes_of_hex hf; xonly = bytes_of_hex x;
                                     h_x = bytes_of_hex hx; comp = bytes_of_hex comp }) :: !keys
       | "PRE" :: j :: p :: s :: h2 :: r :: h1 :: _ ->
         pres := !pres @ [(int_of_string j, { pre = bytes_of_hex p; sha = bytes_of_hex s; h256 = bytes_of_hex h2;
                                              rip = bytes_of_hex r; h160 = bytes_of_hex h1 })]
       | "CASE" :: id :: kind :: sane :: _ ->
         incr ncases;
         cur := Some { id; kind; sane = (sane = "sane=1"); desc = ""; scripts = []; mss = []; spk = []; hashes_c = [] }
       | "DESC" :: d :: _ -> upd (fun c -> c.desc <- d)
       | "MS" :: rest -> upd (fun c -> c.mss <- c.mss @ [String.concat " " rest]; frag_hist rest)
       | "SCRIPT" :: s :: _ -> upd (fun c -> c.scripts <- c.scripts @ [bytes_of_hex s])
       | "SPK" :: s :: _ -> upd (fun c -> c.spk <- bytes_of_hex s)
       | "SP" :: sid :: rest ->
         let g = kv rest in
         sp := Some { sid; base = g "base"; mk = g "mk"; txv = int_of_string (g "txv"); lock = int_of_string (g "lock");
                      seq = int_of_string (g "seq"); ssig = []; wit = []; hashes = []; sigok = []; isigx = []; sighb = []; isign = [];
                      tapok = true; ims = None; imsx = None; verdict = "?"; cons = []; policy = "-"; ftx = []; decs = []; fpk = []; fxo = []; fcommit = false }
       | "SS" :: s :: _ -> ups (fun x -> x.ssig <- bytes_of_hex s)
       | "WI" :: _ :: items -> ups (fun x -> x.wit <- List.map bytes_of_hex items)
       | "HASH" :: kind :: i :: o :: _ ->
         (match !sp with
          | Some x -> x.hashes <- (kind, (bytes_of_hex i, bytes_of_hex o)) :: x.hashes
          | None -> upd (fun c -> c.hashes_c <- (kind, (bytes_of_hex i, bytes_of_hex o)) :: c.hashes_c))
       | "H4" :: i :: a :: b :: cc :: d :: _ ->
         ups (fun x ->
             let i = bytes_of_hex i in
             x.hashes <- ("sha256", (i, bytes_of_hex a)) :: ("hash256", (i, bytes_of_hex b))
                         :: ("ripemd160", (i, bytes_of_hex cc)) :: ("hash160", (i, bytes_of_hex d)) :: x.hashes)
       | "SIGOK" :: k :: s :: _ -> ups (fun x -> x.sigok <- pairs_of k s :: x.sigok)
       | "ISIGX" :: k :: s :: _ -> ups (fun x -> x.isigx <- pairs_of k s :: x.isigx)
       | "SIGHB" :: k :: s :: _ -> ups (fun x -> x.sighb <- pairs_of k s :: x.sighb)
       | "ISIGN" :: k :: s :: _ -> ups (fun x -> x.isign <- pairs_of k s :: x.isign)
       | "TAPOK" :: v :: _ -> ups (fun x -> x.tapok <- (v = "1"))
       | "IMS" :: rest -> ups (fun x -> x.ims <- Some (String.concat " " rest))
       | "IMSX" :: rest -> ups (fun x -> x.imsx <- Some (String.concat " " rest))
       | "IMPL" :: v :: _ :: cons -> ups (fun x -> x.verdict <- v; x.cons <- cons)
       | "FTX" :: rest -> ups (fun x -> x.ftx <- rest)
       | "DEC" :: cx :: b :: h :: _ -> ups (fun x -> x.decs <- (cx, bytes_of_hex b, h) :: x.decs)
       | "FPK" :: k :: v :: _ -> ups (fun x -> x.fpk <- (bytes_of_hex k, v = "1") :: x.fpk)
       | "FXO" :: k :: _ -> ups (fun x -> x.fxo <- bytes_of_hex k :: x.fxo)
       | "FCOMMIT" :: v :: _ -> ups (fun x -> x.fcommit <- (v = "1"))
       | "POLICY" :: v :: _ -> ups (fun x -> x.policy <- v)
       | "ENDSP" :: _ ->
         (match !cur, !sp with
          | Some c, Some s ->
            (try handle_spend c s
             with ex -> inc "driver_exn"; Printf.printf "BAD driver-exception %s exn=%s\n" (describe c s) (Printexc.to_string ex))
          | _ -> ());
         sp := None
       | "END" :: _ -> cur := None
       | "PANIC" :: _ -> inc "panic"; print_endline ("BAD panic " ^ line)
       | _ -> ()
     done
   with End_of_file -> ());
  Printf.printf "SUMMARY cases=%d" !ncases;
  List.iter (fun k -> Printf.printf " %s=%d" k (get k))
    ["spends"; "both_accept"; "false_accept"; "impl_stricter"; "false_reject"; "out_of_language"; "refutation_reproduced";
     "out_of_language_model_accepts"; "out_of_language_model_other"; "out_of_language_model_na"; "lib_sane"; "lib_sane_valid"; "incomplete";
     "constraints_checked"; "constraints_bad"; "constraints_no_trace"; "policy_ok"; "policy_bad";
     "model_eq"; "model_diff"; "model_na"; "panic"; "driver_exn";
     "ftx_eq"; "ftx_diff"; "ftx_stack_eq"; "ftx_stack_na"; "ftx_inner_eq"; "ftx_inner_na"];
  print_newline ();
  Hashtbl.iter (fun k v -> Printf.printf "HIST %s %d\n" k v) hist;
  List.iter (fun s -> Printf.printf "SAMPLE %s\n" s) (List.rev !samples)
