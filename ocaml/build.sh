#!/bin/bash
# Extract the Coq model to OCaml and build the driver (offline).
set -e
cd "$(dirname "$0")"
coqc -Q ../coq/Script Verif -Q ../coq/Ms Verif -Q ../coq/Proofs Verif ../coq/Extract/Extract.v >/dev/null
rm -f ../coq/Extract/*.glob
ocamlfind ocamlopt -O2 -w -a -package str model.mli model.ml driver.ml -o driver 2>/dev/null || ocamlfind ocamlopt -w -a model.mli model.ml driver.ml -o driver
echo built ocaml/driver
