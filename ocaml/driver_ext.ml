(* C09 driver for the extracted instrumented Script semantics (coq/Script/ExecTr.v: trace_of_script).
   Reads the sat engine's text blocks (same protocol as driver.ml, plus the EXT lines carrying the
   library's own ExtData per leaf), executes every satisfaction the implementation produced on the
   implementation's own script bytes and compares the MEASURED opcode count (all opcodes of the
   script + keys of executed CHECKMULTISIGs) and the MEASURED maximal stack+altstack depth with the
   library's figures:  ops <= static_ops + max_exec_op_count   (contexts with an opcode limit)
                       depth <= max_witness_stack_count + max_exec_stack_count.
   Hand-written glue (trusted base): parsing and table lookups only (helpers copied from driver.ml). *)
open Model

let rec pos_of_int (i : int) : positive =
  if i = 1 then XH else if i land 1 = 1 then XI (pos_of_int (i lsr 1)) else XO (pos_of_int (i lsr 1))
let n_of_int (i : int) : n = if i = 0 then N0 else Npos (pos_of_int i)
let rec int_of_pos = function XH -> 1 | XO p -> 2 * int_of_pos p | XI p -> 2 * int_of_pos p + 1
let int_of_n = function N0 -> 0 | Npos p -> int_of_pos p

let hexval c =
  match c with
  | '0' .. '9' -> Char.code c - 48
  | 'a' .. 'f' -> Char.code c - 87
  | 'A' .. 'F' -> Char.code c - 55
  | _ -> failwith "hex"
let byte_tab = Array.init 256 n_of_int
let bytes_of_hex (s : string) : bytes =
  if s = "-" then []
  else begin
    let n = String.length s / 2 in
    let rec go i acc = if i < 0 then acc else go (i - 1) (byte_tab.(hexval s.[2 * i] * 16 + hexval s.[2 * i + 1]) :: acc) in
    go (n - 1) []
  end
let hex_of_bytes (b : bytes) : string =
  if b = [] then "-" else String.concat "" (List.map (fun x -> Printf.sprintf "%02x" (int_of_n x)) b)
let hexs l = String.concat "," (List.map hex_of_bytes l)
let split s = List.filter (fun x -> x <> "") (String.split_on_char ' ' s)

(* ------------------------------------------------------------------ world *)
type keyrec = { full : bytes; h_full : bytes; xonly : bytes; h_x : bytes; comp : bytes }
type prerec = { pre : bytes; sha : bytes; h256 : bytes; rip : bytes; h160 : bytes }
let keys : (int * keyrec) list ref = ref []
let pres : (int * prerec) list ref = ref []
let sentinel : bytes = [byte_tab.(255)]
let key i = List.assoc i !keys

(* ------------------------------------------------------------------ case *)
type case = {
  id : string; kind : string; sane : bool;
  mutable desc : string;
  mutable scripts : bytes list;
  mutable mss : string list;
  mutable spk : bytes;
  mutable txv : int; mutable lock : int; mutable seq : int;
  mutable held_abs : int option; mutable held_rel : int option;
  mutable sigpairs : (bytes * bytes) list;          (* valid (key bytes, signature) pairs *)
  mutable sigs_idx : (int * bytes) list;            (* ECDSA: key index -> signature *)
  mutable sigs_leaf : (int * string * bytes) list;  (* tap: key index, leaf hash hex, signature *)
  mutable hashes_c : (string * (bytes * bytes)) list;
}

let hash_lookup (c : case) kind (inp : bytes) : bytes =
  let rec find = function
    | [] -> None
    | (k, (i, o)) :: r -> if k = kind && i = inp then Some o else find r in
  match find c.hashes_c with
  | Some o -> o
  | None ->
    let from_pre = List.find_opt (fun (_, p) -> p.pre = inp) !pres in
    (match from_pre with
     | Some (_, p) -> (match kind with "sha256" -> p.sha | "hash256" -> p.h256 | "ripemd160" -> p.rip | _ -> p.h160)
     | None ->
       if kind = "hash160" then
         (match List.find_opt (fun (_, k) -> k.full = inp || k.xonly = inp) !keys with
          | Some (_, k) -> if k.full = inp then k.h_full else k.h_x
          | None -> sentinel)
       else sentinel)

let mk_env (c : case) : env =
  let known = List.concat_map (fun (_, k) -> [k.full; k.xonly]) !keys in
  let tap = c.kind = "tr" in
  { e_sv = SvBase;
    e_locktime = n_of_int c.lock; e_sequence = n_of_int c.seq; e_txversion = n_of_int c.txv;
    e_sigok = (fun k s -> List.mem (k, s) c.sigpairs);
    e_keyok = (fun k ->
      let l = List.length k in
      if tap then l = 32
      else (l = 33 || (l = 65 && (c.kind = "sh" || c.kind = "bare"))) && List.mem k known);
    e_sha256 = hash_lookup c "sha256";
    e_hash256 = hash_lookup c "hash256";
    e_ripemd160 = hash_lookup c "ripemd160";
    e_hash160 = hash_lookup c "hash160" }


type figures = { static_ops : int; sat : (int * int * int * int * int) option }   (* wsize wcount ssig estack eops *)
let parse_ext (toks : string list) : figures =
  match toks with
  | _pk :: _fv :: ops :: sat :: _ ->
    let sat = if sat = "N" then None else
        (match String.split_on_char ':' sat with
         | [_; a; b; c; d; e] -> Some (int_of_string a, int_of_string b, int_of_string c, int_of_string d, int_of_string e)
         | _ -> None) in
    { static_ops = int_of_string ops; sat }
  | _ -> failwith "bad EXT line"

let exts : figures list ref = ref []
let n_ok = ref 0 and n_traced = ref 0 and n_rejected = ref 0 and n_keyspend = ref 0 and n_bad = ref 0
let hist : (string, int) Hashtbl.t = Hashtbl.create 64
let bump k = Hashtbl.replace hist k (1 + (try Hashtbl.find hist k with Not_found -> 0))
let ops_lines = (try Sys.getenv "VERIF_OPS_LINES" <> "" with Not_found -> false)
let slack_class d = if d = 0 then "0" else if d <= 2 then "1-2" else if d <= 9 then "3-9" else "10+"

let rec take k l acc = if k = 0 then (List.rev acc, l) else match l with x :: r -> take (k - 1) r (x :: acc) | [] -> failwith "take"
let rec index_of x l i = match l with [] -> -1 | y :: r -> if x = y then i else index_of x r (i + 1)

let handle_run (c : case) (toks : string list) =
  match toks with
  | mode :: km :: pm :: "OK" :: n :: rest ->
    incr n_ok;
    let n = int_of_string n in
    let (wit, rest) = take n rest [] in
    let wit = List.map bytes_of_hex wit in
    let ssig = (match rest with "S" :: s :: _ -> bytes_of_hex s | _ -> failwith "no S") in
    let pushes () = (match parse_script ssig with
        | Some ss -> (match pushonly_stack ss [] with Some st -> Some (List.rev st) | None -> None)
        | None -> None) in
    let located : (bytes list * bytes * int) option =
      (match c.kind with
       | "wsh" | "shwsh" -> (match List.rev wit with sc :: r -> Some (List.rev r, sc, 0) | [] -> None)
       | "sh" -> (match pushes () with Some p -> (match List.rev p with sc :: r -> Some (List.rev r, sc, 0) | [] -> None) | None -> None)
       | "bare" -> (match pushes (), c.scripts with Some p, [sc] -> Some (p, sc, 0) | _ -> None)
       | _ ->
         if List.length wit < 2 then None
         else (match List.rev wit with
             | _cb :: sc :: r -> let i = index_of sc c.scripts 0 in if i < 0 then None else Some (List.rev r, sc, i)
             | _ -> None)) in
    (match located with
     | None -> if c.kind = "tr" then incr n_keyspend
     | Some (items, sc, leaf) ->
       let sv = (match c.kind with "wsh" | "shwsh" -> SvWitnessV0 | "tr" -> SvTapscript | _ -> SvBase) in
       let e = { (mk_env c) with e_sv = sv } in
       (match trace_of_script e sc items with
        | None -> incr n_rejected
        | Some ((ops, depth), ok) ->
          let ops = int_of_n ops and depth = int_of_n depth in
          if not ok then incr n_rejected
          else begin
            incr n_traced;
            let f = (try List.nth !exts leaf with _ -> { static_ops = 0; sat = None }) in
            let msd = (try List.nth c.mss leaf with _ -> "?") in
            (match f.sat with
             | None ->
               incr n_bad;
               Printf.printf "BAD C09 what=no-figure case=%s kind=%s mode=%s keymask=%s premask=%s leaf=%d ops=%d depth=%d ms=%s desc=%s\n"
                 c.id c.kind mode km pm leaf ops depth msd c.desc
             | Some (_, wcount, _, estack, eops) ->
               if c.kind <> "tr" then begin
                 bump ("ops-slack/" ^ slack_class (f.static_ops + eops - ops));
                 (* per-run figures for the directed op-count stage (tools/props/c09.py), only on request *)
                 if ops_lines then
                   Printf.printf "OPS case=%s mode=%s keymask=%s premask=%s measured=%d static_ops=%d max_exec_op_count=%d\n"
                     c.id mode km pm ops f.static_ops eops;
                 if ops > f.static_ops + eops then begin
                   incr n_bad;
                   Printf.printf "BAD C09 what=opcount case=%s kind=%s mode=%s keymask=%s premask=%s leaf=%d measured=%d static_ops=%d max_exec_op_count=%d ms=%s desc=%s\n"
                     c.id c.kind mode km pm leaf ops f.static_ops eops msd c.desc
                 end
               end;
               bump ("depth-slack/" ^ slack_class (wcount + estack - depth));
               bump ("depth/" ^ (if depth < 5 then "1-4" else if depth < 10 then "5-9" else if depth < 20 then "10-19" else "20+"));
               (* consensus: at most 1000 elements on stack + altstack; a leaf the library's validation accepted
                  (CASE ... sane=1) must stay within it on the satisfactions the library produces *)
               if c.sane && depth > 1000 then begin
                 incr n_bad;
                 Printf.printf "BAD C09 what=stacklimit case=%s kind=%s mode=%s keymask=%s premask=%s leaf=%d measured=%d limit=1000 max_witness_stack_count=%d max_exec_stack_count=%d items=%d ms=%s desc=%s\n"
                   c.id c.kind mode km pm leaf depth wcount estack (List.length items) msd c.desc
               end;
               if depth > wcount + estack then begin
                 incr n_bad;
                 Printf.printf "BAD C09 what=stackdepth case=%s kind=%s mode=%s keymask=%s premask=%s leaf=%d measured=%d max_witness_stack_count=%d max_exec_stack_count=%d items=%d ms=%s desc=%s\n"
                   c.id c.kind mode km pm leaf depth wcount estack (List.length items) msd c.desc
               end)
          end))
  | _ -> ()

let () =
  let cur = ref None in
  let ncases = ref 0 in
  let upd f = match !cur with Some c -> f c | None -> () in
  (try
     while true do
       let line = input_line stdin in
       match split line with
       | "KEY" :: i :: full :: hf :: x :: hx :: comp :: _ ->
         keys := (int_of_string i, { full = bytes_of_hex full; h_full = bytes_of_hex hf; xonly = bytes_of_hex x;
                                     h_x = bytes_of_hex hx; comp = bytes_of_hex comp }) :: !keys
       | "PRE" :: j :: p :: s :: h2 :: r :: h1 :: _ ->
         pres := !pres @ [(int_of_string j, { pre = bytes_of_hex p; sha = bytes_of_hex s; h256 = bytes_of_hex h2;
                                              rip = bytes_of_hex r; h160 = bytes_of_hex h1 })]
       | "CASE" :: id :: kind :: sane :: _ ->
         incr ncases; exts := [];
         cur := Some { id; kind; sane = (sane = "sane=1"); desc = ""; scripts = []; mss = []; spk = [];
                       txv = 2; lock = 0; seq = 0; held_abs = None; held_rel = None;
                       sigpairs = []; sigs_idx = []; sigs_leaf = []; hashes_c = [] }
       | "DESC" :: d :: _ -> upd (fun c -> c.desc <- d)
       | "MS" :: rest -> upd (fun c -> c.mss <- c.mss @ [String.concat " " rest])
       | "SCRIPT" :: s :: _ -> upd (fun c -> c.scripts <- c.scripts @ [bytes_of_hex s])
       | "EXT" :: rest -> exts := !exts @ [parse_ext rest]
       | "SPK" :: s :: _ -> upd (fun c -> c.spk <- bytes_of_hex s)
       | "TX" :: v :: l :: s :: _ -> upd (fun c -> c.txv <- int_of_string v; c.lock <- int_of_string l; c.seq <- int_of_string s)
       | "HASH" :: kind :: i :: o :: _ -> upd (fun c -> c.hashes_c <- (kind, (bytes_of_hex i, bytes_of_hex o)) :: c.hashes_c)
       | "SIG" :: i :: s :: _ ->
         upd (fun c -> let i = int_of_string i and s = bytes_of_hex s in
               c.sigpairs <- ((key i).full, s) :: c.sigpairs; c.sigs_idx <- (i, s) :: c.sigs_idx)
       | "SIGL" :: i :: lh :: s :: _ ->
         upd (fun c -> let i = int_of_string i and s = bytes_of_hex s in
               c.sigpairs <- ((key i).xonly, s) :: c.sigpairs; c.sigs_leaf <- (i, lh, s) :: c.sigs_leaf)
       | "SIGK" :: k :: s :: _ -> upd (fun c -> c.sigpairs <- (bytes_of_hex k, bytes_of_hex s) :: c.sigpairs)
       | "RUN" :: rest -> upd (fun c -> handle_run c rest)
       | "END" :: _ -> cur := None
       | _ -> ()
     done
   with End_of_file -> ());
  Printf.printf "SUMMARY cases=%d ok=%d traced=%d rejected=%d keyspend=%d bad=%d\n" !ncases !n_ok !n_traced !n_rejected !n_keyspend !n_bad;
  Hashtbl.iter (fun k v -> Printf.printf "HIST %s %d\n" k v) hist
