#!/bin/bash
# Extract the C08 validator (coq/Ms/PolicyVal.v) to OCaml and build its driver (offline).
set -e
cd "$(dirname "$0")"
coqc -Q ../coq/Script Verif -Q ../coq/Ms Verif -Q ../coq/Proofs Verif ../coq/Extract/ExtractVal.v >/dev/null
rm -f ../coq/Extract/*.glob
ocamlfind ocamlopt -O2 -w -a -package str model_val.mli model_val.ml driver_val.ml -o driver_val 2>/dev/null || ocamlfind ocamlopt -w -a model_val.mli model_val.ml driver_val.ml -o driver_val
echo built ocaml/driver_val
