#!/bin/bash
# Extract the Coq lift model/spec (coq/Extract/ExtractLift.v) to OCaml and build the C07 driver
# (offline). All products go to ocaml/_build/lift (git-ignored).
set -e
cd "$(dirname "$0")"
mkdir -p _build/lift
cd _build/lift
C=../../../coq
coqc -Q $C/Script Verif -Q $C/Ms Verif -Q $C/Proofs Verif $C/Extract/ExtractLift.v >/dev/null
rm -f $C/Extract/ExtractLift.glob $C/Extract/.ExtractLift.aux
cp ../../driver_lift.ml .
ocamlfind ocamlopt -O2 -w -a -package str lmodel.mli lmodel.ml driver_lift.ml -o driver_lift 2>/dev/null \
  || ocamlfind ocamlopt -w -a lmodel.mli lmodel.ml driver_lift.ml -o driver_lift
echo built ocaml/_build/lift/driver_lift
