(* Driver for the extracted C08 translation validator (coq/Ms/PolicyVal.v, module Model_val).
   Reads the text protocol of `verif-harness compile`, rebuilds (policy, context, output AST,
   attached types, Taproot depth list) and asks the extracted validator for the failing clauses.
   Prints   BAD  lines (a returned output violates the property; with a distinguishing world),
            DIFF lines (model and implementation disagree on a tied figure),
            COQ  lines (Gallina terms of a sample, re-evaluated by vm_compute inside Coq),
            SUMMARY / HIST lines.
   Hand-written glue (trusted base): parsing and printing only. *)
open Model_val

let rec pos_of_int (i : int) : positive =
  if i = 1 then XH else if i land 1 = 1 then XI (pos_of_int (i lsr 1)) else XO (pos_of_int (i lsr 1))
let n_of_int (i : int) : n = if i = 0 then N0 else Npos (pos_of_int i)
let rec int_of_pos = function XH -> 1 | XO p -> 2 * int_of_pos p | XI p -> 2 * int_of_pos p + 1
let int_of_n = function N0 -> 0 | Npos p -> int_of_pos p
let hexval c =
  match c with
  | '0' .. '9' -> Char.code c - 48
  | 'a' .. 'f' -> Char.code c - 87
  | 'A' .. 'F' -> Char.code c - 55
  | _ -> failwith "hex"
let byte_tab = Array.init 256 n_of_int
let bytes_of_hex (s : string) : n list =
  if s = "-" then []
  else List.init (String.length s / 2) (fun i -> byte_tab.(hexval s.[2 * i] * 16 + hexval s.[2 * i + 1]))
let hex_of_bytes (b : n list) : string =
  if b = [] then "-" else String.concat "" (List.map (fun x -> Printf.sprintf "%02x" (int_of_n x)) b)
let split s = List.filter (fun x -> x <> "") (String.split_on_char ' ' s)

exception Parse of string

(* ------------------------------------------------------------------ parsers *)
let hash_kind = function
  | "sha256" -> Some VSha256 | "hash256" -> Some VHash256
  | "ripemd160" -> Some VRipemd160 | "hash160" -> Some VHash160 | _ -> None

let parse_pol (toks : string list) : vpolicy =
  let rest = ref toks in
  let next () = match !rest with x :: r -> rest := r; x | [] -> raise (Parse "eof") in
  let num () = n_of_int (int_of_string (next ())) in
  let rec go () : vpolicy =
    let t = next () in
    match t with
    | "pk" -> CKey (num ())
    | "after" -> CAfter (num ())
    | "older" -> COlder (num ())
    | "trivial" -> CTrivial
    | "unsat" -> CUnsat
    | "and" -> let n = int_of_string (next ()) in CAnd (List.init n (fun _ -> go ()))
    | "or" -> let n = int_of_string (next ()) in
      COr (List.init n (fun _ -> let w = num () in let p = go () in (w, p)))
    | "thresh" -> let k = num () in let n = int_of_string (next ()) in CThresh (k, List.init n (fun _ -> go ()))
    | _ -> (match hash_kind t with
        | Some hk -> CHash (hk, bytes_of_hex (next ()))
        | None -> raise (Parse t)) in
  let p = go () in
  if !rest <> [] then raise (Parse "trailing"); p

let parse_sem (toks : string list) : spolicy =
  let rest = ref toks in
  let next () = match !rest with x :: r -> rest := r; x | [] -> raise (Parse "eof") in
  let num () = n_of_int (int_of_string (next ())) in
  let rec go () : spolicy =
    let t = next () in
    match t with
    | "pk" -> SKey (num ())
    | "after" -> SAfter (num ())
    | "older" -> SOlder (num ())
    | "trivial" -> STrivial
    | "unsat" -> SUnsat
    | "thresh" -> let k = num () in let n = int_of_string (next ()) in SThresh (k, List.init n (fun _ -> go ()))
    | _ -> (match hash_kind t with
        | Some hk -> SHash (hk, bytes_of_hex (next ()))
        | None -> raise (Parse t)) in
  let p = go () in
  if !rest <> [] then raise (Parse "trailing"); p

let parse_ms (toks : string list) : ms =
  let rest = ref toks in
  let next () = match !rest with x :: r -> rest := r; x | [] -> raise (Parse "eof") in
  let num () = n_of_int (int_of_string (next ())) in
  let keysn n = List.init n (fun _ -> num ()) in
  let rec go () : ms =
    match next () with
    | "1" -> MTrue | "0" -> MFalse
    | "pk_k" -> MPkK (num ()) | "pk_h" -> MPkH (num ())
    | "raw_pk_h" -> MRawPkH (bytes_of_hex (next ()))
    | "after" -> MAfter (num ()) | "older" -> MOlder (num ())
    | "sha256" -> MSha256 (bytes_of_hex (next ())) | "hash256" -> MHash256 (bytes_of_hex (next ()))
    | "ripemd160" -> MRipemd160 (bytes_of_hex (next ())) | "hash160" -> MHash160 (bytes_of_hex (next ()))
    | "a" -> MAlt (go ()) | "s" -> MSwap (go ()) | "c" -> MCheck (go ()) | "d" -> MDupIf (go ())
    | "v" -> MVerify (go ()) | "j" -> MNonZero (go ()) | "n" -> MZeroNotEqual (go ())
    | "and_v" -> let x = go () in let y = go () in MAndV (x, y)
    | "and_b" -> let x = go () in let y = go () in MAndB (x, y)
    | "andor" -> let a = go () in let b = go () in let c = go () in MAndOr (a, b, c)
    | "or_b" -> let x = go () in let y = go () in MOrB (x, y)
    | "or_d" -> let x = go () in let y = go () in MOrD (x, y)
    | "or_c" -> let x = go () in let y = go () in MOrC (x, y)
    | "or_i" -> let x = go () in let y = go () in MOrI (x, y)
    | "thresh" -> let k = num () in let n = int_of_string (next ()) in MThresh (k, List.init n (fun _ -> go ()))
    | "multi" -> let k = num () in let n = int_of_string (next ()) in MMulti (k, keysn n)
    | "sortedmulti" -> let k = num () in let n = int_of_string (next ()) in MSortedMulti (k, keysn n)
    | "multi_a" -> let k = num () in let n = int_of_string (next ()) in MMultiA (k, keysn n)
    | "sortedmulti_a" -> let k = num () in let n = int_of_string (next ()) in MSortedMultiA (k, keysn n)
    | t -> raise (Parse t) in
  let m = go () in
  if !rest <> [] then raise (Parse "trailing"); m

(* ------------------------------------------------------------------ Coq term printers (sample) *)
let cn (x : n) = string_of_int (int_of_n x)
let cbytes (b : n list) = "[" ^ String.concat ";" (List.map cn b) ^ "]"
let clist f l = "[" ^ String.concat "; " (List.map f l) ^ "]"
let chk = function VSha256 -> "VSha256" | VHash256 -> "VHash256" | VRipemd160 -> "VRipemd160" | VHash160 -> "VHash160"
let rec cpol (p : vpolicy) : string =
  match p with
  | CUnsat -> "CUnsat" | CTrivial -> "CTrivial"
  | CKey k -> "(CKey " ^ cn k ^ ")" | CAfter t -> "(CAfter " ^ cn t ^ ")" | COlder t -> "(COlder " ^ cn t ^ ")"
  | CHash (hk, h) -> "(CHash " ^ chk hk ^ " " ^ cbytes h ^ ")"
  | CAnd l -> "(CAnd " ^ clist cpol l ^ ")"
  | COr l -> "(COr " ^ clist (fun (w, q) -> "(" ^ cn w ^ ", " ^ cpol q ^ ")") l ^ ")"
  | CThresh (k, l) -> "(CThresh " ^ cn k ^ " " ^ clist cpol l ^ ")"
let rec cms (m : ms) : string =
  let u n x = "(" ^ n ^ " " ^ cms x ^ ")" in
  let b n x y = "(" ^ n ^ " " ^ cms x ^ " " ^ cms y ^ ")" in
  let mk n k ks = "(" ^ n ^ " " ^ cn k ^ " " ^ clist cn ks ^ ")" in
  match m with
  | MTrue -> "MTrue" | MFalse -> "MFalse"
  | MPkK k -> "(MPkK " ^ cn k ^ ")" | MPkH k -> "(MPkH " ^ cn k ^ ")"
  | MRawPkH h -> "(MRawPkH " ^ cbytes h ^ ")"
  | MAfter t -> "(MAfter " ^ cn t ^ ")" | MOlder t -> "(MOlder " ^ cn t ^ ")"
  | MSha256 h -> "(MSha256 " ^ cbytes h ^ ")" | MHash256 h -> "(MHash256 " ^ cbytes h ^ ")"
  | MRipemd160 h -> "(MRipemd160 " ^ cbytes h ^ ")" | MHash160 h -> "(MHash160 " ^ cbytes h ^ ")"
  | MAlt x -> u "MAlt" x | MSwap x -> u "MSwap" x | MCheck x -> u "MCheck" x | MDupIf x -> u "MDupIf" x
  | MVerify x -> u "MVerify" x | MNonZero x -> u "MNonZero" x | MZeroNotEqual x -> u "MZeroNotEqual" x
  | MAndV (x, y) -> b "MAndV" x y | MAndB (x, y) -> b "MAndB" x y
  | MAndOr (x, y, z) -> "(MAndOr " ^ cms x ^ " " ^ cms y ^ " " ^ cms z ^ ")"
  | MOrB (x, y) -> b "MOrB" x y | MOrD (x, y) -> b "MOrD" x y | MOrC (x, y) -> b "MOrC" x y | MOrI (x, y) -> b "MOrI" x y
  | MThresh (k, xs) -> "(MThresh " ^ cn k ^ " " ^ clist cms xs ^ ")"
  | MMulti (k, ks) -> mk "MMulti" k ks | MSortedMulti (k, ks) -> mk "MSortedMulti" k ks
  | MMultiA (k, ks) -> mk "MMultiA" k ks | MSortedMultiA (k, ks) -> mk "MSortedMultiA" k ks
let cctx = function Bare -> "Bare" | Legacy -> "Legacy" | Segwitv0 -> "Segwitv0" | Tap -> "Tap"
let ckind = function KComp -> "KComp" | KUncomp -> "KUncomp" | KXOnly -> "KXOnly"
let ckkl l = clist (fun (k, kd) -> "(" ^ cn k ^ ", " ^ ckind kd ^ ")") l
let cbool b = if b then "true" else "false"
let clause_name = function
  | ClEquiv -> "ClEquiv" | ClTypes -> "ClTypes" | ClBaseB -> "ClBaseB" | ClSigned -> "ClSigned"
  | ClNonMall -> "ClNonMall" | ClSemSigned -> "ClSemSigned" | ClCtx -> "ClCtx" | ClLimits -> "ClLimits"
  | ClBareTop -> "ClBareTop" | ClTreeShape -> "ClTreeShape" | ClLeaves -> "ClLeaves" | ClInternalKey -> "ClInternalKey"
  | ClNative -> "ClNative"

(* ------------------------------------------------------------------ records *)
type msrec = {
  mutable depth : int;
  mutable toks : string; mutable tys : string; mutable rb : string; mutable str : string;
  mutable rp : string; mutable sn : string; mutable lim : string; mutable lift : string;
}
let new_ms d = { depth = d; toks = ""; tys = ""; rb = ""; str = ""; rp = ""; sn = ""; lim = ""; lift = "" }

type outrec = {
  oid : string; api : string; octx : string; kk : (n * kkind) list;
  mutable desc : string;               (* "" for a plain miniscript; bare|sh|wsh|shwsh|tr *)
  mutable ik : int; mutable inpol : bool;
  mutable mss : msrec list;            (* reversed *)
  mutable exp : string list;           (* reversed *)
  mutable experr : bool;
  mutable dstr : string; mutable drp : string; mutable dlift : string;
}

let hist : (string, int) Hashtbl.t = Hashtbl.create 256
let bump k = Hashtbl.replace hist k (1 + (try Hashtbl.find hist k with Not_found -> 0))
let n_cases = ref 0 and n_out = ref 0 and n_ok = ref 0 and n_err = ref 0 and n_panic = ref 0
let n_valid = ref 0 and n_bad = ref 0 and n_diff = ref 0 and n_nodes = ref 0 and n_lift = ref 0
let n_worlds = ref 0 and n_leaves = ref 0
let coq_budget_ms = ref 24 and coq_budget_tr = ref 10 and coq_budget_bad = ref 8
let samples_left = ref 6

let kv (toks : string list) (k : string) : string =
  let p = k ^ "=" in
  let pl = String.length p in
  match List.find_opt (fun t -> String.length t >= pl && String.sub t 0 pl = p) toks with
  | Some t -> String.sub t pl (String.length t - pl)
  | None -> ""

let parse_kk (s : string) : (n * kkind) list =
  List.filter_map (fun t ->
      match String.split_on_char ':' t with
      | [i; "c"] -> Some (n_of_int (int_of_string i), KComp)
      | [i; "u"] -> Some (n_of_int (int_of_string i), KUncomp)
      | [i; "x"] -> Some (n_of_int (int_of_string i), KXOnly)
      | _ -> None) (split s)

let cur_case = ref "" and cur_mode = ref "" and cur_shape = ref "" and cur_pol = ref "" and cur_polstr = ref ""

let world_str (f : fworld) : string =
  Printf.sprintf "keys={%s};preimages={%s};nLockTime=%d;nSequence=%d"
    (String.concat "," (List.map cn f.fw_keys))
    (String.concat "," (List.map (fun (hk, h) -> (match hk with VSha256 -> "sha256:" | VHash256 -> "hash256:" | VRipemd160 -> "ripemd160:" | VHash160 -> "hash160:") ^ hex_of_bytes h) f.fw_hashes))
    (int_of_n f.fw_lock) (int_of_n f.fw_seq)

let ctx_of (o : outrec) : ctx * bool =
  match o.api, o.octx, o.desc with
  | "compile", "bare", _ -> (Bare, false)
  | "compile", "legacy", _ -> (Legacy, false)
  | "compile", "segwitv0", _ -> (Segwitv0, false)
  | "compile", "tap", _ -> (Tap, false)
  | _, _, "bare" -> (Bare, true)
  | _, _, "sh" -> (Legacy, false)
  | _, _, ("wsh" | "shwsh") -> (Segwitv0, false)
  | _ -> (Tap, false)

let frag_hist (toks : string list) =
  List.iter (fun t -> if String.length t > 0 && not (t.[0] >= '0' && t.[0] <= '9') && String.length t < 14 then bump ("frag/" ^ t)) toks

let all_ones s = s <> "" && String.for_all (fun c -> c = '1') s

(* implementation-side clauses of one miniscript record *)
let impl_clauses (r : msrec) : string list =
  let rb = split r.rb in
  let l = ref [] in
  (match rb with
   | [st; tyf; extf] ->
     if st <> "ok" then l := "Rebuild:from_ast-failed" :: !l
     else begin
       if not (all_ones tyf) then l := "AttachedTy<>from_ast" :: !l;
       if not (all_ones extf) then l := "AttachedExt<>from_ast" :: !l
     end
   | _ -> l := "Rebuild:missing" :: !l);
  if r.rp <> "ok-eq" then l := ("Reparse:" ^ r.rp) :: !l;
  if r.sn <> "ok" then l := ("Sane:" ^ r.sn) :: !l;
  (let lim = split r.lim in
   let lv = kv lim "lv" and gv = kv lim "gv" in
   if lv <> "" && lv <> "ok" then l := ("CheckLocalValidity:" ^ lv) :: !l;
   if gv <> "" && gv <> "ok" then l := ("CheckGlobalValidity:" ^ gv) :: !l);
  List.rev !l

let lim_int (lim : string list) k = match kv lim k with "-" | "" -> None | s -> int_of_string_opt s

(* tie of the model's figures with the implementation's *)
let tie_checks (o : outrec) (c : ctx) (m : ms) (r : msrec) : string list =
  let kkf = kk_of_list o.kk in
  let lim = split r.lim in
  let d = ref [] in
  let sl = int_of_n (script_len kkf m) in
  (match lim_int lim "enc" with
   | Some e -> if e <> sl then d := Printf.sprintf "script_len model=%d encode().len()=%d" sl e :: !d
   | None -> ());
  (match lim_int lim "size" with
   | Some e -> if !cur_mode <> "string" && e <> sl then d := Printf.sprintf "script_len model=%d script_size()=%d" sl e :: !d
   | None -> ());
  (* the execution figures: the validator recomputes the library's own figures (ExtData) from the
     output's structure with the C09 model; they must equal what the library attached *)
  let on = function Some x -> Some (int_of_n x) | None -> None in
  let cmp name model impl = match impl with
    | Some e -> if model <> Some e then
        d := Printf.sprintf "%s model=%s impl=%d" name (match model with Some x -> string_of_int x | None -> "none") e :: !d
    | None -> if model <> None then bump ("info_model_has_figure_impl_none/" ^ name) in
  cmp "sat_op_count" (on (exec_ops c kkf m)) (lim_int lim "ops");
  cmp "witness_elements" (match on (wit_count c kkf m) with Some x -> Some (x + 1) | None -> None) (lim_int lim "wit");
  cmp "stack_count" (on (stack_count c kkf m)) (lim_int lim "stk");
  (match c with
   | Bare | Legacy -> cmp "script_sig_size" (on (ssig_bytes c kkf m)) (lim_int lim "ssz")
   | _ -> ());
  (match lim_int lim "pkcost" with
   | Some e -> if e <> int_of_n (pk_cost_of c kkf m) then bump "info_pk_cost_of_C09_model_differs_from_impl(C09's tie)"
   | None -> ());
  (match lim_int lim "size" with
   | Some e -> if e <> int_of_n (lib_script_size c kkf m) then d := Printf.sprintf "script_size() model=%d impl=%d" (int_of_n (lib_script_size c kkf m)) e :: !d
   | None -> ());
  (match lim_int lim "h" with
   | Some e -> if e <> int_of_n (ms_height m) then d := Printf.sprintf "height model=%d impl=%d" (int_of_n (ms_height m)) e :: !d
   | None -> ());
  (let tl = ms_tl m in
   let b x = if x then "1" else "0" in
   let s = b tl.csv_h ^ b tl.csv_t ^ b tl.cltv_h ^ b tl.cltv_t ^ b tl.tl_comb0 in
   let e = kv lim "tl" in
   if e <> "" && e <> s then d := Printf.sprintf "timelock_info model=%s impl=%s" s e :: !d);
  (* the library's own lift of the output must be equivalent to the model's lift *)
  (if String.length r.lift >= 3 && String.sub r.lift 0 3 <> "err" && r.lift <> "panic" then begin
      incr n_lift;
      match (try Some (parse_sem (split r.lift)) with _ -> None) with
      | Some sp -> if not (equiv_dec (lift_ms m) sp) then d := "lift: model lift_ms not equivalent to Liftable::lift" :: !d
      | None -> d := "lift: cannot parse the library's lifted policy" :: !d
    end);
  List.rev !d

let pol_memo : (string, vpolicy) Hashtbl.t = Hashtbl.create 16
let get_pol () : vpolicy =
  match Hashtbl.find_opt pol_memo !cur_pol with
  | Some p -> p
  | None -> let p = parse_pol (split !cur_pol) in Hashtbl.reset pol_memo; Hashtbl.replace pol_memo !cur_pol p; p

(* which restriction of the context an output breaks (refines the ClCtx clause in keys) *)
let cur_kk : (n * kkind) list ref = ref []
let key_allowed (c : ctx) (k : n) : bool =
  match c, kk_of_list !cur_kk k with
  | (Bare | Legacy), (KComp | KUncomp) -> true
  | Segwitv0, KComp -> true
  | Tap, (KComp | KXOnly) -> true
  | _ -> false
let ctx_reason (c : ctx) (ms_list : ms list) : string =
  let legacy = (c = Bare || c = Legacy) in
  let subs = List.concat_map subterms ms_list in
  let has f = List.exists f subs in
  if has (function
      | MPkK k | MPkH k -> not (key_allowed c k)
      | MMulti (_, ks) | MSortedMulti (_, ks) | MMultiA (_, ks) | MSortedMultiA (_, ks) -> List.exists (fun k -> not (key_allowed c k)) ks
      | _ -> false) then "key_kind"
  else if has (function MOrI _ -> legacy | _ -> false) then "or_i"
  else if has (function MDupIf _ -> legacy | _ -> false) then "dup_if"
  else if has (function MMulti _ | MSortedMulti _ -> c = Tap | _ -> false) then "multi"
  else if has (function MMultiA _ | MSortedMultiA _ -> c <> Tap | _ -> false) then "multi_a"
  else if has (function MRawPkH _ -> true | _ -> false) then "raw_pkh"
  else "other"

let cur_reason = ref ""

let cur_figures = ref "-"
let figures (c : ctx) (kkf : n -> kkind) (m : ms) : string =
  let o = function Some x -> string_of_int (int_of_n x) | None -> "none" in
  Printf.sprintf "script_len=%d;pk_cost=%d;executed_opcodes=%s;witness_items+1=%s;stack=%s;scriptsig_bytes=%s;limits(%s):size<=%s,ops<=%s,items<=%s,stack<=%s,scriptsig<=%s"
    (int_of_n (script_len kkf m)) (int_of_n (pk_cost_of c kkf m)) (o (exec_ops c kkf m))
    (match wit_count c kkf m with Some x -> string_of_int (int_of_n x + 1) | None -> "none")
    (o (stack_count c kkf m)) (o (ssig_bytes c kkf m))
    (match c with Bare -> "bare" | Legacy -> "legacy" | Segwitv0 -> "segwitv0" | Tap -> "tap")
    (match c with Bare -> "10000" | Legacy -> "520" | Segwitv0 -> "3600" | Tap -> "4000000")
    (match c with Tap -> "-" | _ -> "201") (match c with Segwitv0 -> "100" | _ -> "-")
    (match c with Segwitv0 | Tap -> "1000" | _ -> "-") (match c with Legacy -> "1650" | _ -> "-")

let report_bad (o : outrec) (clauses : string list) (world : string) (mstoks : string) (str : string) =
  incr n_bad;
  let c0 = List.hd clauses in
  let c0 = if c0 = "ClCtx" then "ClCtx." ^ !cur_reason else c0 in
  let key = Printf.sprintf "%s:%s" c0 (match fst (ctx_of o) with Bare -> "bare" | Legacy -> "legacy" | Segwitv0 -> "segwitv0" | Tap -> "tap") in
  let key = String.map (fun ch -> if ch = ' ' then '_' else ch) key in
  Printf.printf "BAD C08 | key=%s | id=%s | mode=%s | shape=%s | api=%s | ctx=%s | desc=%s | clauses=%s | figures=%s | world=%s | pol=%s | polstr=%s | ms=%s | str=%s\n"
    key o.oid !cur_mode !cur_shape o.api o.octx o.desc (String.concat "," clauses) !cur_figures world !cur_pol !cur_polstr mstoks str

let finish_out (o : outrec) =
  incr n_ok;
  cur_kk := o.kk;
  let pol = get_pol () in
  let mss = List.rev o.mss in
  bump (Printf.sprintf "ok/%s/%s" o.api (if o.desc = "" then o.octx else o.desc));
  if o.desc = "tr" then begin
    (* ---- Taproot descriptor ---- *)
    let leaves = List.map (fun r ->
        let m = parse_ms (split r.toks) in
        let codes = List.map (fun s -> n_of_int (int_of_string s)) (split r.tys) in
        frag_hist (split r.toks);
        n_nodes := !n_nodes + List.length codes; incr n_leaves;
        (r, m, codes)) mss in
    let dl = List.map (fun (r, m, codes) -> (n_of_int r.depth, (m, codes))) leaves in
    let expected =
      if o.api = "tr" && not o.experr then Some (List.rev_map (fun s -> parse_ms (split s)) o.exp) else None in
    let ik = n_of_int o.ik in
    let native = String.length o.api >= 8 && String.sub o.api 0 8 = "trnative" in
    let failing = run_tr_case o.kk pol ik o.inpol dl expected native in
    let impl = List.concat_map (fun (r, _, _) -> impl_clauses r) leaves in
    (* the leaf's real script bytes (when the keys serialise): OP_IF / OP_NOTIF / OP_IFDUP present? *)
    let impl = if native && List.exists (fun (r, _, _) -> kv (split r.lim) "ifop" = "1") leaves
      then impl @ ["NativeLeafScriptHasIfOpcode"] else impl in
    List.iter (fun (r, m, _) ->
        match kv (split r.lim) "ifop" with
        | "0" | "1" as b ->
          if (b = "1") <> has_if_frag m then begin incr n_diff;
            Printf.printf "DIFF C08 | id=%s | api=%s | ctx=%s | what=if-opcodes: model has_if_frag differs from the script bytes | ms=%s\n" o.oid o.api o.octx r.toks end
        | _ -> ()) leaves;
    let impl = if o.drp <> "ok-eq" && o.drp <> "ok-alias" then impl @ ["DescReparse:" ^ o.drp] else impl in
    let all = List.map clause_name failing @ impl in
    bump (Printf.sprintf "tr_leaves/%d" (min (List.length leaves) 9));
    incr n_valid;
    List.iter (fun (r, m, _) ->
        List.iter (fun s -> incr n_diff; Printf.printf "DIFF C08 | id=%s | api=%s | ctx=%s | what=%s | ms=%s\n" o.oid o.api o.octx s r.toks)
          (tie_checks o Tap m r)) leaves;
    (* the library's lift of the whole descriptor *)
    (if String.length o.dlift >= 3 && String.sub o.dlift 0 3 <> "err" && o.dlift <> "panic" then begin
        incr n_lift;
        let model = tr_policy ik true (List.map (fun (_, m, _) -> m) leaves) in
        match (try Some (parse_sem (split o.dlift)) with _ -> None) with
        | Some sp -> if not (equiv_dec model sp) then begin incr n_diff;
            Printf.printf "DIFF C08 | id=%s | api=%s | ctx=%s | what=lift(tr): model not equivalent to Liftable::lift | ms=%s\n" o.oid o.api o.octx o.dstr end
        | None -> ()
      end);
    if all <> [] then begin
      let lv = List.map (fun (_, m, _) -> m) leaves in
      let world =
        if List.mem ClEquiv failing then
          (if small_enough (lift_c pol) (tr_policy ik o.inpol lv) then
             (match find_diff (lift_c pol) (tr_policy ik o.inpol lv) with Some f -> world_str f | None -> "-")
           else "structural-test-undecided(policy-too-large-for-truth-table)")
        else if List.mem ClSemSigned failing then
          (match List.find_map (fun m -> find_sigless (lift_ms m)) lv with Some f -> world_str f | None -> "-")
        else "-" in
      cur_reason := ctx_reason Tap lv;
      cur_figures := String.concat " ; " (List.map (fun m -> figures Tap (kk_of_list o.kk) m) (match lv with a :: b :: c :: _ -> [a; b; c] | l -> l));
      report_bad o all world (String.concat " ; " (List.map (fun (r, _, _) -> Printf.sprintf "@%d %s" r.depth r.toks) leaves)) o.dstr
    end;
    if !coq_budget_tr > 0 || (all <> [] && !coq_budget_bad > 0) then begin
      if all <> [] then decr coq_budget_bad else decr coq_budget_tr;
      Printf.printf "COQ VT %s (%s) %s %s %s %s %s %s\n" (ckkl o.kk) (cpol pol) (cn ik) (cbool o.inpol)
        (clist (fun (d, (m, codes)) -> "(" ^ cn d ^ ", (" ^ cms m ^ ", " ^ clist cn codes ^ "))") dl)
        (match expected with Some l -> "(Some " ^ clist cms l ^ ")" | None -> "None")
        (cbool native) (clist clause_name failing)
    end
  end else begin
    (* ---- one miniscript (plain or inside bare/sh/wsh/sh-wsh) ---- *)
    match mss with
    | [r] ->
      let (c, bare) = ctx_of o in
      let m = parse_ms (split r.toks) in
      let codes = List.map (fun s -> n_of_int (int_of_string s)) (split r.tys) in
      frag_hist (split r.toks);
      n_nodes := !n_nodes + List.length codes;
      let failing = run_ms_case c o.kk bare pol m codes in
      let impl = impl_clauses r in
      let impl = if o.desc <> "" && o.drp <> "ok-eq" && o.drp <> "ok-alias" then impl @ ["DescReparse:" ^ o.drp] else impl in
      if o.drp = "ok-alias" then bump "desc_reparse_alias(pkh)";
      let all = List.map clause_name failing @ impl in
      incr n_valid;
      if small_enough (lift_c pol) (lift_ms m) then n_worlds := !n_worlds + List.length (worlds_of (lift_c pol) (lift_ms m))
      else bump "equivalence_by_structural_test";
      List.iter (fun s -> incr n_diff; Printf.printf "DIFF C08 | id=%s | api=%s | ctx=%s | what=%s | ms=%s\n" o.oid o.api o.octx s r.toks)
        (tie_checks o c m r);
      if all <> [] then begin
        let world =
          if List.mem ClEquiv failing then
            (if small_enough (lift_c pol) (lift_ms m) then
               (match find_diff (lift_c pol) (lift_ms m) with Some f -> world_str f | None -> "-")
             else "structural-test-undecided(policy-too-large-for-truth-table)")
          else if List.mem ClSemSigned failing then
            (match find_sigless (lift_ms m) with Some f -> world_str f | None -> "-")
          else "-" in
        cur_reason := ctx_reason c [m];
        cur_figures := figures c (kk_of_list o.kk) m;
        report_bad o all world r.toks r.str
      end;
      if !samples_left > 0 && o.api = "compile" then begin
        decr samples_left;
        Printf.printf "SAMPLE | id=%s | ctx=%s | polstr=%s | str=%s | verdict=%s\n" o.oid o.octx !cur_polstr r.str
          (if all = [] then "accepted" else String.concat "," all)
      end;
      if !coq_budget_ms > 0 || (all <> [] && !coq_budget_bad > 0) then begin
        if all <> [] then decr coq_budget_bad else decr coq_budget_ms;
        Printf.printf "COQ VM %s %s %s (%s) %s %s %s\n" (cctx c) (ckkl o.kk) (cbool bare) (cpol pol) (cms m)
          (clist cn codes) (clist clause_name failing)
      end
    | _ -> incr n_diff; Printf.printf "DIFF C08 | id=%s | api=%s | ctx=%s | what=protocol: expected one miniscript | ms=-\n" o.oid o.api o.octx
  end

let () =
  let cur : outrec option ref = ref None in
  let cur_ms : msrec option ref = ref None in
  let rest_of line n = if String.length line > n then String.sub line n (String.length line - n) else "" in
  (try
     while true do
       let line = input_line stdin in
       let tag = match String.index_opt line ' ' with Some i -> String.sub line 0 i | None -> line in
       match tag with
       | "CASE" ->
         let t = split line in
         incr n_cases;
         cur_case := List.nth t 1; cur_mode := kv t "mode"; cur_shape := kv t "shape";
         bump ("shape/" ^ !cur_shape); bump ("policy_leaves/" ^ kv t "leaves"); bump ("mode/" ^ !cur_mode)
       | "POL" -> cur_pol := rest_of line 4;
         List.iter (fun t -> match t with
             | "pk" | "after" | "older" | "sha256" | "hash256" | "ripemd160" | "hash160" | "and" | "or" | "thresh" | "trivial" | "unsat" -> bump ("policy_node/" ^ t)
             | _ -> ()) (split !cur_pol)
       | "POLLIB" ->
         if rest_of line 7 <> !cur_pol then begin
           incr n_diff;
           Printf.printf "DIFF C08 | id=%s | api=- | ctx=- | what=policy dump: generator and library value differ | ms=%s\n" !cur_case (rest_of line 7)
         end
       | "POLSTR" -> cur_polstr := rest_of line 7
       | "POLERR" -> bump "policy_build_error"
       | "OUT" ->
         let t = split line in
         incr n_out;
         let res = kv t "res" in
         if res = "ok" then begin
           let kkpos =
             let n = String.length line in
             let rec find i = if i + 4 > n then -1 else if String.sub line i 4 = " kk=" then i else find (i + 1) in
             find 0 in
           let kks = if kkpos >= 0 then rest_of line (kkpos + 4) else "" in
           cur := Some { oid = List.nth t 1; api = kv t "api"; octx = kv t "ctx"; kk = parse_kk kks; desc = ""; ik = 0;
                         inpol = false; mss = []; exp = []; experr = false; dstr = ""; drp = ""; dlift = "" };
           cur_ms := None
         end else begin
           if res = "panic" then incr n_panic else incr n_err;
           bump (Printf.sprintf "%s/%s/%s" (if res = "panic" then "panic" else "err") (kv t "api") res)
         end
       | "DESC" ->
         (match !cur with
          | Some o ->
            let t = split line in
            o.desc <- List.nth t 1;
            if o.desc = "tr" then begin
              o.ik <- int_of_string (kv t "ik"); o.inpol <- kv t "inpol" = "1"
            end
          | None -> ())
       | "LEAF" ->
         (match !cur with
          | Some o -> let r = new_ms (int_of_string (rest_of line 5)) in o.mss <- r :: o.mss; cur_ms := Some r
          | None -> ())
       | "MS" ->
         (match !cur with
          | Some o ->
            let r = (match !cur_ms with
                | Some r when r.toks = "" -> r
                | _ -> let r = new_ms 0 in o.mss <- r :: o.mss; cur_ms := Some r; r) in
            r.toks <- rest_of line 3
          | None -> ())
       | "TY" -> (match !cur_ms with Some r -> r.tys <- rest_of line 3 | None -> ())
       | "RB" -> (match !cur_ms with Some r -> r.rb <- rest_of line 3 | None -> ())
       | "STR" -> (match !cur_ms with Some r -> r.str <- rest_of line 4 | None -> ())
       | "RP" -> (match !cur_ms with Some r -> r.rp <- rest_of line 3 | None -> ())
       | "SN" -> (match !cur_ms with Some r -> r.sn <- rest_of line 3 | None -> ())
       | "LIM" -> (match !cur_ms with Some r -> r.lim <- rest_of line 4 | None -> ())
       | "LIFT" -> (match !cur_ms with Some r -> r.lift <- rest_of line 5 | None -> ())
       | "EXP" -> (match !cur with Some o -> o.exp <- rest_of line 4 :: o.exp | None -> ())
       | "EXPERR" -> (match !cur with Some o -> o.experr <- true | None -> ())
       | "DSTR" -> (match !cur with Some o -> o.dstr <- rest_of line 5 | None -> ())
       | "DRP" -> (match !cur with Some o -> o.drp <- rest_of line 4 | None -> ())
       | "DLIFT" -> (match !cur with Some o -> o.dlift <- rest_of line 6 | None -> ())
       | "ENDOUT" ->
         (match !cur with
          | Some o ->
            (try finish_out o with
             | Parse s -> incr n_diff; Printf.printf "DIFF C08 | id=%s | api=%s | ctx=%s | what=protocol: cannot parse (%s) | ms=-\n" o.oid o.api o.octx s
             | Failure s -> incr n_diff; Printf.printf "DIFF C08 | id=%s | api=%s | ctx=%s | what=protocol: failure (%s) | ms=-\n" o.oid o.api o.octx s);
            cur := None; cur_ms := None
          | None -> ())
       | "LIMBOUND" | "LIMSKIP" -> print_endline line
       | "GENHIST" | "END" -> ()
       | _ -> ()
     done
   with End_of_file -> ());
  Printf.printf "SUMMARY cases=%d outputs=%d ok=%d err=%d panic=%d validated=%d bad=%d diff=%d nodes=%d lifts=%d worlds=%d leaves=%d\n"
    !n_cases !n_out !n_ok !n_err !n_panic !n_valid !n_bad !n_diff !n_nodes !n_lift !n_worlds !n_leaves;
  let keys = Hashtbl.fold (fun k _ acc -> k :: acc) hist [] in
  List.iter (fun k -> Printf.printf "HIST %s %d\n" k (Hashtbl.find hist k)) (List.sort compare keys)
