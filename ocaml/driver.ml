(* Driver for the extracted Coq specification/model: reads the harness's text blocks,
   rebuilds the environment (signature table, hash tables) and
   (1) judges every witness the implementation produced with the extracted Script semantics (C01),
   (2) runs the extracted MODEL of the satisfier on the same assets and compares (tie),
   (3) when the implementation reports "could not satisfy", asks the extracted specification
       table for a witness from the same assets and executes it (C02).
   Hand-written glue (trusted base): parsing and table lookups only. *)
open Model

let rec pos_of_int (i : int) : positive =
  if i = 1 then XH else if i land 1 = 1 then XI (pos_of_int (i lsr 1)) else XO (pos_of_int (i lsr 1))
let n_of_int (i : int) : n = if i = 0 then N0 else Npos (pos_of_int i)
let rec int_of_pos = function XH -> 1 | XO p -> 2 * int_of_pos p | XI p -> 2 * int_of_pos p + 1
let int_of_n = function N0 -> 0 | Npos p -> int_of_pos p

let hexval c =
  match c with
  | '0' .. '9' -> Char.code c - 48
  | 'a' .. 'f' -> Char.code c - 87
  | 'A' .. 'F' -> Char.code c - 55
  | _ -> failwith "hex"
let byte_tab = Array.init 256 n_of_int
let bytes_of_hex (s : string) : bytes =
  if s = "-" then []
  else begin
    let n = String.length s / 2 in
    let rec go i acc = if i < 0 then acc else go (i - 1) (byte_tab.(hexval s.[2 * i] * 16 + hexval s.[2 * i + 1]) :: acc) in
    go (n - 1) []
  end
let hex_of_bytes (b : bytes) : string =
  if b = [] then "-" else String.concat "" (List.map (fun x -> Printf.sprintf "%02x" (int_of_n x)) b)
let hexs l = String.concat "," (List.map hex_of_bytes l)
let split s = List.filter (fun x -> x <> "") (String.split_on_char ' ' s)

(* ------------------------------------------------------------------ world *)
type keyrec = { full : bytes; h_full : bytes; xonly : bytes; h_x : bytes; comp : bytes }
type prerec = { pre : bytes; sha : bytes; h256 : bytes; rip : bytes; h160 : bytes }
let keys : (int * keyrec) list ref = ref []
let pres : (int * prerec) list ref = ref []
let sentinel : bytes = [byte_tab.(255)]
let key i = List.assoc i !keys

(* ------------------------------------------------------------------ case *)
type case = {
  id : string; kind : string; sane : bool;
  mutable desc : string;
  mutable scripts : bytes list;
  mutable mss : string list;
  mutable spk : bytes;
  mutable txv : int; mutable lock : int; mutable seq : int;
  mutable held_abs : int option; mutable held_rel : int option;
  mutable sigpairs : (bytes * bytes) list;          (* valid (key bytes, signature) pairs *)
  mutable sigs_idx : (int * bytes) list;            (* ECDSA: key index -> signature *)
  mutable sigs_leaf : (int * string * bytes) list;  (* tap: key index, leaf hash hex, signature *)
  mutable leafhs : string list;                      (* tap: leaf hash hex per MS/SCRIPT entry *)
  mutable hashes_c : (string * (bytes * bytes)) list;
}

let hash_lookup (c : case) kind (inp : bytes) : bytes =
  let rec find = function
    | [] -> None
    | (k, (i, o)) :: r -> if k = kind && i = inp then Some o else find r in
  match find c.hashes_c with
  | Some o -> o
  | None ->
    let from_pre = List.find_opt (fun (_, p) -> p.pre = inp) !pres in
    (match from_pre with
     | Some (_, p) -> (match kind with "sha256" -> p.sha | "hash256" -> p.h256 | "ripemd160" -> p.rip | _ -> p.h160)
     | None ->
       if kind = "hash160" then
         (match List.find_opt (fun (_, k) -> k.full = inp || k.xonly = inp) !keys with
          | Some (_, k) -> if k.full = inp then k.h_full else k.h_x
          | None -> sentinel)
       else sentinel)

let mk_env_with (c : case) (lock : int) (seq : int) : env =
  let known = List.concat_map (fun (_, k) -> [k.full; k.xonly]) !keys in
  let tap = c.kind = "tr" in
  { e_sv = SvBase;
    e_locktime = n_of_int lock; e_sequence = n_of_int seq; e_txversion = n_of_int c.txv;
    e_sigok = (fun k s -> List.mem (k, s) c.sigpairs);
    e_keyok = (fun k ->
      let l = List.length k in
      if tap then l = 32
      else (l = 33 || (l = 65 && (c.kind = "sh" || c.kind = "bare" || c.kind = "pkh"))) && List.mem k known);
    e_sha256 = hash_lookup c "sha256";
    e_hash256 = hash_lookup c "hash256";
    e_ripemd160 = hash_lookup c "ripemd160";
    e_hash160 = hash_lookup c "hash160" }

let mk_env (c : case) : env = mk_env_with c c.lock c.seq

(* ------------------------------------------------------------------ MS prefix parser *)
exception Parse of string
let parse_ms (toks : string list) : ms =
  let rest = ref toks in
  let next () = match !rest with x :: r -> rest := r; x | [] -> raise (Parse "eof") in
  let num () = n_of_int (int_of_string (next ())) in
  let keysn n = List.init n (fun _ -> num ()) in
  let rec go () : ms =
    match next () with
    | "1" -> MTrue | "0" -> MFalse
    | "pk_k" -> MPkK (num ()) | "pk_h" -> MPkH (num ())
    | "raw_pk_h" -> MRawPkH (bytes_of_hex (next ()))
    | "after" -> MAfter (num ()) | "older" -> MOlder (num ())
    | "sha256" -> MSha256 (bytes_of_hex (next ())) | "hash256" -> MHash256 (bytes_of_hex (next ()))
    | "ripemd160" -> MRipemd160 (bytes_of_hex (next ())) | "hash160" -> MHash160 (bytes_of_hex (next ()))
    | "a" -> MAlt (go ()) | "s" -> MSwap (go ()) | "c" -> MCheck (go ()) | "d" -> MDupIf (go ())
    | "v" -> MVerify (go ()) | "j" -> MNonZero (go ()) | "n" -> MZeroNotEqual (go ())
    | "and_v" -> let x = go () in let y = go () in MAndV (x, y)
    | "and_b" -> let x = go () in let y = go () in MAndB (x, y)
    | "andor" -> let a = go () in let b = go () in let c = go () in MAndOr (a, b, c)
    | "or_b" -> let x = go () in let y = go () in MOrB (x, y)
    | "or_d" -> let x = go () in let y = go () in MOrD (x, y)
    | "or_c" -> let x = go () in let y = go () in MOrC (x, y)
    | "or_i" -> let x = go () in let y = go () in MOrI (x, y)
    | "thresh" -> let k = num () in let n = int_of_string (next ()) in MThresh (k, List.init n (fun _ -> go ()))
    | "multi" -> let k = num () in let n = int_of_string (next ()) in MMulti (k, keysn n)
    | "sortedmulti" -> let k = num () in let n = int_of_string (next ()) in MSortedMulti (k, keysn n)
    | "multi_a" -> let k = num () in let n = int_of_string (next ()) in MMultiA (k, keysn n)
    | "sortedmulti_a" -> let k = num () in let n = int_of_string (next ()) in MSortedMultiA (k, keysn n)
    | t -> raise (Parse t) in
  let m = go () in
  if !rest <> [] then raise (Parse "trailing"); m

let ints_of_bytes b = List.map int_of_n b
let keyenv_of (tap : bool) : keyenv =
  { kb = (fun k -> let r = key (int_of_n k) in if tap then r.xonly else r.full);
    kh = (fun k -> let r = key (int_of_n k) in if tap then r.h_x else r.h_full);
    ksort = (fun ks ->
      let keyf k = let r = key (int_of_n k) in ints_of_bytes (if tap then r.xonly else r.comp) in
      List.stable_sort (fun a b -> compare (keyf a) (keyf b)) ks) }

let opt_n = function None -> None | Some i -> Some (n_of_int i)

let pre_for (pm : int) (sel : prerec -> bytes) (img : bytes) : bytes option =
  match List.find_opt (fun (j, p) -> sel p = img && j < 30 && pm land (1 lsl j) <> 0 && j < List.length !pres - 1) !pres with
  | Some (_, p) -> Some p.pre
  | None -> None

(* signature held for key index i under keymask km; leaf = Some leafhash for tap *)
let sig_for (c : case) (km : int) (leaf : string option) (i : int) : bytes option =
  if km land (1 lsl i) = 0 then None
  else match leaf with
    | None -> List.assoc_opt i c.sigs_idx
    | Some lh -> (match List.find_opt (fun (j, l, _) -> j = i && l = lh) c.sigs_leaf with Some (_, _, s) -> Some s | None -> None)

let assets_of (c : case) km pm leaf : assets =
  { a_sig = (fun k -> sig_for c km leaf (int_of_n k));
    a_sha256 = pre_for pm (fun p -> p.sha);
    a_hash256 = pre_for pm (fun p -> p.h256);
    a_ripemd160 = pre_for pm (fun p -> p.rip);
    a_hash160 = pre_for pm (fun p -> p.h160);
    a_after = after_ok (opt_n c.held_abs);
    a_older = older_ok (opt_n c.held_rel) }

let senv_of (c : case) km pm leaf : senv =
  let tap = c.kind = "tr" in
  let a = assets_of c km pm leaf in
  { se_tap = tap;
    se_pklen = (fun k ->
      if tap then n_of_int 33
      else if c.kind = "wsh" || c.kind = "shwsh" then n_of_int 34
      else n_of_int (1 + List.length (key (int_of_n k)).full));
    se_sig = (fun k -> match a.a_sig k with Some s -> Some (n_of_int (List.length s)) | None -> None);
    se_pre = (fun kd h -> (match kd with
        | HSha256 -> a.a_sha256 h | HHash256 -> a.a_hash256 h
        | HRipemd160 -> a.a_ripemd160 h | HHash160 -> a.a_hash160 h) <> None);
    se_after = a.a_after; se_older = a.a_older }

let fill_of (c : case) km pm leaf : fill =
  let tap = c.kind = "tr" in
  let a = assets_of c km pm leaf in
  { f_keybytes = (fun k -> let r = key (int_of_n k) in if tap then r.xonly else r.full);
    f_sig = a.a_sig;
    f_pre = (fun kd h -> match kd with
        | HSha256 -> a.a_sha256 h | HHash256 -> a.a_hash256 h
        | HRipemd160 -> a.a_ripemd160 h | HHash160 -> a.a_hash160 h) }

let leaf_hash_of_script : (bytes * string) list ref = ref []
let runs : (string, (bytes list * bytes * bool) option) Hashtbl.t = Hashtbl.create 64

(* ------------------------------------------------------------------ statistics *)
let c03_hook : (case -> string -> string -> string -> bytes list -> bytes -> bool -> unit) ref = ref (fun _ _ _ _ _ _ _ -> ())
let stats_ok = ref 0 and stats_bad = ref 0 and stats_err = ref 0 and stats_panic = ref 0
let model_eq = ref 0 and model_diff = ref 0
let c02_checked = ref 0 and c02_bad = ref 0
let c02_brute_runs = ref 0 and c02_brute_execs = ref 0 and c02_brute_max = ref 0
let ms_keys_fwd : (ms -> int list) ref = ref (fun _ -> [])
let hist : (string, int) Hashtbl.t = Hashtbl.create 64
let bump k = Hashtbl.replace hist k (1 + (try Hashtbl.find hist k with Not_found -> 0))
let frag_hist (toks : string list) =
  List.iter (fun t -> if String.length t > 0 && not (t.[0] >= '0' && t.[0] <= '9') then bump ("frag/" ^ t)) toks

(* the witness items the implementation fed to the inner script, in push order *)
let inner_items (c : case) (wit : bytes list) (ssig : bytes) : bytes list option =
  match c.kind with
  | "wsh" | "shwsh" -> (match List.rev wit with _ :: r -> Some (List.rev r) | [] -> None)
  | "sh" ->
    (match parse_script ssig with
     | Some ss -> (match pushonly_stack ss [] with Some (_ :: st) -> Some (List.rev st) | _ -> None)
     | None -> None)
  | "bare" ->
    (match parse_script ssig with
     | Some ss -> (match pushonly_stack ss [] with Some st -> Some (List.rev st) | None -> None)
     | None -> None)
  | _ -> None

let root_has_sig (m : ms) : bool =
  match type_of m with ROk t -> t.t_mall.m_signed | RErr _ -> false

let script_kinds = ["wsh"; "shwsh"; "sh"; "bare"]

(* wrap a bare witness (push order) into the (scriptSig, witness) of the output type, for the C02 replay *)
let rec ser_pushes (items : bytes list) : bytes =
  match items with
  | [] -> []
  | it :: r ->
    let instr = (match it with
        | [] -> IPush []
        | [x] when int_of_n x >= 1 && int_of_n x <= 16 -> INum (Zpos (pos_of_int (int_of_n x)))
        | _ -> IPush it) in
    serialize [instr] @ ser_pushes r

let wrap (c : case) (items : bytes list) : (bytes * bytes list) option =
  match c.kind, c.scripts with
  | "wsh", [sc] -> Some ([], items @ [sc])
  | "shwsh", [sc] ->
    let prog = byte_tab.(0) :: byte_tab.(32) :: hash_lookup c "sha256" sc in
    Some (serialize [IPush prog], items @ [sc])
  | "sh", [sc] -> Some (ser_pushes items @ serialize [IPush sc], [])
  | "bare", _ -> Some (ser_pushes items, [])
  | _ -> None

let handle_run (c : case) (toks : string list) =
  match toks with
  | mode :: km :: pm :: verdict :: rest ->
    let kmi = int_of_string km and pmi = int_of_string pm in
    let mall = (mode = "mall") in
    let impl : (bytes list * bytes * bool) option =
      (match verdict with
       | "OK" ->
         (match rest with
          | n :: rest ->
            let n = int_of_string n in
            let rec take k l acc = if k = 0 then (List.rev acc, l) else match l with x :: r -> take (k - 1) r (x :: acc) | [] -> failwith "take" in
            let (wit, rest) = take n rest [] in
            let wit = List.map bytes_of_hex wit in
            let ssig, rest = (match rest with "S" :: s :: r -> (bytes_of_hex s, r) | _ -> failwith "no S") in
            let tapok = (match rest with "TAPOK" :: v :: _ -> v = "1" | _ -> true) in
            Some (wit, ssig, tapok)
          | [] -> failwith "bad OK")
       | _ -> None) in
    if verdict = "PANIC" then begin
      incr stats_panic;
      Printf.printf "PANIC case=%s kind=%s mode=%s keymask=%s premask=%s desc=%s\n" c.id c.kind mode km pm c.desc
    end;
    if verdict <> "PANIC" then Hashtbl.replace runs (mode ^ "/" ^ km ^ "/" ^ pm) impl;
    let e = mk_env c in
    (* (1) C01 oracle on the implementation's own output *)
    (match impl with
     | Some (wit, ssig, tapok) ->
       let ok = verify_spend e (fun _ _ -> tapok) c.spk ssig wit in
       bump (c.kind ^ "/" ^ mode ^ "/ok");
       if ok then (incr stats_ok; !c03_hook c mode km pm wit ssig tapok)
       else begin
         incr stats_bad;
         Printf.printf "BAD C01 case=%s kind=%s mode=%s keymask=%s premask=%s lock=%d seq=%d desc=%s wit=%s ssig=%s tapok=%b\n"
           c.id c.kind mode km pm c.lock c.seq c.desc (hexs wit) (hex_of_bytes ssig) tapok
       end
     | None -> if verdict = "ERR" then (incr stats_err; bump (c.kind ^ "/" ^ mode ^ "/err")));
    (* (2) model vs implementation, (3) C02 completeness: single-script output types *)
    if List.mem c.kind script_kinds && verdict <> "PANIC" then begin
      match c.mss with
      | [mstr] ->
        let m = parse_ms (split mstr) in
        let ke = keyenv_of false in
        let se = senv_of c kmi pmi None and f = fill_of c kmi pmi None in
        let model = satisfy ke se f mall (root_has_sig m) m in
        let impl_items = (match impl with Some (w, s, _) -> inner_items c w s | None -> None) in
        if model = impl_items then incr model_eq
        else begin
          incr model_diff;
          Printf.printf "DIFF sat case=%s kind=%s mode=%s keymask=%s premask=%s lock=%d seq=%d desc=%s impl=%s model=%s\n"
            c.id c.kind mode km pm c.lock c.seq c.desc
            (match impl_items with Some w -> hexs w | None -> "ERR")
            (match model with Some w -> hexs w | None -> "ERR")
        end;
        (* C02: the implementation found nothing; does the specification table have a witness
           from the same assets that really spends? *)
        if impl = None && (mall || (c.sane && pmi = (1 lsl (List.length !pres - 1)) - 1)) then begin
          incr c02_checked;
          let a = assets_of c kmi pmi None in
          let cands = all_sat ke a m in
          let spends = List.filter_map (fun w ->
              match wrap c (List.rev w) with
              | Some (ssig, wit) -> if verify_spend e (fun _ _ -> true) c.spk ssig wit then Some (ssig, wit) else None
              | None -> None) cands in
          match spends with
          | (ssig, wit) :: _ ->
            incr c02_bad;
            Printf.printf "BAD C02 case=%s kind=%s mode=%s keymask=%s premask=%s lock=%d seq=%d desc=%s ms=%s wit=%s ssig=%s\n"
              c.id c.kind mode km pm c.lock c.seq c.desc mstr (hexs wit) (hex_of_bytes ssig)
          | [] ->
            (* the table has nothing: brute force over the caller's own material (bounded) so that a
               gap in the table itself cannot hide a spend *)
            if mall && !c02_brute_runs < !c02_brute_max then begin
              incr c02_brute_runs;
              let held_sigs = List.filter_map (fun (i, sg) -> if kmi land (1 lsl i) <> 0 then Some sg else None) c.sigs_idx in
              let held_pre = List.filter_map (fun (j, p) -> if j < List.length !pres - 1 && pmi land (1 lsl j) <> 0 then Some p.pre else None) !pres in
              let ks = List.sort_uniq compare (!ms_keys_fwd m) in
              let alpha = Array.of_list (List.sort_uniq compare
                  ([[]; [byte_tab.(1)]; List.init 32 (fun _ -> byte_tab.(0))] @ held_sigs @ held_pre @ List.map (fun i -> (key i).full) ks)) in
              let a = Array.length alpha in
              let maxlen = if a <= 6 then 5 else if a <= 9 then 4 else 3 in
              let found = ref None in
              let rec enum len prefix =
                if !found <> None then ()
                else if len = 0 then begin
                  incr c02_brute_execs;
                  let items = List.rev prefix in
                  match wrap c items with
                  | Some (ssig, wit) -> if verify_spend e (fun _ _ -> true) c.spk ssig wit then found := Some (ssig, wit)
                  | None -> ()
                end else Array.iter (fun x -> enum (len - 1) (x :: prefix)) alpha in
              for len = 0 to maxlen do enum len [] done;
              match !found with
              | Some (ssig, wit) ->
                incr c02_bad;
                Printf.printf "BAD C02 case=%s kind=%s mode=%s keymask=%s premask=%s lock=%d seq=%d desc=%s ms=%s wit=%s ssig=%s found=bruteforce\n"
                  c.id c.kind mode km pm c.lock c.seq c.desc mstr (hexs wit) (hex_of_bytes ssig)
              | None -> ()
            end
        end
      | _ -> ()
    end;
    (* taproot: the same two judgements per leaf.  (2') if the implementation spent through leaf j,
       the model's satisfier on that leaf must return the same items; (3') if it found nothing,
       neither the key path nor any leaf's specification table may yield a spend. *)
    if c.kind = "tr" && verdict <> "PANIC" && List.length c.leafhs = List.length c.mss then begin
      let ke = keyenv_of true in
      let leaves = List.mapi (fun j mstr -> (j, mstr, List.nth c.scripts j, List.nth c.leafhs j)) c.mss in
      (match impl with
       | Some (wit, _, _) when List.length wit >= 2 ->
         (match List.rev wit with
          | _cb :: sc :: ritems ->
            (match List.find_opt (fun (_, _, s, _) -> s = sc) leaves with
             | Some (j, mstr, _, lh) ->
               let m = parse_ms (split mstr) in
               let se = senv_of c kmi pmi (Some lh) and f = fill_of c kmi pmi (Some lh) in
               let model = satisfy ke se f mall (root_has_sig m) m in
               let items = List.rev ritems in
               if model = Some items then incr model_eq
               else begin
                 incr model_diff;
                 Printf.printf "DIFF sat case=%s kind=tr leaf=%d mode=%s keymask=%s premask=%s lock=%d seq=%d desc=%s impl=%s model=%s\n"
                   c.id j mode km pm c.lock c.seq c.desc (hexs items) (match model with Some w -> hexs w | None -> "ERR")
               end
             | None -> ())
          | _ -> ())
       | Some _ -> ()
       | None ->
         if mall || (c.sane && pmi = (1 lsl (List.length !pres - 1)) - 1) then begin
           incr c02_checked;
           let keypath = (kmi land (1 lsl 5)) <> 0 && List.exists (fun (k, _) -> List.length k = 32 && (match c.spk with _ :: _ :: r -> k = r | _ -> false)) c.sigpairs in
           if keypath then begin
             incr c02_bad;
             Printf.printf "BAD C02 case=%s kind=tr mode=%s keymask=%s premask=%s lock=%d seq=%d desc=%s ms=keypath wit=- ssig=-\n"
               c.id mode km pm c.lock c.seq c.desc
           end else
             List.iter (fun (j, mstr, _, lh) ->
               let m = parse_ms (split mstr) in
               let a = assets_of c kmi pmi (Some lh) in
               match List.find_opt (fun w -> accepts e (enc ke m) w) (all_sat ke a m) with
               | Some w ->
                 incr c02_bad;
                 Printf.printf "BAD C02 case=%s kind=tr leaf=%d mode=%s keymask=%s premask=%s lock=%d seq=%d desc=%s ms=%s wit=%s ssig=-\n"
                   c.id j mode km pm c.lock c.seq c.desc mstr (hexs (List.rev w))
               | None -> ()) leaves
         end)
    end
  | _ -> failwith "bad RUN line"



(* plan first, transaction afterwards: the completed plan must spend under the locks the plan reported *)
let planx_checked = ref 0
let handle_runx (c : case) (toks : string list) =
  match toks with
  | mode :: km :: pm :: verdict :: rest ->
    incr planx_checked;
    (match verdict with
     | "OK" ->
       (match rest with
        | n :: rest ->
          let n = int_of_string n in
          let rec take k l acc = if k = 0 then (List.rev acc, l) else match l with x :: r -> take (k - 1) r (x :: acc) | [] -> failwith "take" in
          let (wit, rest) = take n rest [] in
          let wit = List.map bytes_of_hex wit in
          let ssig, rest = (match rest with "S" :: s :: r -> (bytes_of_hex s, r) | _ -> failwith "no S") in
          let tapok = (match rest with "TAPOK" :: v :: _ -> v = "1" | _ -> true) in
          let e = mk_env c in
          if verify_spend e (fun _ _ -> tapok) c.spk ssig wit then incr stats_ok
          else begin
            incr stats_bad;
            Printf.printf "BAD C17 case=%s kind=%s mode=%s keymask=%s premask=%s lock=%d seq=%d what=plan-made-with-every-lock-claimed-does-not-spend-under-its-reported-locks desc=%s wit=%s ssig=%s tapok=%b\n"
              c.id c.kind mode km pm c.lock c.seq c.desc (hexs wit) (hex_of_bytes ssig) tapok
          end
        | [] -> failwith "bad RUNX OK")
     | "PANIC" -> incr stats_panic; Printf.printf "PANIC case=%s kind=%s mode=%s planx desc=%s\n" c.id c.kind mode c.desc
     | _ ->
       Printf.printf "BAD C17 case=%s kind=%s mode=%s keymask=%s premask=%s lock=%d seq=%d what=plan-made-with-every-lock-claimed-cannot-be-completed desc=%s\n"
         c.id c.kind mode km pm c.lock c.seq c.desc)
  | _ -> failwith "bad RUNX line"

(* ------------------------------------------------------------------ C03: third-party malleability search *)
let c03_checked = ref 0 and c03_bad = ref 0 and c03_candidates = ref 0
let c03_budget = 4000
let lcg = ref 12345
let rnd n = lcg := (!lcg * 1103515245 + 12345) land 0x3fffffff; (!lcg lsr 8) mod n

let split_ws = split
let c03_search (c : case) (mode : string) km pm (wit : bytes list) (ssig : bytes) (tapok : bool) =
  (* the script's input items (push order) and how to rebuild (scriptSig, witness) around other items *)
  let split : (bytes list * (bytes list -> bytes * bytes list)) option =
    (match c.kind with
     | "wsh" | "shwsh" ->
       (match List.rev wit with sc :: r -> Some (List.rev r, (fun cand -> (ssig, cand @ [sc]))) | [] -> None)
     | "sh" ->
       (match parse_script ssig with
        | Some ss -> (match pushonly_stack ss [] with
            | Some (rb :: st) -> Some (List.rev st, (fun cand -> (ser_pushes cand @ serialize [IPush rb], [])))
            | _ -> None)
        | None -> None)
     | "bare" ->
       (match parse_script ssig with
        | Some ss -> (match pushonly_stack ss [] with
            | Some st -> Some (List.rev st, (fun cand -> (ser_pushes cand, [])))
            | None -> None)
        | None -> None)
     | "tr" ->
       (match List.rev wit with
        | cb :: sc :: r -> Some (List.rev r, (fun cand -> ([], cand @ [sc; cb])))
        | _ -> None)
     | _ -> None) in
  if c.sane && mode = "nonmall" then begin
    match split with
    | Some (items, rebuild) ->
      let n = List.length items in
      if n <= 6 then begin
        incr c03_checked;
        let e = mk_env c in
        let zeros = List.init 32 (fun _ -> byte_tab.(0)) in
        let pre_all = List.filter_map (fun (j, p) -> if j < List.length !pres - 1 then Some p.pre else None) !pres in
        let keys_all = List.concat_map (fun (_, k) -> [k.full; k.xonly]) !keys in
        let junk = [byte_tab.(0xde); byte_tab.(0xad)] in
        let alpha = List.sort_uniq compare (items @ [[]; [byte_tab.(1)]; zeros; junk] @ pre_all @ keys_all) in
        let alpha = Array.of_list alpha in
        let a = Array.length alpha in
        let try_cand (cand : bytes list) =
          incr c03_candidates;
          let (cs, cw) = rebuild cand in
          if cand <> items && verify_spend e (fun _ _ -> tapok) c.spk cs cw then begin
            incr c03_bad;
            Printf.printf "BAD C03 case=%s kind=%s keymask=%s premask=%s lock=%d seq=%d desc=%s original=%s alternative=%s\n"
              c.id c.kind km pm c.lock c.seq c.desc (hexs items) (hexs cand);
            true
          end else false in
        let found = ref false in
        (* directed: every entry of the specification's satisfaction table built from what a third
           party has — the signatures visible in the original witness, EVERY preimage, the locks the
           signed transaction meets — is an alternative witness to try *)
        (match c.kind, c.mss with
         | ("wsh" | "shwsh" | "sh" | "bare"), [mstr] ->
           let m = parse_ms (split_ws mstr) in
           let adv_km = List.fold_left (fun acc (i, sg) -> if List.mem sg items then acc lor (1 lsl i) else acc) 0 c.sigs_idx in
           let adv_pm = (1 lsl (List.length !pres - 1)) - 1 in
           let adv = assets_of c adv_km adv_pm None in
           List.iter (fun w -> if not !found then (if try_cand (List.rev w) then found := true))
             (all_sat (keyenv_of false) adv m)
         | _ -> ());
        (* exhaustive for short lengths while the budget allows, then random *)
        let budget = ref c03_budget in
        let rec enum len prefix =
          if !found || !budget <= 0 then ()
          else if len = 0 then (decr budget; if try_cand (List.rev prefix) then found := true)
          else Array.iter (fun x -> enum (len - 1) (x :: prefix)) alpha in
        let pow b e = let r = ref 1 in for _ = 1 to e do r := !r * b done; !r in
        for len = 0 to n + 1 do
          if not !found then begin
            if pow a len <= !budget then enum len []
            else begin
              (* random candidates, biased to single-position edits of the original *)
              let tries = min !budget 600 in
              for _ = 1 to tries do
                if not !found then begin
                  decr budget;
                  let cand =
                    if len = n && rnd 2 = 0 then
                      let pos = rnd (max n 1) in List.mapi (fun i x -> if i = pos then alpha.(rnd a) else x) items
                    else List.init len (fun _ -> alpha.(rnd a)) in
                  if try_cand cand then found := true
                end
              done
            end
          end
        done
      end
    | None -> ()
  end


(* ------------------------------------------------------------------ C06: type labels vs execution on enumerated stacks *)
let c06_frags = ref 0 and c06_execs = ref 0 and c06_bad = ref 0
let c06_clauses : (string, int) Hashtbl.t = Hashtbl.create 16
let clause_hit k = Hashtbl.replace c06_clauses k (1 + (try Hashtbl.find c06_clauses k with Not_found -> 0))

let rec ms_keys (m : ms) : int list =
  match m with
  | MPkK k | MPkH k -> [int_of_n k]
  | MMulti (_, ks) | MSortedMulti (_, ks) | MMultiA (_, ks) | MSortedMultiA (_, ks) -> List.map int_of_n ks
  | MAlt x | MSwap x | MCheck x | MDupIf x | MVerify x | MNonZero x | MZeroNotEqual x -> ms_keys x
  | MAndV (x, y) | MAndB (x, y) | MOrB (x, y) | MOrD (x, y) | MOrC (x, y) | MOrI (x, y) -> ms_keys x @ ms_keys y
  | MAndOr (a, b, c) -> ms_keys a @ ms_keys b @ ms_keys c
  | MThresh (_, xs) -> List.concat_map ms_keys xs
  | _ -> []
(* hashes of raw key hash leaves (decoder-only fragments) *)
let rec ms_rawhashes (m : ms) : bytes list =
  match m with
  | MRawPkH h -> [h]
  | MAlt x | MSwap x | MCheck x | MDupIf x | MVerify x | MNonZero x | MZeroNotEqual x -> ms_rawhashes x
  | MAndV (x, y) | MAndB (x, y) | MOrB (x, y) | MOrD (x, y) | MOrC (x, y) | MOrI (x, y) -> ms_rawhashes x @ ms_rawhashes y
  | MAndOr (a, b, c) -> ms_rawhashes a @ ms_rawhashes b @ ms_rawhashes c
  | MThresh (_, xs) -> List.concat_map ms_rawhashes xs
  | _ -> []
let rec ms_hashes (m : ms) : bytes list =
  match m with
  | MSha256 h | MHash256 h | MRipemd160 h | MHash160 h -> [h]
  | MAlt x | MSwap x | MCheck x | MDupIf x | MVerify x | MNonZero x | MZeroNotEqual x -> ms_hashes x
  | MAndV (x, y) | MAndB (x, y) | MOrB (x, y) | MOrD (x, y) | MOrC (x, y) | MOrI (x, y) -> ms_hashes x @ ms_hashes y
  | MAndOr (a, b, c) -> ms_hashes a @ ms_hashes b @ ms_hashes c
  | MThresh (_, xs) -> List.concat_map ms_hashes xs
  | _ -> []

let fake_sig i = [byte_tab.(0x30); byte_tab.(i); byte_tab.(0x01)]

let rec is_suffix (t : bytes list) (s : bytes list) : bool =
  t = s || (match s with [] -> false | _ :: r -> is_suffix t r)
let rec take_l k l = if k = 0 then [] else match l with x :: r -> x :: take_l (k - 1) r | [] -> []
let rec drop_l k l = if k = 0 then l else match l with _ :: r -> drop_l (k - 1) r | [] -> []

(* the library's Display of a Type, for the model's type *)
let ty_string (t : ty) : string =
  (match t.t_corr.c_base with BB -> "B" | BK -> "K" | BV -> "V" | BW -> "W") ^ "/" ^
  (match t.t_corr.c_input with IZero -> "z" | IOne -> "o" | IOneNonZero -> "on" | IAny -> "" | IAnyNonZero -> "n") ^
  (if t.t_corr.c_dissat then "d" else "") ^ (if t.t_corr.c_unit then "u" else "") ^
  (match t.t_mall.m_dissat with DNone -> "f" | DUnique -> "e" | DUnknown -> "") ^
  (if t.t_mall.m_signed then "s" else "") ^ (if t.t_mall.m_nm then "m" else "")
let c05_types = ref 0 and c05_bad = ref 0
let types_only = ref false

let handle_frag (line : string) =
  match String.split_on_char '|' line with
  | [hd; msd; sc] ->
    (match split hd, split sc with
     | ["FRAG"; ctx; adm; tystr], [schex] ->
       let admitted = adm = "adm" in
       let m = parse_ms (split msd) in
       let tap = ctx = "tap" in
       (* C05: the type the library attached (type_check's dispatch, or the sugar-cast rule) must be
          the model's type of the same fragment *)
       incr c05_types;
       (match type_of m with
        | ROk t when ty_string t = tystr -> ()
        | r ->
          incr c05_bad;
          Printf.printf "BAD C05 ctx=%s library_type=%s model_type=%s ms=%s\n" ctx tystr
            (match r with ROk t -> ty_string t | RErr _ -> "ERR") (String.trim msd));
       if !types_only then raise Exit;
       (* "!" : the library panicked while encoding a fragment it accepted and typed; the
          predictions are then judged on the model's encoding of the same fragment *)
       let enc_panicked = schex = "!" in
       let script = if enc_panicked then enc (keyenv_of tap) m else
           (match parse_script (bytes_of_hex schex) with Some s -> s | None -> failwith "C06: script does not parse") in
       if enc_panicked then begin
         incr c06_bad;
         Printf.printf "BAD C06 ctx=%s type=%s clause=encoder-panics-on-accepted-fragment lock=0 seq=0 ms=%s stack= script=!\n" ctx tystr (String.trim msd)
       end;
       let base = tystr.[0] in
       let props = (match String.index_opt tystr '/' with Some i -> String.sub tystr (i + 1) (String.length tystr - i - 1) | None -> "") in
       let has c = String.contains props c in
       if base = 'B' || base = 'V' then begin
         incr c06_frags;
         (* keys named by the fragment, plus the keys behind its raw key hashes (the stack alphabet
            must contain them, otherwise a raw key hash is never satisfied and its labels go untested) *)
         let raws = ms_rawhashes m in
         let raw_ks = List.filter_map (fun (i, k) -> if List.mem (if tap then k.h_x else k.h_full) raws then Some i else None) !keys in
         let ks = List.sort_uniq compare (ms_keys m @ raw_ks) in
         let kbytes i = let r = key i in if tap then r.xonly else r.full in
         let sigpairs = List.map (fun i -> (kbytes i, fake_sig i)) ks in
         let valid_sigs = List.map snd sigpairs in
         let known = List.concat_map (fun (_, k) -> [k.full; k.xonly]) !keys in
         let pre_for_img h = List.filter_map (fun (j, p) ->
             if j < List.length !pres - 1 && (p.sha = h || p.h256 = h || p.rip = h || p.h160 = h) then Some p.pre else None) !pres in
         let zeros = List.init 32 (fun _ -> byte_tab.(0)) in
         let alpha = List.sort_uniq compare
             ([[]; [byte_tab.(1)]; [byte_tab.(2)]; [byte_tab.(0x30); byte_tab.(0xff)]; zeros]
              @ valid_sigs @ List.map kbytes ks @ List.concat_map pre_for_img (ms_hashes m)) in
         let alpha = Array.of_list alpha in
         let a = Array.length alpha in
         let maxlen = if a <= 7 then 4 else if a <= 11 then 3 else 2 in
         let sv_kind = if tap then "tr" else if ctx = "segwitv0" then "wsh" else "sh" in
         let hashes_tbl = { id = "c06"; kind = sv_kind; sane = true; desc = ""; scripts = []; mss = []; spk = [];
                            txv = 2; lock = 0; seq = 0; held_abs = None; held_rel = None; sigpairs; sigs_idx = []; sigs_leaf = []; leafhs = []; hashes_c = [] } in
         let envs = [ (499999999, 65535); (2147483647, 0x400000 lor 65535) ] in
         List.iter (fun (lock, seq) ->
           let e0 = mk_env_with hashes_tbl lock seq in
           let e = { e0 with e_sv = (if tap then SvTapscript else if ctx = "segwitv0" then SvWitnessV0 else SvBase);
                             e_keyok = (fun k -> let l = List.length k in if tap then l = 32 else (l = 33 || l = 65) && List.mem k known) } in
           let dis_prefixes = ref [] in
           let bad what st =
             incr c06_bad;
             Printf.printf "BAD C06 ctx=%s type=%s clause=%s lock=%d seq=%d ms=%s stack=%s script=%s\n"
               ctx tystr what lock seq (String.trim msd) (hexs st) schex in
           let rec enum len prefix =
             if len = 0 then begin
               let st = List.rev prefix in
               incr c06_execs;
               match exec e script { stk = st; alt = [] } with
               | Fail -> ()
               | Ok r ->
                 if r.alt <> [] then bad "alt-stack-not-restored" st;
                 let (v, t) = (match base, r.stk with
                     | 'B', v :: t -> (Some v, t)
                     | 'B', [] -> bad "B-left-nothing" st; (None, [])
                     | _, t -> (None, t)) in
                 if not (is_suffix t st) then bad "frame-not-preserved" st
                 else begin
                   let n = List.length st - List.length t in
                   let consumed = take_l n st in
                   let sat = (match v with Some v -> truthy v | None -> true) in
                   let has_valid_sig = List.exists (fun x -> List.mem x valid_sigs) consumed in
                   if has 'z' && n <> 0 then bad "z-consumed-elements" st;
                   if has 'o' && n <> 1 then bad "o-did-not-consume-exactly-one" st;
                   if has 'n' && sat && n > 0 && List.hd st = [] then bad "n-satisfied-with-empty-top" st;
                   (match v with
                    | Some v ->
                      if has 'u' && sat && v <> [byte_tab.(1)] then bad "u-left-other-than-1" st;
                      if has 'f' && (not sat) && not has_valid_sig then bad "f-dissatisfied-without-signature" st;
                      if (not sat) && not has_valid_sig then
                        (if not (List.mem consumed !dis_prefixes) then dis_prefixes := consumed :: !dis_prefixes)
                    | None -> ());
                   if has 's' && sat && not has_valid_sig then bad "s-satisfied-without-signature" st
                 end
             end else Array.iter (fun x -> enum (len - 1) (x :: prefix)) alpha in
           for len = 0 to maxlen do enum len [] done;
           (* d: some signature-free dissatisfaction exists (if the table says one fits the bound); e: it is unique *)
           if base = 'B' then begin
             let ke = keyenv_of tap in
             let a0 : assets = { a_sig = (fun _ -> None); a_sha256 = (fun _ -> None); a_hash256 = (fun _ -> None);
                                 a_ripemd160 = (fun _ -> None); a_hash160 = (fun _ -> None);
                                 a_after = (fun _ -> false); a_older = (fun _ -> false) } in
             let fits = List.exists (fun w -> List.length w <= maxlen) (all_dsat ke a0 m) in
             if has 'd' && fits && !dis_prefixes = [] then bad "d-no-signature-free-dissatisfaction-found" [];
             if admitted && has 'e' && has 'm' && List.length !dis_prefixes > 1 then bad "e-dissatisfaction-not-unique" (List.concat !dis_prefixes)
           end;
           List.iter (fun c -> if has c then clause_hit (String.make 1 c)) ['z'; 'o'; 'n'; 'd'; 'u'; 'f'; 'e'; 's']
         ) envs
       end
     | _ -> failwith "bad FRAG head")
  | _ -> failwith "bad FRAG line"

(* ------------------------------------------------------------------ plans (C17) *)
let c17_checked = ref 0 and c17_bad = ref 0 and c17_lockprobes = ref 0
let bad17 c mode km pm what extra =
  incr c17_bad;
  Printf.printf "BAD C17 case=%s kind=%s mode=%s keymask=%s premask=%s lock=%d seq=%d what=%s desc=%s %s\n"
    c.id c.kind mode km pm c.lock c.seq what c.desc extra

let handle_plan (c : case) (toks : string list) =
  match toks with
  | mode :: km :: pm :: verdict :: rest ->
    incr c17_checked;
    let run = (try Some (Hashtbl.find runs (mode ^ "/" ^ km ^ "/" ^ pm)) with Not_found -> None) in
    (match verdict, run with
     | "PANIC", _ -> bad17 c mode km pm "plan-panicked" ""
     | "NONE", Some (Some _) -> bad17 c mode km pm "no-plan-but-satisfier-succeeds" ""
     | "NONE", _ -> ()
     | "OK", _ ->
       (match rest with
        | a :: r :: ws :: ss :: _wt :: more ->
          let ws = int_of_string ws and ss = int_of_string ss in
          (match run with
           | Some None -> bad17 c mode km pm "plan-but-satisfier-fails" ""
           | _ -> ());
          (match more with
           | "SATERR" :: _ -> bad17 c mode km pm "plan-cannot-be-completed-by-same-assets" ""
           | "REAL" :: wser :: sser :: "SAT" :: n :: tl ->
             let wser = int_of_string wser and sser = int_of_string sser and n = int_of_string n in
             let rec take k l acc = if k = 0 then (List.rev acc, l) else match l with x :: r -> take (k - 1) r (x :: acc) | [] -> failwith "take" in
             let (wit, tl) = take n tl [] in
             let wit = List.map bytes_of_hex wit in
             let ssig = (match tl with "S" :: s :: _ -> bytes_of_hex s | _ -> failwith "no S") in
             (* how much of an undershoot is explained by "the script itself is not counted" *)
             let slen = (match c.scripts with [sc] -> List.length sc | _ -> 0) in
             let push_len n = n + (if n <= 75 then 1 else if n <= 255 then 2 else 3) in
             let w_contrib = if c.kind = "wsh" || c.kind = "shwsh" then push_len slen + 2 else 0 in
             let s_contrib = if c.kind = "sh" then push_len slen + 2 else if c.kind = "shwsh" || c.kind = "shwpkh" then 1 else 0 in
             if ws < wser then
               bad17 c mode km pm (if ws + w_contrib >= wser && w_contrib > 0 then "announced-witness-size-excludes-script" else "announced-witness-size-too-small")
                 (Printf.sprintf "announced=%d real=%d" ws wser);
             if ss < sser then
               bad17 c mode km pm (if ss + s_contrib >= sser && s_contrib > 0 then "announced-scriptsig-size-excludes-script-push" else "announced-scriptsig-size-too-small")
                 (Printf.sprintf "announced=%d real=%d" ss sser);
             (match run with
              | Some (Some (rw, rs, _)) ->
                if rw <> wit || rs <> ssig then
                  bad17 c mode km pm "completed-plan-differs-from-satisfier"
                    (Printf.sprintf "plan_wit=%s plan_ssig=%s sat_wit=%s sat_ssig=%s" (hexs wit) (hex_of_bytes ssig) (hexs rw) (hex_of_bytes rs))
              | _ -> ());
             (* the completed plan must spend (C01 via plan) ... *)
             let tapok = (match run with Some (Some (_, _, t)) -> t | _ -> true) in
             let spends lock seq = verify_spend (mk_env_with c lock seq) (fun _ _ -> tapok) c.spk ssig wit in
             if not (spends c.lock c.seq) then
               bad17 c mode km pm "completed-plan-does-not-spend" (Printf.sprintf "wit=%s ssig=%s" (hexs wit) (hex_of_bytes ssig))
             else begin
               (* ... and the reported locks are sufficient and necessary for this witness *)
               let ra = if a = "-" then None else Some (int_of_string a) in
               let rr = if r = "-" then None else Some (int_of_string r) in
               let lock_exact = (match ra with Some x -> x | None -> 0) in
               let seq_exact = (match rr with Some x -> x | None -> if ra = None then 0xffffffff else 0xfffffffe) in
               incr c17_lockprobes;
               if not (spends lock_exact seq_exact) then
                 bad17 c mode km pm "reported-locks-not-sufficient" (Printf.sprintf "abs=%s rel=%s" a r);
               (match ra with
                | Some x ->
                  if spends (x - 1) seq_exact then bad17 c mode km pm "abs-lock-not-necessary" (Printf.sprintf "abs=%d accepted_with=%d" x (x - 1));
                  let other = if x < 500000000 then 500000000 + x else x - 500000000 in
                  if other > 0 && spends other seq_exact then bad17 c mode km pm "abs-lock-unit-not-checked" (Printf.sprintf "abs=%d accepted_with=%d" x other);
                  if spends lock_exact 0xffffffff then bad17 c mode km pm "abs-lock-accepted-with-final-sequence" (Printf.sprintf "abs=%d" x)
                | None -> ());
               (match rr with
                | Some x ->
                  let v = x land 0xffff and ty = x land 0x400000 in
                  if v > 0 && spends lock_exact (ty lor (v - 1)) then bad17 c mode km pm "rel-lock-not-necessary" (Printf.sprintf "rel=%d accepted_with=%d" x (ty lor (v - 1)));
                  if spends lock_exact ((ty lxor 0x400000) lor v) then bad17 c mode km pm "rel-lock-unit-not-checked" (Printf.sprintf "rel=%d" x);
                  if spends lock_exact (0x80000000 lor x) then bad17 c mode km pm "rel-lock-accepted-with-disable-bit" (Printf.sprintf "rel=%d" x)
                | None -> ())
             end
           | _ -> failwith "bad PLAN OK tail")
        | _ -> failwith "bad PLAN OK")
     | _ -> failwith "bad PLAN verdict")
  | _ -> failwith "bad PLAN line"

let () =
  ms_keys_fwd := ms_keys;
  Array.iter (fun a -> if a = "--c03" then c03_hook := c03_search; if a = "--brute" then c02_brute_max := 300; if a = "--types-only" then types_only := true) Sys.argv;
  let cur = ref None in
  let ncases = ref 0 in
  let upd f = match !cur with Some c -> f c | None -> () in
  (try
     while true do
       let line = input_line stdin in
       match split line with
       | "KEY" :: i :: full :: hf :: x :: hx :: comp :: _ ->
         keys := (int_of_string i, { full = bytes_of_hex full; h_full = bytes_of_hex hf; xonly = bytes_of_hex x;
                                     h_x = bytes_of_hex hx; comp = bytes_of_hex comp }) :: !keys
       | "PRE" :: j :: p :: s :: h2 :: r :: h1 :: _ ->
         pres := !pres @ [(int_of_string j, { pre = bytes_of_hex p; sha = bytes_of_hex s; h256 = bytes_of_hex h2;
                                              rip = bytes_of_hex r; h160 = bytes_of_hex h1 })]
       | "CASE" :: id :: kind :: sane :: _ ->
         incr ncases;
         cur := Some { id; kind; sane = (sane = "sane=1"); desc = ""; scripts = []; mss = []; spk = [];
                       txv = 2; lock = 0; seq = 0; held_abs = None; held_rel = None;
                       sigpairs = []; sigs_idx = []; sigs_leaf = []; leafhs = []; hashes_c = [] }
       | "DESC" :: d :: _ -> upd (fun c -> c.desc <- d)
       | "MS" :: rest -> upd (fun c -> c.mss <- c.mss @ [String.concat " " rest]; frag_hist rest)
       | "SCRIPT" :: s :: _ -> upd (fun c -> c.scripts <- c.scripts @ [bytes_of_hex s])
       | "LEAFH" :: h :: _ -> upd (fun c -> c.leafhs <- c.leafhs @ [h])
       | "SPK" :: s :: _ -> upd (fun c -> c.spk <- bytes_of_hex s)
       | "TX" :: v :: l :: s :: _ -> upd (fun c -> c.txv <- int_of_string v; c.lock <- int_of_string l; c.seq <- int_of_string s)
       | "LOCKS" :: a :: r :: _ ->
         upd (fun c -> c.held_abs <- (if a = "-" then None else Some (int_of_string a));
               c.held_rel <- (if r = "-" then None else Some (int_of_string r)))
       | "HASH" :: kind :: i :: o :: _ -> upd (fun c -> c.hashes_c <- (kind, (bytes_of_hex i, bytes_of_hex o)) :: c.hashes_c)
       | "SIG" :: i :: s :: _ ->
         upd (fun c -> let i = int_of_string i and s = bytes_of_hex s in
               c.sigpairs <- ((key i).full, s) :: c.sigpairs; c.sigs_idx <- (i, s) :: c.sigs_idx)
       | "SIGL" :: i :: lh :: s :: _ ->
         upd (fun c -> let i = int_of_string i and s = bytes_of_hex s in
               c.sigpairs <- ((key i).xonly, s) :: c.sigpairs; c.sigs_leaf <- (i, lh, s) :: c.sigs_leaf)
       | "SIGK" :: k :: s :: _ -> upd (fun c -> c.sigpairs <- (bytes_of_hex k, bytes_of_hex s) :: c.sigpairs)
       | "RUN" :: rest -> upd (fun c -> handle_run c rest)
       | "RUNX" :: rest -> upd (fun c -> handle_runx c rest)
       | "PLAN" :: rest -> upd (fun c -> handle_plan c rest)
       | "END" :: "frags" :: _ -> print_endline "ENDFRAGS"
       | "DONE" :: _ -> print_endline "ENDSAT"
       | "END" :: _ -> cur := None; Hashtbl.reset runs
       | "FRAG" :: _ -> (try handle_frag line with Exit -> ())
       | "HBAD" :: pid :: _ ->
         (* a violation detected by the harness itself (two API paths of the implementation disagree) *)
         if pid = "C17" then (incr c17_bad; incr c17_checked);
         print_endline ("BAD" ^ String.sub line 4 (String.length line - 4))
       | "APLAN" :: _ -> incr c17_checked
       | "PANIC" :: _ -> incr stats_panic; print_endline line
       | _ -> ()
     done
   with End_of_file -> ());
  Printf.printf "SUMMARY cases=%d ok=%d bad=%d err=%d panic=%d model_eq=%d model_diff=%d c02_checked=%d c02_bad=%d c17_checked=%d c17_bad=%d c17_lockprobes=%d c03_checked=%d c03_bad=%d c03_candidates=%d c02_brute_runs=%d c02_brute_execs=%d\n"
    !ncases !stats_ok !stats_bad !stats_err !stats_panic !model_eq !model_diff !c02_checked !c02_bad !c17_checked !c17_bad !c17_lockprobes !c03_checked !c03_bad !c03_candidates !c02_brute_runs !c02_brute_execs;
  if !c05_types > 0 then Printf.printf "SUMMARY05 types=%d bad=%d\n" !c05_types !c05_bad;
  if !c06_frags > 0 then begin
    Printf.printf "SUMMARY06 frags=%d execs=%d bad=%d\n" !c06_frags !c06_execs !c06_bad;
    Hashtbl.iter (fun k v -> Printf.printf "HIST06 %s %d\n" k v) c06_clauses
  end;
  Hashtbl.iter (fun k v -> Printf.printf "HIST %s %d\n" k v) hist
