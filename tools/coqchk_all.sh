#!/bin/bash
# Independent re-check of every compiled property file (and everything it depends on) with coqchk;
# prints the axioms the development relies on. Takes several minutes. Run after tools/setup.sh.
cd "$(dirname "$0")/../coq"
ulimit -s unlimited 2>/dev/null || true
exec coqchk -o -silent -Q Script Verif -Q Ms Verif -Q Proofs Verif -Q Properties Verif -Q Tables Verif \
  $(ls Properties/*.v | sed 's#Properties/#Verif.#; s#\.v$##')
