#!/usr/bin/env python3
"""Fold builders' notes/Cxx.manifest.json proposals into MANIFEST.json (coordinator tool)."""
import json, glob, sys
man = json.load(open("MANIFEST.json"))
for p in sorted(glob.glob("notes/C*.manifest.json")):
    d = json.load(open(p))
    checks = d.get("checks") or ([d["check"]] if "check" in d else ([d] if "property_id" in d else []))
    if "checks_entry" in d:
        checks = checks + ([d["checks_entry"]] if isinstance(d["checks_entry"], dict) else list(d["checks_entry"]))
    if "engines_entry" in d and not d.get("engines"):
        d["engines"] = [d["engines_entry"]] if isinstance(d["engines_entry"], dict) else list(d["engines_entry"])
    engines = d.get("engines") or ([d["engine"]] if isinstance(d.get("engine"), dict) else [])
    for c in checks:
        pid = c["property_id"]
        man["checks"] = [x for x in man["checks"] if x["property_id"] != pid] + [c]
        man["not_applicable"] = [n for n in man.get("not_applicable", []) if n["property_id"] != pid]
    for e in engines:
        man["engines"] = [x for x in man.get("engines", []) if x.get("name") != e.get("name")] + [e]
man["checks"].sort(key=lambda c: c["property_id"])
json.dump(man, open("MANIFEST.json", "w"), indent=1)
print("claimed:", [c["property_id"] for c in man["checks"]])
