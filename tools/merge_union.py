import sys,re
import os
LISTLIKE={'_CoqProject','main.rs','known_findings.txt','.gitignore','Extract.v'}
for p in sys.argv[1:]:
    if os.path.basename(p) not in LISTLIKE:
        print('merge_union: NOT a list-like file, resolve by hand:', p); continue
    s=open(p).read()
    out=[];mode=None;ours=[];theirs=[]
    for line in s.splitlines(keepends=True):
        if line.startswith("<<<<<<< "): mode='o';ours=[];theirs=[];continue
        if line.startswith("||||||| "): mode='b';continue
        if line.startswith("=======") and mode in('o','b'): mode='t';continue
        if line.startswith(">>>>>>> ") and mode=='t':
            seen=set()
            for l in ours+theirs:
                if l.strip()=="" or l not in seen: out.append(l); seen.add(l)
            mode=None;continue
        if mode=='o': ours.append(line)
        elif mode=='t': theirs.append(line)
        elif mode=='b': pass
        else: out.append(line)
    open(p,'w').write("".join(out))
