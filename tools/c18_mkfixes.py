#!/usr/bin/env python3
"""Build the candidate fix patches notes/fixes/C18-*.diff (unified diffs against /repo) and,
with `test <name>`, apply one to the scratch worktree /tmp/c18mut and run the check on it
(create the scratch checkout with `git -C /repo worktree add --detach /tmp/c18mut HEAD`, remove it
with `git -C /repo worktree remove --force /tmp/c18mut`)."""
import difflib, os, shutil, subprocess, sys

HERE = os.path.dirname(os.path.dirname(os.path.abspath(__file__)))
MUT = "/tmp/c18mut"

FIXES = {
    # entails-normalize-first, lift-and-threshold and timelocks-ignore-unsatisfiable were applied to
    # /repo (51c85bfb, 780a529d in the C11 builder's variant, b588aa3a, 243891a5 = lift-check-timelocks-once); their diffs stay in
    # notes/fixes/ for reference and no longer apply.
    "minimum-n-keys-doc": [("src/policy/semantic.rs", [
        ("""    /// Counts the minimum number of public keys for which signatures could be
    /// used to satisfy the policy.
    ///
""",
         """    /// Counts the minimum number of public keys for which signatures could be
    /// used to satisfy the policy.
    ///
    /// Like [`Self::n_keys`] this counts key *occurrences*: if the same key appears in
    /// several places (e.g. `and(pk(A),pk(A))`) it is counted once per place, so the result
    /// is only an upper bound on the number of distinct signers in that case.
    ///
""")])],
}


def patched(path, repls):
    src = open(os.path.join("/repo", path)).read()
    out = src
    for old, new in repls:
        assert out.count(old) == 1, (path, old[:60], out.count(old))
        out = out.replace(old, new)
    return src, out


def build():
    os.makedirs(os.path.join(HERE, "notes/fixes"), exist_ok=True)
    for name, files in FIXES.items():
        diff = []
        for path, repls in files:
            src, out = patched(path, repls)
            diff += difflib.unified_diff(src.splitlines(True), out.splitlines(True), "a/" + path, "b/" + path)
        with open(os.path.join(HERE, "notes/fixes/C18-%s.diff" % name), "w") as f:
            f.writelines(diff)
        print("wrote notes/fixes/C18-%s.diff (%d lines)" % (name, len(diff)))


def test(name):
    for path, repls in FIXES[name]:
        _, out = patched(path, repls)
        open(os.path.join(MUT, path), "w").write(out)
    env = dict(os.environ, VERIF_REPO=MUT)
    p = subprocess.run([sys.executable, os.path.join(HERE, "tools/check.py"), "C18"], env=env,
                       stdout=subprocess.PIPE, stderr=subprocess.PIPE, text=True)
    for path, _ in FIXES[name]:
        shutil.copy(os.path.join("/repo", path), os.path.join(MUT, path))
    print("== %s rc=%d" % (name, p.returncode))
    for l in p.stdout.splitlines():
        print("   " + l[:230])
    for l in p.stderr.splitlines():
        if l.strip().startswith("["):
            print("   " + l.strip()[:230])
    if p.returncode not in (0, 1):
        print(p.stderr[-3000:])


if __name__ == "__main__":
    if len(sys.argv) > 1 and sys.argv[1] == "test":
        for n in sys.argv[2:] or list(FIXES):
            test(n)
    else:
        build()
