#!/usr/bin/env python3
"""Regenerate the seeded-change table (DESIGN.md section 12.6) from seeded/<prop>-<i>/ and stamp each
meta.json with what the coordinator ran."""
import json, glob, os, re
rows = []
for d in sorted(glob.glob("seeded/*/")):
    name = os.path.basename(d.rstrip("/"))
    if not os.path.exists(d + "patch.diff"):
        continue  # the author delivered no change (meta.json says what was tried)
    meta = {}
    try:
        meta = json.load(open(d + "meta.json"))
    except Exception:
        pass
    log = open(d + "confirm.log").read() if os.path.exists(d + "confirm.log") else ""
    ex = dict(re.findall(r"(\w+_exit)=(\d*)", log))
    checks = []
    for f in sorted(glob.glob(d + "check-*.out")):
        c = os.path.basename(f)[6:-4]
        out = open(f).read()
        v = len(re.findall(r"^VIOLATION", out, re.M))
        nf = out.count("no-failing-input-found")
        checks.append((c, ex.get("check_%s_exit" % c, "?"), v, nf))
    caught = [c for c, e, v, nf in checks if e == "1"]
    conc = [c for c, e, v, nf in checks if e == "1" and v > nf]
    meta["coordinator_ran"] = {
        "script": "tools/seeded_try.sh %s %s %s" % (name.split("-")[0], name.split("-")[1], " ".join(c for c, _, _, _ in checks)),
        "demo_on_clean_tree_exit": ex.get("demo_clean_exit"), "lib_tests_with_change_exit": ex.get("lib_tests_exit"),
        "demo_with_change_exit": ex.get("demo_mut_exit"),
        "checks": [{"check": c, "exit": e, "violations": v, "without_failing_input": nf} for c, e, v, nf in checks],
    }
    if meta.get("property"):
        json.dump(meta, open(d + "meta.json", "w"), indent=1)
    summ = (meta.get("summary") or "").split(". ")[0][:150]
    rows.append("| %s | %s | %s | %s | %s |" % (
        name, summ.replace("|", "/"),
        "ok" if (ex.get("demo_clean_exit") == "0" and ex.get("lib_tests_exit") == "0" and ex.get("demo_mut_exit") not in ("0", None)) else "NOT CONFIRMED",
        ", ".join(caught) or "**missed**", ", ".join(conc) or ("-" if not caught else "tie only (no-failing-input-found)")))
print("| change | what it does (first sentence of the author's summary) | confirmed (demo passes clean / fails changed, lib tests pass) | caught by | with a concrete failing input |")
print("|---|---|---|---|---|")
print("\n".join(rows))
