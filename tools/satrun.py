"""Shared run of the `sat` engine (harness) piped through the extracted Coq oracle/model
(ocaml/driver). Used by C01, C02 (and later C09, C17). Cached per (harness binary, driver
binary, seed, size): identical binaries and arguments give identical output."""
import hashlib, json, os, re, subprocess
import vlib

DRIVER = os.path.join(vlib.VERIF, "ocaml", "driver")


def build_driver():
    with vlib.Lock("ocaml"):
        p = vlib.sh(["./build.sh"], cwd=os.path.join(vlib.VERIF, "ocaml"), timeout=1200, stack_unlimited=True)
        if p.returncode != 0 or not os.path.exists(DRIVER):
            raise RuntimeError("extraction / driver build failed: " + (p.stderr or p.stdout)[-3000:])


def _h(path):
    return hashlib.sha256(open(path, "rb").read()).hexdigest()[:16]


def run(seed, n, flags=""):
    hbin = vlib.build_harness()
    build_driver()
    key = "%s-%s-%d-%d%s" % (_h(hbin), _h(DRIVER), seed, n, flags.replace(" ", ""))
    cache = os.path.join(vlib.WORK, "satrun-%s.json" % key)
    if os.path.exists(cache):
        return json.load(open(cache))
    cmd = "set -o pipefail; %s sat %d %d 2>/dev/null | %s %s" % (hbin, seed, n, DRIVER, flags)
    p = vlib.sh(cmd, timeout=3000)
    if p.returncode != 0:
        raise RuntimeError("sat run failed: " + p.stderr[-2000:])
    res = {"bad": {"C01": [], "C02": [], "C03": [], "C17": []}, "diff": [], "panic": [], "summary": {}, "hist": {}}
    for line in p.stdout.splitlines():
        if line.startswith("BAD "):
            pid = line.split()[1]
            res["bad"].setdefault(pid, []).append(parse_kv(line))
        elif line.startswith("DIFF "):
            res["diff"].append(parse_kv(line))
        elif line.startswith("PANIC"):
            res["panic"].append(parse_kv(line))
        elif line.startswith("SUMMARY"):
            res["summary"] = {k: int(v) for k, v in re.findall(r"(\w+)=(\d+)", line)}
        elif line.startswith("HIST "):
            _, k, v = line.split()
            res["hist"][k] = int(v)
    if not res["summary"] or "ENDSAT" not in p.stdout:
        raise RuntimeError("driver produced no summary: " + p.stdout[-2000:] + p.stderr[-2000:])
    for k in ("bad", "diff", "panic"):
        pass
    os.makedirs(vlib.WORK, exist_ok=True)
    json.dump(res, open(cache, "w"))
    return res


def parse_kv(line):
    d = {"line": line[:4000]}
    for m in re.finditer(r"(\w+)=(\S+)", line):
        d[m.group(1)] = m.group(2)[:24000]
    # ms= may contain spaces: take everything between ' ms=' and ' wit='
    m = re.search(r" ms=(.*?) wit=", line)
    if m:
        d["ms"] = m.group(1)
    return d


def sizes(tier):
    return 40000 if tier == "thorough" else 3000
