"""C16 — descriptors map to the standard output scripts, addresses and derived keys (DESIGN 5/C16).

Proof:  coq/Properties/C16.v over the model coq/Ms/DescWrapModel.v (abstract hashes / BIP32).
Oracle: harness engine `desc` judges the implementation's own outputs against an independent
        computation with rust-bitcoin primitives (own BIP32 derivation + textual substitution,
        own script assembly, ScriptBuf::new_p2*, Address::from_script, all key orderings).
Tie:    the byte-level facts of the run are replayed on the model inside Coq
        (coq/Tables/DescCasesCheck.v: desc_cases_match_model) with the abstract functions
        instantiated by the harness's finite tables.
On-break: an implementation/oracle disagreement is a property violation whose replay holds the
        descriptor string and the index; a model/implementation disagreement without an
        oracle disagreement is reported as a broken correspondence (no-failing-input-found)."""
import ast, json, os, re
from concurrent.futures import ThreadPoolExecutor
import vlib

LEVEL = "proof"
PID = "C16"
GEN = ["DescPoolGen", "DescTablesGen", "DescScriptCasesGen", "DescKeyCasesGen", "DescSplitCasesGen"]
MASKS = {
    "scripts": {1: "script_pubkey", 2: "explicit_script", 4: "unsigned_script_sig", 8: "script_code"},
    "keys": {1: "keys of at_derivation_index", 2: "script_pubkey of the derived descriptor", 4: "error class",
             8: "error but a script was observed", 16: "ok/error disagreement"},
    "splits": {1: "keys of into_single_descriptors", 4: "error class", 16: "ok/error disagreement"},
    "finds": {1: "index found", 2: "found / not found"},
    "parses": {1: "parsed key", 2: "print(parse text) differs from the text", 4: "error kind", 16: "accepted / rejected disagreement"},
}


def parse_records(text):
    viol, counters, hist, samples, cases = [], {}, {}, [], {}
    for line in text.splitlines():
        f = line.split("\t")
        if f[0] == "V" and len(f) >= 3:
            viol.append((f[1], json.loads(f[2])))
        elif f[0] == "N" and len(f) >= 3:
            counters[f[1]] = int(f[2])
        elif f[0] == "H" and len(f) >= 4:
            hist.setdefault(f[1], {})[f[2]] = int(f[3])
        elif f[0] == "S" and len(f) >= 2:
            samples.append(json.loads(f[1]))
        elif f[0] == "C" and len(f) >= 3:
            cases[int(f[1])] = f[2]
    return viol, counters, hist, samples, cases


def coq_lists(text):
    """Parse the 4-tuple of (id, mask) lists printed by DescCasesDiag.v."""
    m = re.search(r"=\s*(\(.*\))\s*:\s*list", text, flags=re.S)
    if not m:
        return None
    s = re.sub(r"%N", "", m.group(1)).replace(";", ",")
    s = re.sub(r"\s+", " ", s)
    return ast.literal_eval(s)


def coq_tie(rep, only):
    """Compile the generated files (in parallel where independent) and the static check."""
    if True:
        for f in ["Tables/DescCasesDefs.v", "Tables/DescPoolGen.v"]:
            p = vlib.coqc(f)
            if p.returncode != 0:
                return False, None, "%s does not compile: %s" % (f, (p.stderr or p.stdout)[-1500:])
        with ThreadPoolExecutor(max_workers=4) as ex:
            res = list(ex.map(lambda g: (g, vlib.coqc("Tables/%s.v" % g)), GEN[1:]))
        for g, p in res:
            if p.returncode != 0:
                return False, None, "Tables/%s.v does not compile: %s" % (g, (p.stderr or p.stdout)[-1500:])
        p = vlib.coqc("Tables/DescCasesRun.v")
        if p.returncode != 0:
            return False, None, "Tables/DescCasesRun.v does not compile: " + (p.stderr or p.stdout)[-1500:]
        c = vlib.coqc("Tables/DescCasesCheck.v")
        if c.returncode == 0:
            return True, None, ""
        d = vlib.coqc("Tables/DescCasesDiag.v", timeout=1800)
        lists = coq_lists(d.stdout) if d.returncode == 0 else None
        return False, lists, (c.stderr or c.stdout)[-800:]


def run(rep, tier, seed, replay):
    hbin = vlib.build_harness()
    ok, thms = vlib.proof_gates(rep, PID)
    tdir = os.path.join(vlib.COQ, "Tables")
    args = [hbin, "desc", str(seed), tdir]
    only = None
    if replay:
        r = json.load(open(replay))
        only = r.get("case_id")
        if r.get("seed") is not None:
            seed = int(r["seed"])
            args[2] = str(seed)
        if only is not None:
            args += ["--only", str(only)]
    # the generated files live in coq/Tables: one run at a time
    with vlib.Lock("c16-tables"):
        p = vlib.sh(args, env={"VERIF_TIER": tier}, timeout=3000)
        if p.returncode != 0:
            raise RuntimeError("desc engine failed: " + (p.stderr or p.stdout)[-2000:])
        tie_ok, lists, err = coq_tie(rep, only)
    viol, counters, hist, samples, cases = parse_records(p.stdout)
    flagged = set()
    for key, obj in viol:
        obj["seed"] = seed
        obj["tier"] = tier
        obj["replay_cmd"] = "python3 tools/check.py C16 --replay <this file>"
        flagged.add(obj.get("case_id"))
        rep.violation(key, "%s [descriptor %s index %s]" % (obj.get("what"), obj.get("descriptor"), obj.get("index")), obj, True)

    n_tie_diff = 0
    if not tie_ok:
        if lists is None:
            rep.violation("tie-broken", "desc_cases_match_model fails and the diagnosis did not run: " + err,
                          {"property": PID, "broken_tie": "coq/Tables/DescCasesCheck.v: desc_cases_match_model", "log": err}, False)
        else:
            for kind, lst in zip(("scripts", "keys", "splits", "finds", "parses"), lists):
                for (cid, mask) in lst:
                    n_tie_diff += 1
                    case_id = cid // 1000 if kind == "scripts" else cid
                    comps = [n for b, n in MASKS[kind].items() if mask & b]
                    if case_id in flagged:
                        continue  # the oracle already judged this input: reported above with found_input
                    # on-break: the oracle saw nothing wrong on this input -> model and code drifted apart
                    rep.violation("tie:%s" % kind,
                                  "model and implementation differ on case %d (%s) although the oracle accepts the implementation's answer"
                                  % (case_id, ", ".join(comps)),
                                  {"property": PID, "broken_tie": "desc_cases_match_model (coq/Tables/DescCasesCheck.v)",
                                   "kind": kind, "case_id": case_id, "seed": seed, "components": comps,
                                   "descriptor": cases.get(case_id)}, False)
            if not any(lists):
                rep.violation("tie-broken", "desc_cases_match_model fails: " + err,
                              {"property": PID, "broken_tie": "desc_cases_match_model", "log": err}, False)

    judged = counters.get("definite_descriptors_judged", 0)
    hist["network"] = {n: judged for n in ("bitcoin", "testnet", "testnet4", "signet", "regtest")}
    obligations = len(thms) + 1
    discharged = (len(thms) if ok else 0) + (1 if tie_ok else 0)
    coq_cases = sum(counters.get(k, 0) for k in ("coq_script_cases", "coq_key_cases", "coq_split_cases", "coq_find_cases", "coq_parse_cases"))
    rep.coverage.update({
        "obligations": obligations, "discharged": discharged,
        "checker_cmd": "make -C coq ; coqc Properties/C16.v ; verif-harness desc <seed> coq/Tables ; "
                       "coqc Tables/Desc{Pool,Tables,ScriptCases,KeyCases,SplitCases}Gen.v Tables/DescCasesRun.v Tables/DescCasesCheck.v",
        "trusted_base": vlib.TRUSTED_BASE_COMMON + [
            "SHA-256, RIPEMD-160, the BIP341 Merkle root and tweak, BIP32 CKD, base58/bech32: abstract in the theorems, "
            "supplied as finite tables by rust-bitcoin/secp256k1 in the run",
            "Uint63 primitive integers (packing of byte strings in the generated files, evaluated by vm_compute)",
            "the harness's own script assembly for the oracle (bitcoin::script::Builder, ScriptBuf::new_p2*, TaprootBuilder)"],
        "rule": "cases = 8 corner cases + seeded descriptors cycling through the 8 output types (bare, pkh, wpkh, sh, sh-wsh, sh-wpkh, wsh, tr) "
                "x key forms (single compressed/uncompressed/x-only, with origin, xpub with path / wildcard / hardened step / hardened wildcard, "
                "multipath 2-4 alternatives, xprv through parse_descriptor, mismatching tuple lengths, different xpubs sharing one origin text incl. the all-zero placeholder) x indices {0,1,2^31-1,random,>=2^31} x 5 networks; "
                "every sortedmulti / sortedmulti_a with <= 5 keys under all listing orders; find_derivation_index_for_spk over 0..8 and over "
                "ranges starting at 1, 3, 50, 2^31-5 (length 1/4/9, target first/last/inside/below/above)",
        "evaluations": judged + counters.get("derivations", 0) + counters.get("sortedmulti_orderings", 0)
                       + counters.get("split_alternatives_compared", 0) + counters.get("find_index_queries", 0)
                       + counters.get("find_index_range_queries", 0) + counters.get("history_rederivations", 0),
        "distinct_nontrivial": counters.get("cases", 0),
        "cases_replayed_on_model_in_coq": coq_cases,
        "tie_differences": n_tie_diff,
        "counters": counters,
        "histograms": hist,
        "samples": samples[:25],
    })
    rep.assumptions = [
        "hash160/sha256 outputs have 20/32 bytes (hypotheses of the template theorems; true of the real functions)",
        "keys listed in one sortedmulti have pairwise different sort keys unless they are equal (hypothesis of C16_sortedmulti_perm; "
        "its failure for a point listed compressed and uncompressed is the recorded finding)",
        "the encoder of miniscript fragments other than pk/pkh/multi/sortedmulti/multi_a/sortedmulti_a is C04's subject (MsOther)",
        "addresses: the model does not contain base58/bech32; address = Address::from_script(script_pubkey, network) is checked in the harness only",
    ]
