"""C09 — static size and resource figures are true upper bounds (DESIGN 5/C09).
Proof side: Properties/C09.v (Proofs/ExtProofs.v over the model Ms/ExtModel.v of extra_props.rs,
script_size, descriptor weight formulas, Plan accounting).
Tie: `ext` engine. (i) every public ExtData::* rule on seeded random plain data, (ii) ms.ext /
script_size / max_satisfaction_* / max_weight_to_satisfy / Plan sizes on generated miniscripts and
descriptors — recorded in Tables/ExtCasesGen.v and compared with the model INSIDE Coq
(Tables/ExtCasesCheck.v, vm_compute).
Oracle: for every satisfaction / completed plan the implementation produces, the sizes MEASURED on
the raw bytes (harness, no miniscript code) must not exceed the implementation's own figures;
script_size == encode().len(); accepted scripts stay within their context's limits.
An undershoot is classified with the model: the kernel evaluates the figure under all 16 settings of
the four rule switches; if the rule set of the code as written (15) covers the measurement the
implementation is below its own model (key ...:implementation-below-model), otherwise ...:unexplained.
The remaining known findings are the three Plan accounting ones (keys computed from the numbers)."""
import collections, hashlib, json, os, re
import vlib

LEVEL = "proof"
CTX = {"bare": "CBare", "legacy": "CLegacy", "segwitv0": "CSegwit", "tap": "CTap"}
FIXNAMES = ["thresh", "dupif", "unc", "andv"]
AS_WRITTEN_MASK = 15
UN = ["cast_alt", "cast_swap", "cast_check", "cast_dupif", "cast_verify", "cast_nonzero", "cast_zeronotequal",
      "cast_true", "cast_unlikely", "cast_likely"]
BIN = ["and_b", "and_v", "or_b", "or_d", "or_c", "or_i"]
CONST = ["FALSE", "TRUE", "sha256", "hash256", "ripemd160", "hash160"]
FRAGS = {"pk_k", "pk_h", "raw_pk_h", "after", "older", "sha256", "hash256", "ripemd160", "hash160", "a", "s", "c", "d", "v", "j", "n",
         "and_v", "and_b", "andor", "or_b", "or_d", "or_c", "or_i", "thresh", "multi", "sortedmulti", "multi_a", "sortedmulti_a"}


def sizes(tier):
    return (4000, 8000, 2000) if tier == "thorough" else (500, 1200, 200)


# ------------------------------------------------------------------ text -> Coq terms
def sd_coq(t):
    if t == "N":
        return "None"
    return "(S %s)" % " ".join(t.split(":")[1:])


def ext_coq(tok):
    pk, fv, ops, sat, dis, tl, h = tok
    return "(E %s %s %s %s %s (T %s) %s)" % (pk, "true" if fv == "1" else "false", ops, sd_coq(sat), sd_coq(dis),
                                             " ".join("true" if c == "1" else "false" for c in tl), h)


def xout_coq(tok):
    if tok[0] == "PANIC":
        return "XPanic"
    return "(XOk %s)" % ext_coq(tok)


def b(x):
    return "true" if x else "false"


def ms_coq(toks):
    """prefix-token dump (harness/src/ast.rs dump_str) -> Gallina term of type ms"""
    pos = [0]

    def nxt():
        pos[0] += 1
        return toks[pos[0] - 1]

    def keys(n):
        return "[" + ";".join(nxt() for _ in range(n)) + "]"

    def go():
        t = nxt()
        if t == "1": return "MTrue"
        if t == "0": return "MFalse"
        if t == "pk_k": return "(MPkK %s)" % nxt()
        if t == "pk_h": return "(MPkH %s)" % nxt()
        if t == "raw_pk_h": nxt(); return "(MRawPkH H20)"
        if t == "after": return "(MAfter %s)" % nxt()
        if t == "older": return "(MOlder %s)" % nxt()
        if t == "sha256": nxt(); return "(MSha256 H32)"
        if t == "hash256": nxt(); return "(MHash256 H32)"
        if t == "ripemd160": nxt(); return "(MRipemd160 H20)"
        if t == "hash160": nxt(); return "(MHash160 H20)"
        un = {"a": "MAlt", "s": "MSwap", "c": "MCheck", "d": "MDupIf", "v": "MVerify", "j": "MNonZero", "n": "MZeroNotEqual"}
        if t in un: return "(%s %s)" % (un[t], go())
        bi = {"and_v": "MAndV", "and_b": "MAndB", "or_b": "MOrB", "or_d": "MOrD", "or_c": "MOrC", "or_i": "MOrI"}
        if t in bi:
            x = go(); y = go()
            return "(%s %s %s)" % (bi[t], x, y)
        if t == "andor":
            x = go(); y = go(); z = go()
            return "(MAndOr %s %s %s)" % (x, y, z)
        if t == "thresh":
            k = nxt(); n = int(nxt())
            return "(MThresh %s [%s])" % (k, ";".join(go() for _ in range(n)))
        mk = {"multi": "MMulti", "sortedmulti": "MSortedMulti", "multi_a": "MMultiA", "sortedmulti_a": "MSortedMultiA"}
        if t in mk:
            k = nxt(); n = int(nxt())
            return "(%s %s %s)" % (mk[t], k, keys(n))
        raise ValueError("bad token %r" % t)

    r = go()
    if pos[0] != len(toks):
        raise ValueError("trailing tokens")
    return r


def rule_coq(t):
    """one R line (tokens after 'R') -> (rcall term, xout term, description)"""
    i = t.index("=>")
    name, args, res = t[0], t[1:i], t[i + 1:]
    if name == "const":
        call = "(RConst %d)" % CONST.index(args[0])
    elif name in ("pk_k", "pk_h"):
        ctx, ki, kt = args
        schn = ctx == "tap"
        unc = (ki != "-") and int(ki) >= 6 and kt == "0"
        call = "(%s %s %s)" % ("RPkK" if name == "pk_k" else "RPkH", b(schn), b(unc))
        if name == "pk_h" and ki == "-":
            call = "(RPkHNone %s)" % b(schn)
    elif name == "after":
        call = "(RAfter %s)" % args[0]
    elif name == "older":
        call = "(ROlder %s)" % args[0]
    elif name in ("multi", "sortedmulti"):
        call = "(RMulti %s [%s])" % (args[0], ";".join(b(int(x) >= 6) for x in args[2:]))
    elif name in ("multi_a", "sortedmulti_a"):
        call = "(RMultiA %s %s)" % (args[0], args[1])
    elif name in UN:
        call = "(RUn %d %s)" % (UN.index(name), ext_coq(args[0:7]))
    elif name in BIN:
        call = "(RBin %d %s %s)" % (BIN.index(name), ext_coq(args[0:7]), ext_coq(args[7:14]))
    elif name == "and_or":
        call = "(RAndOr %s %s %s)" % (ext_coq(args[0:7]), ext_coq(args[7:14]), ext_coq(args[14:21]))
    elif name == "threshold":
        k, n = args[0], int(args[1])
        call = "(RThresh %s [%s])" % (k, ";".join(ext_coq(args[2 + 7 * j: 9 + 7 * j]) for j in range(n)))
    else:
        raise ValueError("unknown rule " + name)
    return call, xout_coq(res), name


def opt_coq(x):
    return "None" if x in ("-", None, "ERR") else "(Some %s)" % x


def chunked(name, ty, items, size=400):
    out, parts = [], []
    for i in range(0, max(len(items), 1), size):
        pn = "%s_%d" % (name, i // size)
        parts.append(pn)
        out.append("Definition %s : list %s := [\n%s].\n" % (pn, ty, ";\n".join(items[i:i + size])))
    out.append("Definition %s : list %s := %s.\n" % (name, ty, " ++ ".join(parts)))
    return "".join(out)


# ------------------------------------------------------------------ parsing the engine's output
KEYONLY_SKIPPED = [0]
LIMIT_LINES = []   # V lines of the last parse (limit verdicts on directed near-limit scripts)
DEPTH_LINES = []   # H lines: recursion-depth checks on n: chains
KEYONLY = []       # D blocks of pkh / wpkh / sh(wpkh) descriptors (no miniscript; constant formulas)
KEYONLY_REJECTED = []   # K lines: key-only constructors that refused the key
RAWPKH = []        # Q lines: decoded scripts with a raw key hash, satisfied through a resolving satisfier
KOKIND = {"pkh": "KPkh", "wpkh": "KWpkh", "shwpkh": "KShWpkh"}
VERDICT = {"ok": 0, "size": 1, "witems": 2, "ops": 3, "stack": 4}


def parse(text):
    R, T, D, X, Y = [], [], [], [], []
    V = LIMIT_LINES
    del V[:]
    del DEPTH_LINES[:], KEYONLY[:], KEYONLY_REJECTED[:], RAWPKH[:]
    cur = None
    for line in text.splitlines():
        t = line.split()
        if not t:
            continue
        if t[0] == "R":
            R.append(t[1:])
        elif t[0] == "T":
            p = [x.strip() for x in line.split("|")]
            h = p[0].split()
            rec = {"ctx": h[1], "origin": h[2], "dump": p[1], "panic": p[2] == "PANIC"}
            if not rec["panic"]:
                rec["ext"] = p[2].split()
                f = p[3].split()
                rec.update(ss=int(f[0]), enc=int(f[1]), mss=f[2], mse=f[3], flags=dict(x.split("=") for x in f[4:]))
            T.append(rec)
        elif t[0] == "D":
            m = re.match(r"D (\d+) (\S+) sane=(\d) mw=(\S+) desc=(.*)$", line)
            cur = {"id": int(m.group(1)), "kind": m.group(2), "sane": m.group(3) == "1", "mw": m.group(4), "desc": m.group(5),
                   "leaves": [], "S": [], "P": []}
            # key-only descriptors (pkh / wpkh / sh(wpkh)) carry no miniscript: outside the ExtData model
            if cur["kind"] in ("pkh", "wpkh", "shwpkh"):
                KEYONLY.append(cur)
            else:
                D.append(cur)
        elif t[0] == "W":
            f = dict(x.split("=") for x in t[1:])
            cur["msw"], cur["unc"] = f["msw"], f["unc"] == "1"
        elif t[0] == "K":
            KEYONLY_REJECTED.append({"kind": t[2], "unc": t[3] == "unc=1"})
        elif t[0] == "H":
            rec = {"level": int(t[2]), "status": t[3].split(":")[0], "cls": t[3], "height": None, "lims": []}
            for x in t[4:]:
                k, v = x.split("=")
                if k == "height":
                    rec["height"] = int(v)
                else:
                    l, r = v.split(":")
                    rec["lims"].append((int(l), r))
            DEPTH_LINES.append(rec)
        elif t[0] == "Q":
            p = [x.strip() for x in line.split("|")]
            h = p[0].split()
            rec = {"ctx": h[1], "shape": h[2], "key": h[3].split("=")[1], "status": h[4] if len(h) > 4 else "DECODED"}
            if len(p) > 3:
                f = dict(x.split("=") for x in p[3].split())
                rec.update(dump=p[1], ext=p[2].split(), raw=int(f["raw"]), ss=int(f["ss"]), enc=int(f["enc"]), mss=f["mss"], mse=f["mse"],
                           sat=f["status"], n=int(f.get("n", 0)), wsize=int(f.get("wsize", 0)), ssig=int(f.get("ssig", 0)))
                # the decoded object's figures are tied like every other script's
                T.append({"ctx": rec["ctx"], "origin": "rawpkh", "dump": rec["dump"], "panic": False, "ext": rec["ext"],
                          "ss": rec["ss"], "enc": rec["enc"], "mss": rec["mss"], "mse": rec["mse"], "flags": {}})
            RAWPKH.append(rec)
        elif t[0] == "L":
            p = [x.strip() for x in line.split("|")]
            h = p[0].split()
            cur["leaves"].append({"depth": int(h[2].split("=")[1]), "ctx": h[3].split("=")[1], "dump": p[1], "ext": p[2].split(), "ss": int(p[3])})
        elif t[0] in ("S", "P"):
            rec = {"mode": t[1], "km": int(t[2]), "pm": int(t[3]), "status": t[4]}
            for x in t[5:]:
                k, v = x.split("=")
                rec[k] = v if k == "sizes" else int(v)
            cur[t[0]].append(rec)
        elif t[0] == "X":
            X.append(line)
        elif t[0] == "V":
            p = [x.strip() for x in line.split("|")]
            h = p[0].split()
            f = dict(x.split("=", 1) for x in p[2].split())
            V.append({"ctx": h[1], "origin": h[2], "dump": p[1], "verdict": f["verdict"], "within": f["within"]})
        elif t[0] == "Y":
            p = [x.strip() for x in line.split("|")]
            h = p[0].split()
            Y.append({"ctx": h[1], "origin": h[2], "ms": p[1], "same": p[2] == "same=1", "translated_ext": p[3], "rebuilt_ext": p[4]})
    return R, T, D, X, Y


def sat_of(ext):
    return None if ext[3] == "N" else [int(x) for x in ext[3].split(":")[1:]]  # wsize wcount ssig estack eops


def dshape_coq(d):
    if d["kind"] == "tr":
        return "(DTr [%s])" % ";".join("(%d, %s)" % (l["depth"], ms_coq(l["dump"].split())) for l in d["leaves"])
    dk = {"bare": "DBare", "sh": "DSh", "wsh": "DWsh", "shwsh": "DShWsh"}[d["kind"]]
    l = d["leaves"][0]
    return "(DSingle %s %s %s)" % (dk, CTX[l["ctx"]], ms_coq(l["dump"].split()))


PLAN_KIND = {"bare": "PLegacy", "sh": "PLegacy", "wsh": "PSegwitNative", "shwsh": "PShWsh", "tr": "PTaproot"}


def gen_file(R, T, D):
    rules = [rule_coq(t) for t in R]
    s = ["(* GENERATED by tools/props/c09.py from `verif-harness ext`; do not edit. *)\n",
         "From Verif Require Import ExtCasesDefs.\nLocal Open Scope N_scope.\n"]
    s.append(chunked("rule_cases", "(rcall * xout)", ["(%s, %s)" % (c, o) for c, o, _ in rules]))
    tl = []
    for t in T:
        if t["panic"]:
            continue
        tl.append("mkT %s %s %s %d %d %s %s" % (CTX[t["ctx"]], ms_coq(t["dump"].split()), ext_coq(t["ext"]), t["ss"], t["enc"],
                                                 opt_coq(t["mss"]), opt_coq(t["mse"])))
    s.append(chunked("tree_cases", "tcase", tl))
    seen, dl = set(), []
    for d in D:
        if d["desc"] in seen or d["mw"] == "PANIC":
            continue
        seen.add(d["desc"])
        dl.append("(%s, %s)" % (dshape_coq(d), opt_coq(d["mw"])))
    s.append(chunked("desc_cases", "(dshape * option N)", dl))
    pseen, pl = set(), []
    for d in D:
        for p in d["P"]:
            if p["status"] not in ("OK", "INCOMPLETE"):
                continue
            key = (PLAN_KIND[d["kind"]], p["sizes"], p["ann_w"], p["ann_s"], p["ann_sw"])
            if key in pseen:
                continue
            pseen.add(key)
            sz = "[]" if p["sizes"] == "-" else "[" + ";".join(p["sizes"].split(",")) + "]"
            pl.append("(%s, %s, (%d, %d, %d))" % (key[0], sz, p["ann_w"], p["ann_s"], p["ann_sw"]))
    s.append(chunked("plan_cases", "(plan_kind * list N * (N * N * N))", pl))
    vl = ["mkV %s %s %d %s" % (CTX[v["ctx"]], ms_coq(v["dump"].split()), VERDICT.get(v["verdict"], 9), b(v["within"] == "1")) for v in LIMIT_LINES]
    s.append(chunked("limit_cases", "vcase", vl, 8))
    hl = []
    for h in DEPTH_LINES:
        acc = "(Some %d)" % h["height"] if h["status"] == "accepted" and h["height"] is not None else "None"
        hl.append("(%d, %s, [%s])" % (h["level"], acc, ";".join("(%d, %s)" % (l, b(r == "ok")) for l, r in h["lims"])))
    s.append(chunked("depth_cases", "hcase", hl, 8))
    kseen, kl = set(), []
    for d in KEYONLY:
        key = (d["kind"], d.get("unc", False), d["mw"], d.get("msw"))
        if key in kseen or not str(d["mw"]).isdigit() or not str(d.get("msw")).isdigit():
            continue
        kseen.add(key)
        kl.append("(%s, %s, %s, %s)" % (KOKIND[d["kind"]], b(d.get("unc", False)), d["mw"], d["msw"]))
    s.append(chunked("keyonly_cases", "kcase", kl))
    return "".join(s), rules, len(tl), len(dl), len(pl)


def coq_lists(text):
    """parse `= [...] : list ...` outputs of Eval vm_compute into nested python lists of ints (loosely)"""
    outs = []
    for m in re.finditer(r"=\s*(\[.*?\])\s*:\s*list", text, flags=re.S):
        outs.append(m.group(1))
    return outs


def varint(n):
    return 1 if n < 253 else 3 if n <= 0xffff else 5 if n <= 0xffffffff else 9


# ------------------------------------------------------------------ the oracle
def judge(D, T):
    """returns (undershoots needing model attribution, directly keyed violations, stats)"""
    need_attr, direct = [], []
    st = collections.Counter()
    for t in T:
        if t["panic"]:
            direct.append(("panic:figures", "script_size/encode/max_satisfaction_* panicked on %s [%s]" % (t["dump"], t["ctx"]),
                           {"ctx": t["ctx"], "ms": t["dump"], "failed_clause": "figure functions do not panic"}))
            continue
        st["trees"] += 1
        if t["ss"] != t["enc"]:
            direct.append(("script-size", "script_size() = %d but encode().len() = %d for %s [%s]" % (t["ss"], t["enc"], t["dump"], t["ctx"]),
                           {"ctx": t["ctx"], "ms": t["dump"], "script_size": t["ss"], "encoded_len": t["enc"],
                            "failed_clause": "script_size == encode().len()"}))
        if int(t["ext"][0]) < t["enc"]:
            need_attr.append({"what": "pk_cost", "field": 3, "ctx": t["ctx"], "ms": t["dump"], "figure": int(t["ext"][0]), "measured": t["enc"],
                              "shape": None, "input": {"ctx": t["ctx"], "ms": t["dump"]}})
        # limits the library declared respected (from_ast succeeded => global consensus+policy checks passed)
        lim = {"legacy": 520, "bare": 10000, "segwitv0": 3600, "tap": 4000000}[t["ctx"]]
        if t["enc"] > lim:
            rec = {"what": "script-size-limit", "field": 3, "ctx": t["ctx"], "ms": t["dump"], "figure": int(t["ext"][0]), "measured": t["enc"],
                   "shape": None, "input": {"ctx": t["ctx"], "ms": t["dump"], "limit": lim, "encoded_len": t["enc"]}}
            need_attr.append(rec)
            st["over-limit-accepted"] += 1
    for d in D:
        st["descs/" + d["kind"]] += 1
        for s in d["S"]:
            if s["status"] == "PANIC":
                direct.append(("panic:satisfy", "get_satisfaction panicked: %s" % d["desc"], {"desc": d["desc"], "run": s}))
                continue
            if s["status"] == "UNPARSED":
                direct.append(("unparsed", "could not locate the miniscript items in the returned satisfaction: %s" % d["desc"], {"desc": d["desc"], "run": s}))
                continue
            if s["status"] != "OK":
                st["sat/err"] += 1
                continue
            st["sat/ok/%s/%s" % (d["kind"], s["mode"])] += 1
            base = {"desc": d["desc"], "kind": d["kind"], "mode": s["mode"], "keymask": s["km"], "premask": s["pm"], "measured_run": s}
            if s["leaf"] >= 0:
                leaf = d["leaves"][s["leaf"]]
                sat = sat_of(leaf["ext"])
                legacy = d["kind"] in ("sh", "bare")
                checks = [(0, "witness element count", s["n_inner"], None if sat is None else sat[1])]
                if legacy:
                    checks.append((2, "scriptSig size", s["inner_ssig"], None if sat is None else sat[2]))
                else:
                    checks.append((1, "witness size", s["inner_wsize"], None if sat is None else sat[0]))
                for field, nm, meas, fig in checks:
                    st["compared"] += 1
                    if fig is None or meas > fig:
                        need_attr.append({"what": nm, "field": field, "ctx": leaf["ctx"], "ms": leaf["dump"], "figure": fig, "measured": meas,
                                          "shape": None, "input": dict(base, ms=leaf["dump"], figure=fig, measured=meas, quantity=nm)})
                    st["slack/%s/%s" % (nm.split()[0], "0" if fig == meas else "1-9" if fig is not None and fig - meas < 10 else "10+")] += 1
            st["compared"] += 1
            mw = None if d["mw"] in ("ERR", "PANIC") else int(d["mw"])
            if mw is None or s["weight"] > mw:
                need_attr.append({"what": "max_weight_to_satisfy", "field": None, "shape": dshape_coq(d), "figure": mw, "measured": s["weight"],
                                  "input": dict(base, figure=mw, measured=s["weight"], quantity="max_weight_to_satisfy")})
        sat_by = {(s["mode"], s["km"], s["pm"]): s for s in d["S"] if s["status"] == "OK"}
        for p in d["P"]:
            if p["status"] == "PANIC":
                direct.append(("panic:plan", "plan panicked: %s" % d["desc"], {"desc": d["desc"], "run": p}))
            if p["status"] != "OK":
                continue
            st["plan/ok/%s" % d["kind"]] += 1
            base = {"desc": d["desc"], "kind": d["kind"], "mode": p["mode"], "keymask": p["km"], "premask": p["pm"], "plan_run": p}
            if not p["item_ok"]:
                direct.append(("plan:item-size", "a completed template item is larger than its announced ItemSize: %s" % d["desc"], base))
            n = 0 if p["sizes"] == "-" else len(p["sizes"].split(","))
            sc = d["leaves"][0]["ss"] if d["kind"] in ("wsh", "shwsh", "sh") else 0
            # the real sizes: of the completed plan, and of the satisfaction the library returns for the same assets
            s = sat_by.get((p["mode"], p["km"], p["pm"]))
            real_w = max(p["real_w"], s["wit_ser"] if s else 0)
            real_s = max(p["real_s"], (varint(s["ssig_len"]) + s["ssig_len"]) if s else 0)
            st["compared"] += 2
            if real_w > p["ann_w"]:
                key = "plan:witness"
                if d["kind"] in ("wsh", "shwsh") and real_w - (varint(sc) + sc) - (varint(n + 1) - varint(n)) <= p["ann_w"]:
                    key = "plan:omits-script"
                direct.append((key, "Plan::witness_size %d < real witness %d (%s)" % (p["ann_w"], real_w, d["desc"]),
                               dict(base, real_witness=real_w, failed_clause="Plan::witness_size >= serialized witness of the satisfaction")))
            if d["kind"] in ("sh", "bare"):
                # announced = item bytes + varint(item count); real = [items] [redeem script push] with varint(bytes)
                if real_s > p["ann_s"]:
                    items_bytes = p["ann_s"] - varint(n)
                    body = real_s - (3 if real_s > 255 else 1)
                    sc_push = (sc + (1 if sc < 76 else 2 if sc < 256 else 3)) if d["kind"] == "sh" else 0
                    if body - sc_push <= items_bytes:
                        key = "plan:omits-script" if sc_push else "plan:legacy-varint-of-count"
                    else:
                        key = "plan:scriptsig"
                    direct.append((key, "Plan::scriptsig_size %d < real scriptSig with prefix %d (%s)" % (p["ann_s"], real_s, d["desc"]),
                                   dict(base, real_scriptsig=real_s, failed_clause="Plan::scriptsig_size >= varint + scriptSig of the satisfaction")))
            elif real_s > p["ann_s"]:
                key = "plan:shwsh-scriptsig-push" if (d["kind"] == "shwsh" and real_s - p["ann_s"] == 1) else "plan:scriptsig"
                direct.append((key, "Plan::scriptsig_size %d < real scriptSig with prefix %d (%s)" % (p["ann_s"], real_s, d["desc"]),
                               dict(base, real_scriptsig=real_s, failed_clause="Plan::scriptsig_size >= varint + scriptSig of the satisfaction")))
            if p["real_sw"] > p["ann_sw"] and not (real_w > p["ann_w"] or real_s > p["ann_s"]):
                direct.append(("plan:weight", "Plan::satisfaction_weight %d < real %d (%s)" % (p["ann_sw"], p["real_sw"], d["desc"]), base))
    return need_attr, direct, st


def attribute(need_attr):
    """ask the kernel which subsets of the candidate repairs make the figure cover the measurement"""
    if not need_attr:
        return []
    uniq, idx = [], {}
    for a in need_attr:
        k = (a["field"], a.get("ctx"), a.get("ms"), a["shape"], a["measured"])
        if k not in idx:
            idx[k] = len(uniq)
            uniq.append(a)
        a["_u"] = idx[k]
    val = []
    for off in range(0, len(uniq), 300):
        chunk = uniq[off:off + 300]
        lines = ["From Verif Require Import ExtCasesDefs.\nLocal Open Scope N_scope.\n"]
        items = []
        for a in chunk:
            if a["shape"] is not None:
                items.append("attr_weight %s %d" % (a["shape"], a["measured"]))
            elif a["field"] == 3:
                items.append("filter (fun b => pk_cost (ext_of_gen (fixes_of_mask b) (cx %s) %s) =? %d) masks16" % (CTX[a["ctx"]], ms_coq(a["ms"].split()), a["measured"]))
            else:
                items.append("attr_ms %s %s %d %d" % (CTX[a["ctx"]], ms_coq(a["ms"].split()), a["field"], a["measured"]))
        lines.append("Definition answers : list (list N) := [\n%s].\n" % ";\n".join(items))
        lines.append("Eval vm_compute in answers.\n")
        path = os.path.join(vlib.COQ, "Tables", "ExtAttrGen.v")
        open(path, "w").write("".join(lines))
        p = vlib.coqc("Tables/ExtAttrGen.v")
        if p.returncode != 0:
            raise RuntimeError("attribution file does not compile: " + (p.stderr or p.stdout)[-1500:])
        m = re.search(r"=\s*(\[.*\])\s*:\s*list \(list N\)", p.stdout, flags=re.S)
        val += json.loads(re.sub(r"\s+", "", m.group(1)).replace(";", ","))
    res = []
    for a in need_attr:
        if a["_u"] >= len(val):
            continue
        masks = val[a["_u"]]
        # rule set 15 = all four switches on = the code as written (ExtModel.as_written)
        if AS_WRITTEN_MASK in masks:
            # the model of the code covers the measurement: the implementation's figure is below its model
            comps = ["undershoot:%s:implementation-below-model" % a["what"].replace(" ", "-")]
        else:
            comps = ["undershoot:%s:unexplained" % a["what"].replace(" ", "-")]
        res.append((a, comps, masks))
    return res


DRIVER_EXT = os.path.join(vlib.VERIF, "ocaml", "driver_ext")


def run_traces(hbin, seed, n, producer=None):
    """sat engine | extracted instrumented Script semantics: executed opcode count and stack depth
    of every satisfaction the implementation returns, compared with the library's figures"""
    with vlib.Lock("ocaml"):
        p = vlib.sh(["./build_ext.sh"], cwd=os.path.join(vlib.VERIF, "ocaml"), timeout=1200, stack_unlimited=True)
        if p.returncode != 0 or not os.path.exists(DRIVER_EXT):
            raise RuntimeError("extraction / driver_ext build failed: " + (p.stderr or p.stdout)[-3000:])
    p = vlib.sh("%s %s 2>/dev/null | %s" % (hbin, producer or ("sat %d %d" % (seed, n)), DRIVER_EXT), timeout=3000)
    if p.returncode != 0:
        raise RuntimeError("trace run failed: " + p.stderr[-2000:])
    bad, summary, hist = [], {}, {}
    for line in p.stdout.splitlines():
        if line.startswith("BAD C09"):
            head = line.split(" ms=")[0] if " ms=" in line else line.split(" desc=")[0]
            d = {k: v for k, v in re.findall(r"(\w+)=(\S+)", head)}
            d["desc"] = line.split(" desc=", 1)[1] if " desc=" in line else ""
            mm = re.search(r" ms=(.*?) desc=", line)
            d["ms"] = mm.group(1) if mm else None
            bad.append(d)
        elif line.startswith("SUMMARY"):
            summary = {k: int(v) for k, v in re.findall(r"(\w+)=(\d+)", line)}
        elif line.startswith("HIST "):
            _, k, v = line.split()
            hist[k] = int(v)
    if not summary:
        raise RuntimeError("driver_ext produced no summary: " + p.stdout[-1000:] + p.stderr[-1000:])
    return bad, summary, hist


def run_opsdir(hbin, stride=1):
    """directed stream (harness/src/ext_opsdir.rs): wsh scripts with a CHECKMULTISIG on a path that not every
    satisfaction takes, all asset subsets (<= 5 keys), both satisfier modes; every returned satisfaction is
    executed on the extracted exec_tr (driver_ext) and the measured executed-opcode count is compared with the
    library's static_ops + max_exec_op_count. Returns (undershoots with script/assets/witness, stats)."""
    p = vlib.sh([hbin, "opsdir", str(stride)], timeout=1200)
    if p.returncode != 0 or "DONE opsdir" not in p.stdout:
        raise RuntimeError("opsdir engine failed: " + (p.stderr or p.stdout)[-2000:])
    cases, runs, rejected, cur = {}, {}, [], None
    nruns = collections.Counter()
    for line in p.stdout.splitlines():
        if line.startswith("CASE "):
            cur = line.split()[1]
            cases[cur] = {"id": cur}
        elif line.startswith("DESC ") and cur:
            cases[cur]["desc"] = line[5:]
        elif line.startswith("OPSDIR ") and cur:
            m = re.match(r"OPSDIR shape=(\S+) keys=(\d+) text=(.*)$", line)
            cases[cur].update(shape=m.group(1), nkeys=int(m.group(2)), script=m.group(3))
        elif line.startswith("MS ") and cur:
            cases[cur]["ms"] = line[3:]
        elif line.startswith("SCRIPT ") and cur:
            cases[cur]["script_hex"] = line[7:]
        elif line.startswith("TX ") and cur:
            cases[cur]["tx"] = line[3:]
        elif line.startswith("RUN ") and cur:
            t = line.split()
            nruns[t[4]] += 1
            if t[4] == "OK":
                n = int(t[5])
                runs[(cur, t[1], t[2], t[3])] = t[6:6 + n]
        elif line.startswith("X"):
            rejected.append(line)
    env = dict(os.environ, VERIF_OPS_LINES="1")
    import subprocess
    d = subprocess.run([DRIVER_EXT], input=p.stdout, stdout=subprocess.PIPE, stderr=subprocess.PIPE, universal_newlines=True, env=env, timeout=1200)
    if d.returncode != 0:
        raise RuntimeError("driver_ext failed on the opsdir stream: " + d.stderr[-1500:])
    summary, bad, measured = {}, [], 0
    ratio, worst, slack = (0, 1), None, collections.Counter()
    scripts_measured, shapes = set(), collections.Counter()
    for line in d.stdout.splitlines():
        if line.startswith("OPS "):
            f = dict(re.findall(r"(\w+)=(\S+)", line))
            meas, ann = int(f["measured"]), int(f["static_ops"]) + int(f["max_exec_op_count"])
            measured += 1
            c = cases[f["case"]]
            if c["script"] not in scripts_measured:
                scripts_measured.add(c["script"])
                shapes[c["shape"]] += 1
            slack["0" if ann == meas else "1-2" if 0 < ann - meas <= 2 else "3-9" if 0 < ann - meas <= 9 else "10+" if ann > meas else "negative"] += 1
            if meas * ratio[1] > ratio[0] * max(ann, 1):
                ratio, worst = (meas, max(ann, 1)), {"script": c["script"], "mode": f["mode"], "keymask": int(f["keymask"]), "measured": meas, "announced": ann}
            if meas > ann:
                wit = runs.get((f["case"], f["mode"], f["keymask"], f["premask"]), [])
                bad.append({"script": c["script"], "shape": c["shape"], "ms": c["ms"], "desc": c["desc"], "script_hex": c["script_hex"],
                            "tx_version_locktime_sequence": c.get("tx"), "mode": f["mode"], "keymask": int(f["keymask"]), "premask": int(f["premask"]),
                            "keys_able_to_sign": [i for i in range(8) if int(f["keymask"]) >> i & 1],
                            "witness_items_hex": wit[:-1], "measured": meas, "static_ops": int(f["static_ops"]),
                            "max_exec_op_count": int(f["max_exec_op_count"]), "announced": ann})
        elif line.startswith("BAD C09 what=no-figure"):
            f = dict(re.findall(r"(\w+)=(\S+)", line.split(" ms=")[0]))
            c = cases[f["case"]]
            wit = runs.get((f["case"], f["mode"], f["keymask"], f["premask"]), [])
            bad.append({"script": c["script"], "shape": c["shape"], "ms": c["ms"], "desc": c["desc"], "script_hex": c["script_hex"], "mode": f["mode"],
                        "keymask": int(f["keymask"]), "premask": int(f["premask"]), "witness_items_hex": wit[:-1], "measured": int(f["ops"]),
                        "static_ops": None, "max_exec_op_count": None, "announced": None})
        elif line.startswith("SUMMARY"):
            summary = {k: int(v) for k, v in re.findall(r"(\w+)=(\d+)", line)}
    if not summary:
        raise RuntimeError("driver_ext produced no summary on the opsdir stream")
    stats = {"scripts_enumerated": len({c.get("script") for c in cases.values()}) + len(rejected), "scripts_accepted": len({c.get("script") for c in cases.values()}),
             "scripts_rejected_by_library": len(rejected), "cases_with_lock_environments": len(cases), "scripts_measured": len(scripts_measured),
             "satisfier_runs": dict(nruns), "satisfactions_measured": measured, "driver_summary": summary,
             "max_measured_over_announced": "%d/%d = %.3f" % (ratio[0], ratio[1], ratio[0] / ratio[1]), "max_ratio_case": worst,
             "slack_histogram": dict(slack), "shapes": dict(shapes), "exhaustive_key_subsets": sum(1 for c in cases.values() if c.get("nkeys", 9) <= 5),
             "sampled_key_subsets": sum(1 for c in cases.values() if c.get("nkeys", 9) > 5)}
    return bad, stats



def run(rep, tier, seed, replay):
    hbin = vlib.build_harness()
    ok, thms = vlib.proof_gates(rep, "C09")
    if ok:
        # extension round 2: statements about the op count of satisfier-produced witnesses (traced Theorem A)
        t2, b2, pr2, _ = vlib.check_property_file("C09OpsTrace")
        if pr2:
            rep.violation("property-file", "; ".join(pr2),
                          {"property": "C09", "broken_tie": "Properties/C09OpsTrace.v", "problems": pr2}, found_input=False)
            ok = False
        else:
            thms = thms + t2
            rep.coverage["theorems"] = thms
            rep.coverage["print_assumptions"] = list(rep.coverage.get("print_assumptions", [])) + \
                [("closed" if b["closed"] else ",".join(b["axioms"])) for b in b2]
    nr, nt, nd = sizes(tier)
    only = None
    n_tr_replay = None
    if replay:
        r = json.load(open(replay))
        a = r.get("engine_args") or (r.get("failing_input") or {}).get("engine_args")
        if a and len(a) == 4:
            seed, nr, nt, nd = a
        elif a and len(a) == 2:
            seed, n_tr_replay = a
        only = r.get("desc") or r.get("ms")
    p = vlib.sh([hbin, "ext", str(seed), str(nr), str(nt), str(nd)], timeout=3000)
    if p.returncode != 0:
        raise RuntimeError("ext engine failed: " + p.stderr[-2000:])
    R, T, D, X, Y = parse(p.stdout)
    limit_lines = list(LIMIT_LINES)
    args = [seed, nr, nt, nd]
    for x in X:
        rep.violation("corpus", "a directed corpus entry is no longer accepted by the library: " + x, {"property": "C09", "line": x, "broken_tie": "ext engine corpus"}, False)

    # ---- tie inside Coq
    text, rules, n_tree, n_desc, n_plan = gen_file(R, T, D)
    tdir = os.path.join(vlib.COQ, "Tables")
    open(os.path.join(tdir, "ExtCasesGen.v"), "w").write(text)
    c0 = vlib.coqc("Tables/ExtCasesDefs.v")
    if c0.returncode != 0:
        raise RuntimeError("ExtCasesDefs.v does not compile: " + c0.stderr[-2000:])
    c1 = vlib.coqc("Tables/ExtCasesGen.v")
    if c1.returncode != 0:
        raise RuntimeError("generated case file does not compile: " + c1.stderr[-2000:])
    c2 = vlib.coqc("Tables/ExtCasesCheck.v")
    tie_ok = c2.returncode == 0
    cov = re.search(r"=\s*\((\d+),\s*(\d+),\s*(\d+)\)", c2.stdout or "")
    ops_cov = re.search(r"=\s*\((\d+),\s*(\d+)\)\s*:", c2.stdout or "")
    tl_cov = re.findall(r"=\s*\((\d+),\s*(\d+)\)\s*:", c2.stdout or "")
    depth_cov = re.search(r"=\s*\((\d+),\s*(\d+),\s*(\d+),\s*(\d+)\)", c2.stdout or "")
    tie_breaks = []
    if not tie_ok:
        c3 = vlib.coqc("Tables/ExtCasesDiag.v")
        if c3.returncode != 0:
            tie_breaks.append(("tie:diag", "ExtCasesCheck.v fails and the diagnosis did not run: " + (c3.stderr or c2.stderr)[-600:], {}))
        else:
            blocks = re.split(r"\n\s*=\s", "\n" + c3.stdout)[1:]
            rule_idx = [int(x) for x in re.findall(r"\((\d+),\s*(?:XOk|XPanic)", blocks[0])] if blocks else []
            tree_idx = [int(x) for x in re.findall(r"\((\d+),\s*\{\|", blocks[1])] if len(blocks) > 1 else []
            desc_idx = [int(x) for x in re.findall(r"\((\d+),\s*(?:Some|None)", blocks[2])] if len(blocks) > 2 else []
            plan_bad = len(re.findall(r"PLegacy|PSegwitNative|PShWsh|PShWpkh|PTaproot", blocks[3])) if len(blocks) > 3 else 0
            lim_idx = [int(x) for x in re.findall(r"\((\d+),\s*\d+,\s*(?:true|false)\)", blocks[4])] if len(blocks) > 4 else []
            by_rule = collections.Counter(rules[i][2] for i in rule_idx if i < len(rules))
            for name, cnt in sorted(by_rule.items()):
                i = next(i for i in rule_idx if rules[i][2] == name)
                tie_breaks.append(("tie:rule:" + name, "ExtData::%s differs from the model on %d random argument tuple(s), e.g. `%s`" % (name, cnt, " ".join(R[i])[:600]),
                                   {"rule": name, "first_case": " ".join(R[i]), "differing": cnt}))
            tnp = [t for t in T if not t["panic"]]
            if tree_idx:
                t0 = tnp[tree_idx[0]]
                tie_breaks.append(("tie:tree", "ms.ext / script_size / max_satisfaction_* differ from the model on %d generated script(s), e.g. %s [%s]" % (len(tree_idx), t0["dump"], t0["ctx"]),
                                   {"ms": t0["dump"], "ctx": t0["ctx"], "implementation": t0["ext"], "differing": len(tree_idx)}))
            if desc_idx:
                tie_breaks.append(("tie:desc-weight", "max_weight_to_satisfy differs from the model's formula on %d descriptor(s)" % len(desc_idx), {"differing": len(desc_idx), "first_index": desc_idx[0]}))
            if plan_bad:
                tie_breaks.append(("tie:plan", "Plan::witness_size/scriptsig_size/satisfaction_weight differ from the model's accounting on %d template(s)" % plan_bad, {"differing": plan_bad}))
            if len(blocks) > 5 and re.search(r"\(\d+,\s*(?:Some|None)", blocks[5]):
                tie_breaks.append(("tie:depth-check", "from_ast / validate_non_top_level depth verdicts on the n: chains differ from the model (built_by_from_ast / validate_depth_ok): %s" % " ".join(blocks[5].split())[:300],
                                   {"differing": blocks[5].strip()[:400], "implementation": [h["cls"] for h in DEPTH_LINES]}))
            if len(blocks) > 6 and re.search(r"K(?:Pkh|Wpkh|ShWpkh)", blocks[6]):
                tie_breaks.append(("tie:keyonly-weight", "max_weight_to_satisfy / max_satisfaction_weight of pkh / wpkh / sh(wpkh) differ from the model's constants (model says: %s)" % " ".join(blocks[6].split())[:300],
                                   {"model": blocks[6].strip()[:400]}))
            if lim_idx:
                v0 = LIMIT_LINES[lim_idx[0]]
                tie_breaks.append(("tie:limit-verdict", "validate_non_top_level (SANE limits) / within_resource_limits differ from the model's sd_wcount + sd_estack verdict on %d near-limit script(s), e.g. [%s] verdict=%s within=%s on %s" % (len(lim_idx), v0["ctx"], v0["verdict"], v0["within"], v0["dump"][:300]),
                                   {"ms": v0["dump"], "ctx": v0["ctx"], "verdict": v0["verdict"], "within": v0["within"], "differing": len(lim_idx)}))
            if not tie_breaks:
                tie_breaks.append(("tie:unknown", "ExtCasesCheck.v fails: " + (c2.stderr or c2.stdout)[-600:], {}))

    # ---- oracle on the implementation's own outputs
    need_attr, direct, st = judge(D, T)
    # a translated object must carry the figures of the script it now is: the same tree re-typed node by node
    st["translated/compared"] = len(Y)
    for y in Y:
        if not y["same"]:
            direct.append(("translate:stale-figures",
                           "translate_pk result carries ext/type %s, the same tree built with from_ast has %s: %s [%s, %s]" % (
                               y["translated_ext"], y["rebuilt_ext"], y["ms"], y["ctx"], y["origin"]),
                           dict(y, failed_clause="translated.ext == from_ast-rebuilt.ext (figures describe the translated script)")))
    # the two limit checks of the library (parse-time validation under SANE, within_resource_limits) on the same script
    st["limit-verdicts/compared"] = len(LIMIT_LINES)
    for v in LIMIT_LINES:
        if v["verdict"].startswith("other") or "PANIC" in (v["verdict"], v["within"]):
            direct.append(("limits:verdict-unexpected", "validate_non_top_level / within_resource_limits gave %s / %s on a directed near-limit script [%s] %s" % (v["verdict"], v["within"], v["ctx"], v["dump"][:200]),
                           dict(v, ms=v["dump"], failed_clause="the limit verdict is one of ok / size / witems / ops / stack")))
        elif (v["verdict"] == "ok") != (v["within"] == "1"):
            direct.append(("limits:verdicts-disagree", "validate_non_top_level(SANE) says %s, within_resource_limits says %s on [%s] %s" % (v["verdict"], v["within"], v["ctx"], v["dump"][:200]),
                           dict(v, ms=v["dump"], failed_clause="parse-time limit validation and within_resource_limits agree on the stack / witness-item limits")))
    # ---- recursion-depth checks (H lines), judged without the model: height = level + 1, limit 402
    st["depth-chains/compared"] = len(DEPTH_LINES)
    if not any(h["status"] == "rejected" for h in DEPTH_LINES):
        direct.append(("depth:never-rejected", "from_ast accepted every n: chain up to level 410 (height 411 > MAX_RECURSION_DEPTH 402)",
                       {"ms": "n: x 410 above c:pk_k(K0)", "failed_clause": "from_ast rejects trees higher than 402"}))
    for h in DEPTH_LINES:
        inp = {"ms": "n: x %d above c:pk_k(K0) [tap]" % h["level"], "level": h["level"], "reported": h["cls"], "height": h["height"]}
        if h["status"] == "accepted" and (h["height"] != h["level"] + 1 or h["height"] > 402):
            direct.append(("depth:accepted-above-limit", "from_ast accepted a tree of %d wrappers above c:pk_k (height %d) reporting tree_height %s" % (h["level"], h["level"] + 1, h["height"]),
                           dict(inp, failed_clause="tree_height = height of the AST <= 402 for every accepted tree")))
        elif h["status"] == "rejected" and (h["level"] + 1 <= 402 or "MaxRecursiveDepthExceeded" not in h["cls"]):
            direct.append(("depth:rejected-within-limit", "from_ast refused (%s) a tree of height %d" % (h["cls"], h["level"] + 1),
                           dict(inp, failed_clause="from_ast refuses only trees higher than 402, with MaxRecursiveDepthExceeded")))
        elif h["status"] not in ("accepted", "rejected"):
            direct.append(("depth:unexpected", "from_ast on an n: chain of %d wrappers: %s" % (h["level"], h["cls"]), inp))
        for l, r in h["lims"]:
            if (r == "ok") != (h["height"] <= l):
                direct.append(("depth:validate-verdict", "validate_non_top_level(max_recursive_depth=%d) says %s on a tree of height %d" % (l, r, h["height"]),
                               dict(inp, limit=l, verdict=r, failed_clause="validate rejects exactly trees higher than max_recursive_depth")))
    # ---- key-only descriptors: the measured weight of the produced satisfaction against both constant figures
    for k in KEYONLY_REJECTED:
        if not (k["unc"] and k["kind"] in ("wpkh", "shwpkh")):
            direct.append(("corpus", "a directed key-only descriptor is refused: %s unc=%s" % (k["kind"], k["unc"]), {"line": str(k), "broken_tie": "ext engine corpus"}))
    for d in KEYONLY:
        st["descs/" + d["kind"]] += 1
        for r in d["S"]:
            base = {"desc": d["desc"], "kind": d["kind"], "mode": r["mode"], "keymask": r["km"], "premask": r["pm"], "measured_run": r}
            if r["status"] == "PANIC":
                direct.append(("panic:satisfy", "get_satisfaction panicked: %s" % d["desc"], base))
            if r["status"] == "UNPARSED":
                direct.append(("unparsed", "could not measure the returned satisfaction: %s" % d["desc"], base))
            if r["status"] != "OK":
                continue
            st["sat/ok/%s/%s" % (d["kind"], r["mode"])] += 1
            st["compared"] += 2
            mw = int(d["mw"]) if str(d["mw"]).isdigit() else None
            msw = int(d["msw"]) if str(d.get("msw")).isdigit() else None
            absw = 4 * (varint(r["ssig_len"]) + r["ssig_len"]) + r["wit_ser"]
            if mw is None or r["weight"] > mw:
                direct.append(("undershoot:keyonly:max_weight_to_satisfy", "max_weight_to_satisfy %s < measured %d on %s" % (mw, r["weight"], d["desc"]),
                               dict(base, figure=mw, measured=r["weight"], failed_clause="measured weight of the satisfaction <= max_weight_to_satisfy")))
            if msw is None or absw > msw:
                direct.append(("undershoot:keyonly:max_satisfaction_weight", "max_satisfaction_weight %s < measured %d (scriptSig with prefix x4 + witness) on %s" % (msw, absw, d["desc"]),
                               dict(base, figure=msw, measured=absw, failed_clause="measured absolute weight <= max_satisfaction_weight")))
    # ---- raw key hashes: decoded scripts satisfied through a resolving satisfier
    for q in RAWPKH:
        inp = {"ctx": q["ctx"], "shape": q["shape"], "key_form": {"c": "compressed", "u": "uncompressed", "x": "x-only"}[q["key"]], "ms": q.get("dump"), "run": {k: v for k, v in q.items() if k != "ext"}}
        if q["status"] != "DECODED":
            direct.append(("corpus", "raw key hash case not built: %s %s key=%s %s" % (q["ctx"], q["shape"], q["key"], q["status"]), dict(inp, broken_tie="ext engine corpus")))
            continue
        if q["raw"] != 1:
            direct.append(("rawpkh:not-raw", "decoding did not produce exactly one expr_raw_pkh (%d) for %s" % (q["raw"], q["dump"]), inp))
        if q["sat"] == "PANIC":
            direct.append(("panic:satisfy-rawpkh", "satisfy panicked on a decoded script with a resolvable raw key hash: [%s] %s (%s key)" % (q["ctx"], q["dump"], inp["key_form"]), inp))
            continue
        if q["sat"] != "OK":
            direct.append(("rawpkh:unsatisfied", "the satisfier resolves the hash and signs, but satisfy failed: [%s] %s" % (q["ctx"], q["dump"]), inp))
            continue
        sat = sat_of(q["ext"])
        legacy = q["ctx"] in ("legacy", "bare")
        checks = [("witness element count", q["n"], None if sat is None else sat[1]),
                  ("scriptSig size", q["ssig"], None if sat is None else sat[2]) if legacy else ("witness size", q["wsize"], None if sat is None else sat[0])]
        for nm, meas, fig in checks:
            st["compared"] += 1
            st["rawpkh/compared"] += 1
            if fig is None or meas > fig:
                key = "rawpkh:uncompressed-key-counted-as-34" if q["key"] == "u" else "undershoot:rawpkh:" + nm.split()[0]
                direct.append((key, "%s: figure %s < measured %d on the decoded script [%s] %s whose raw key hash resolves to an %s key" % (nm, fig, meas, q["ctx"], q["dump"], inp["key_form"]),
                               dict(inp, figure=fig, measured=meas, quantity=nm, failed_clause="measured <= static figure (%s)" % nm)))
    found_real = False
    attributed = attribute(need_attr)
    for a, comps, masks in attributed:
        inp = dict(a["input"], property="C09", engine="ext", engine_args=args, repairs_that_cover=masks,
                   failed_clause="measured <= static figure (%s)" % a["what"])
        for key in comps:
            before = len(rep.violations)
            rep.violation(key, "%s: figure %s < measured %s on %s" % (a["what"], a["figure"], a["measured"], (a["input"].get("desc") or a["input"].get("ms"))), inp, True)
            found_real = found_real or len(rep.violations) > before
    for key, what, inp in direct:
        before = len(rep.violations)
        rep.violation(key, what, dict(inp, property="C09", engine="ext", engine_args=args), True)
        found_real = found_real or len(rep.violations) > before
    # ---- execution figures: opcode count and stack depth on the extracted instrumented semantics
    n_tr = n_tr_replay or (6000 if tier == "thorough" else 500)
    tbad, tsum, thist = run_traces(hbin, seed, n_tr)
    KCTX = {"wsh": "segwitv0", "shwsh": "segwitv0", "sh": "legacy", "bare": "bare", "tr": "tap"}
    tr_attr = []
    for b in tbad:
        what = b.get("what")
        if what == "stackdepth":
            field, nm, meas = 4, "stack depth", int(b["measured"])
            fig = int(b["max_witness_stack_count"]) + int(b["max_exec_stack_count"])
            msg = "stack+altstack depth %s > max_witness_stack_count %s + max_exec_stack_count %s" % (
                b["measured"], b["max_witness_stack_count"], b["max_exec_stack_count"])
        elif what == "opcount":
            field, nm, meas = 5, "opcode count", int(b["measured"])
            fig = int(b["static_ops"]) + int(b["max_exec_op_count"])
            msg = "executed-opcode count %s > static_ops %s + max_exec_op_count %s" % (b["measured"], b["static_ops"], b["max_exec_op_count"])
        else:
            field, nm, meas, fig = 0, "satisfaction figure", 0, None
            msg = "a satisfaction executes although the leaf has no satisfaction figure"
        tr_attr.append({"what": nm, "field": field, "ctx": KCTX[b["kind"]], "ms": b["ms"], "figure": fig, "measured": meas, "shape": None,
                        "msg": msg, "input": dict(b, property="C09", engine="sat | driver_ext", engine_args=[seed, n_tr], quantity=nm,
                                                  failed_clause="measured on the execution trace <= the library's figure")})
    for a, comps, masks in attribute(tr_attr):
        for key in comps:
            before = len(rep.violations)
            rep.violation(key, "%s on %s [%s, keymask %s, premask %s]" % (a["msg"], a["input"]["desc"], a["input"].get("mode"), a["input"].get("keymask"), a["input"].get("premask")),
                          dict(a["input"], repairs_that_cover=masks), True)
            found_real = found_real or len(rep.violations) > before
    # directed near-limit tapscript leaves: every satisfaction the library produces for a leaf that its
    # SANE validation accepts must run within the consensus stack limit (depth by the extracted exec_tr)
    lbad, lsum, _ = run_traces(hbin, seed, 0, producer="ext limits")
    for b in lbad:
        what = b.get("what")
        if what == "stacklimit":
            key, msg = "limits:accepted-script-exceeds-stack-limit", "a leaf accepted by validate_non_top_level(Tap::SANE) runs with %s stack elements (limit %s) on the satisfaction the library produced (%s witness items)" % (b["measured"], b["limit"], b.get("items"))
        elif what == "stackdepth":
            key, msg = "undershoot:stack-depth:near-limit", "stack+altstack depth %s > max_witness_stack_count %s + max_exec_stack_count %s" % (b["measured"], b["max_witness_stack_count"], b["max_exec_stack_count"])
        else:
            key, msg = "limits:trace:" + str(what), "unexpected judgement on a near-limit leaf"
        before = len(rep.violations)
        rep.violation(key, "%s: %s [%s, keymask %s]" % (msg, (b.get("ms") or "")[:160], b.get("mode"), b.get("keymask")),
                      dict(b, property="C09", engine="ext limits | driver_ext", engine_args=["limits"],
                           failed_clause="depth during execution <= 1000 for every script the validation accepts"), True)
        found_real = found_real or len(rep.violations) > before
    st["limit-traces/executed"] = lsum.get("traced", 0)
    st["compared"] += lsum.get("traced", 0)
    st["traces/executed"] = tsum.get("traced", 0)
    st["compared"] += 2 * tsum.get("traced", 0)

    # ---- directed op-count stage: CHECKMULTISIG on a path that not every satisfaction takes (outside ops_covered)
    obad, ostats = run_opsdir(hbin)
    st["opsdir/satisfactions-measured"] = ostats["satisfactions_measured"]
    st["compared"] += ostats["satisfactions_measured"]
    if ostats["scripts_measured"] < 200 or ostats["driver_summary"].get("rejected", 0) or ostats["satisfier_runs"].get("PANIC", 0):
        rep.violation("corpus:opsdir", "the directed op-count stream lost coverage: %d scripts measured (>= 200 expected), %d produced satisfactions rejected by the Script semantics, %d satisfier panics" % (
            ostats["scripts_measured"], ostats["driver_summary"].get("rejected", 0), ostats["satisfier_runs"].get("PANIC", 0)),
            {"property": "C09", "engine": "opsdir | driver_ext", "stats": ostats, "broken_tie": "opsdir engine corpus"}, False)
    # one report per script: the satisfaction with the largest overshoot
    oworst = {}
    for b_ in obad:
        k = b_["script"]
        if k not in oworst or (b_["measured"] - (b_["announced"] or 0)) > (oworst[k]["measured"] - (oworst[k]["announced"] or 0)):
            oworst[k] = b_
    olist = sorted(oworst.values(), key=lambda x: (-(x["measured"] - (x["announced"] or 0)), x["script"]))[:40]
    oattr = [{"what": "opcode count", "field": 5, "ctx": "segwitv0", "ms": b_["ms"], "figure": b_["announced"], "measured": b_["measured"], "shape": None,
              "input": dict(b_, property="C09", engine="opsdir | driver_ext", engine_args=["opsdir", 1], quantity="opcode count", undershooting_scripts=len(oworst),
                            undershooting_satisfactions=len(obad), failed_clause="executed-opcode count measured on the execution trace <= static_ops + max_exec_op_count")} for b_ in olist]
    try:
        okeyed = [(a, comps, masks) for a, comps, masks in attribute(oattr)]
    except RuntimeError:
        okeyed = []
    if len(okeyed) < len(oattr):
        okeyed = [(a, ["undershoot:opcode-count:unattributed"], None) for a in oattr]
    for a, comps, masks in okeyed:
        i_ = a["input"]
        for key in comps:
            before = len(rep.violations)
            # own key: the random sat stream may report the same defect under undershoot:opcode-count:* first
            rep.violation(key.replace("undershoot:opcode-count:", "undershoot:opcode-count:directed-multisig:"), "executed-opcode count %s > static_ops %s + max_exec_op_count %s on wsh(%s) [%s, keys able to sign %s, premask %s] witness %s" % (
                i_["measured"], i_["static_ops"], i_["max_exec_op_count"], i_["script"], i_["mode"], i_.get("keys_able_to_sign"), i_["premask"], ",".join(i_["witness_items_hex"])[:400]),
                dict(i_, repairs_that_cover=masks), True)
            found_real = found_real or len(rep.violations) > before

    # on-break protocol: a broken tie with no failing input found by this run's oracle => widen the search once
    if tie_breaks and not found_real:
        p2 = vlib.sh([hbin, "ext", str(seed + 1000003), "0", str(nt * 2), str(nd * 3)], timeout=3000)
        if p2.returncode == 0:
            _, T2, D2, _, _ = parse(p2.stdout)
            na2, direct2, _ = judge(D2, T2)
            for a, comps, masks in attribute(na2):
                for key in comps:
                    before = len(rep.violations)
                    rep.violation(key, "%s: figure %s < measured %s on %s" % (a["what"], a["figure"], a["measured"], (a["input"].get("desc") or a["input"].get("ms"))),
                                  dict(a["input"], property="C09", engine="ext", engine_args=[seed + 1000003, 0, nt * 2, nd * 3], repairs_that_cover=masks), True)
                    found_real = found_real or len(rep.violations) > before
            for key, what, inp in direct2:
                before = len(rep.violations)
                rep.violation(key, what, dict(inp, property="C09", engine="ext"), True)
                found_real = found_real or len(rep.violations) > before
    # a broken tie is reported with the failing input the oracle found for the property itself (if any)
    first_real = next((v["replay"] for v in rep.violations if v["found_input"]), None)
    for key, what, inp in tie_breaks:
        rep.violation(key, what, dict(inp, property="C09", broken_tie="Tables/ExtCasesCheck.v (model Ms/ExtModel.v vs implementation)",
                                      engine_args=args, failing_input=first_real), first_real is not None)

    hist = collections.Counter()
    for t in T:
        hist["ctx/" + t["ctx"]] += 1
        for tok in t["dump"].split():
            if tok in FRAGS:
                hist["frag/" + tok] += 1
    for _, _, name in rules:
        hist["rule/" + name] += 1
    panics = sum(1 for t in R if t[-1] == "PANIC")
    samples = []
    for d in D[:400]:
        for s in d["S"]:
            if s["status"] == "OK" and len(samples) < 6 and d["leaves"] and s["leaf"] >= 0:
                samples.append({"desc": d["desc"][:160], "mode": s["mode"], "measured": {k: s[k] for k in ("n_inner", "inner_wsize", "inner_ssig", "weight")},
                                "figures": d["leaves"][s["leaf"]]["ext"][3], "max_weight_to_satisfy": d["mw"]})
                break
    obligations = len(thms) + 6
    rep.coverage.update({
        "obligations": obligations, "discharged": (len(thms) if ok else 0) + (6 if tie_ok else 0),
        "depth_check_cases": len(DEPTH_LINES), "keyonly_descriptor_blocks": len(KEYONLY), "rawpkh_cases": len(RAWPKH),
        "checker_cmd": "make -C coq; coqc Properties/C09.v; verif-harness ext %d %d %d %d -> Tables/ExtCasesGen.v; coqc Tables/ExtCasesCheck.v; verif-harness sat %d %d | ocaml/driver_ext" % (tuple(args) + (seed, n_tr)),
        "trusted_base": vlib.TRUSTED_BASE_COMMON + [
            "Ms/Sat.v is the model of the satisfier the bounds are proved against (tied to the implementation by the C01 run)",
            "size measurements in harness/src/ext.rs (varint, witness serialisation, scriptSig parsing with rust-bitcoin)"],
        "evaluations": len(rules) + n_tree + n_desc + n_plan + st["compared"],
        "distinct_nontrivial": st["compared"],
        "rule": "R: every public ExtData rule on seeded random plain data (profiles small / mixed-with-None / 2^57 / near usize::MAX; threshold k in {0,n,n+1,MAX,random}, n in 0..8); "
                "T: type-directed generator, 4 contexts, depth 0..4, bases B/V/K/W + directed corpus + near-520-byte legacy scripts + TRANSLATED legacy/bare scripts (compressed-keyed and name-keyed sources translated with translate_pk to uncompressed / mixed keys; also as sh/bare descriptors in D); "
                "D: generator of the sat engine (wsh, sh(wsh), sh, bare, tr 1-3 leaves) + directed corpus, 1-4 lock environments, all key subsets (<=4 keys) or 16 random, 2-3 preimage subsets, both modes, ECDSA signatures ground to the maximal 72 bytes; non-trivial = a produced satisfaction/plan whose measured sizes were compared",
        "rule_cases": len(rules), "rule_cases_panicking": panics, "tree_cases": n_tree, "descriptor_weight_cases": n_desc, "plan_cases": n_plan,
        "theorem_class_coverage": {"scripts": int(cov.group(1)), "ext_safe_as_written": int(cov.group(2)), "ext_safe_pre_fix_rules": int(cov.group(3))} if cov else None,
        "ops_class_coverage": {"non_tap_scripts_with_sat_figure": int(ops_cov.group(1)), "in_ops_covered": int(ops_cov.group(2))} if ops_cov else None,
        "depth_class_coverage": {"well_typed_scripts_with_sat_figure": int(depth_cov.group(1)), "in_depth_covered": int(depth_cov.group(2)), "in_depth_covered_pre_fix_rules": int(depth_cov.group(3))} if depth_cov else None,
        "timelock_class_coverage": {"scripts": int(tl_cov[-1][0]), "in_tl_total": int(tl_cov[-1][1])} if len(tl_cov) >= 2 else None,
        "comparisons": dict(st), "histogram": dict(hist), "samples": samples,
        "execution_traces": {"summary": tsum, "histogram": thist},
        "tie_checked_in_coq": tie_ok,
    })
    rep.coverage["directed_opcount_stream"] = ostats
    rep.coverage["checker_cmd"] += "; verif-harness opsdir 1 | VERIF_OPS_LINES=1 ocaml/driver_ext"
    rep.coverage["rule"] += "; O: directed op-count stream (harness/src/ext_opsdir.rs): wsh scripts with multi/sortedmulti below or_i/or_d/or_b/andor/thresh/j:/and_v/or_c, all key subsets (<= 5 keys) or all/none/30 seeded, preimage on/off, lock environments none / met, both satisfier modes"
    rep.assumptions = ["signatures are real and ground to the longest low-S encoding; sizes are measured on raw bytes",
                       "Ms/Sat.v models the satisfier (C01 tie); placeholders have the sizes of util.rs ItemSize"]
