"""C17 — spending plans are faithful to the satisfier and report exact time locks (DESIGN 5/C17).
Proof side: Properties/C17.v (plan = template of the satisfier model; completed plans spend;
lock merge).  Per run (sat engine): for a sample of asset sets per descriptor/tx, in both modes:
plan exists <=> satisfier succeeds; completed plan == satisfier output; completed plan spends
(extracted Script semantics); reported locks are sufficient and NECESSARY for that witness
(probes: lock-1, other unit, final sequence, disable bit); announced sizes >= real sizes."""
import vlib, satrun

LEVEL = "proof"


def run(rep, tier, seed, replay):
    ok, thms = vlib.proof_gates(rep, "C17")
    n = satrun.sizes(tier)
    r = satrun.run(seed, n)
    s = r["summary"]
    for b in r["bad"].get("C17", []):
        key = "c17:%s" % b.get("what")
        # known finding shared with C01 (c01:sh:scriptsig-over-1650): sh() accepts a redeem script whose every
        # scriptSig exceeds 1650 bytes, so the completed plan does not spend under standardness; recognised by
        # the measured length of the P2SH scriptSig the plan completed to
        if b.get("kind") == "sh" and len(b.get("ssig") or "") // 2 > 1650 and "does-not-spend" in (b.get("what") or ""):
            key = "c17:sh:scriptsig-over-1650"
        rep.violation(key,
                      "plan check '%s' failed for %s" % (b.get("what"), b.get("desc", "")[:200]),
                      dict(b, property="C17", engine="sat", seed=seed, n=n, failed_clause=b.get("what")), True)
    for d in r["diff"]:
        rep.violation("tie:satisfier-model", "model of the satisfier and implementation disagree: %s" % d.get("line", "")[:300],
                      dict(d, property="C17", broken_tie="correspondence Sat.v vs implementation", seed=seed, n=n), False)
    tie_ok = not r["diff"]
    rep.coverage.update({
        "obligations": len(thms) + 1, "discharged": (len(thms) if ok else 0) + (1 if tie_ok else 0),
        "checker_cmd": "make -C coq; coqc Properties/C17.v; verif-harness sat %d %d | ocaml/driver" % (seed, n),
        "trusted_base": vlib.TRUSTED_BASE_COMMON + ["Coq extraction (ExtrOcamlBasic) + ocaml/driver.ml",
                                                    "lock probes reuse the transaction's signature table while varying nLockTime/nSequence in the abstract environment (tests the script's lock checks, not the sighash)"],
        "evaluations": s.get("c17_checked", 0), "distinct_nontrivial": s.get("c17_lockprobes", 0),
        "rule": "per (descriptor, tx environment): up to 7 key subsets x 2 preimage subsets x {non-malleable, malleable}: into_plan*/Plan::satisfy vs get_satisfaction*; non-trivial = a plan existed and was completed, verified and lock-probed",
        "plans_checked": s.get("c17_checked", 0), "plans_lock_probed": s.get("c17_lockprobes", 0),
        "failed_plan_checks": s.get("c17_bad", 0), "cases": s.get("cases", 0), "histogram": r["hist"],
        "samples": [{"summary": s}],
    })
    rep.assumptions = ["lock sufficiency / necessity / exactness are theorems about the model (Properties/C17.v); the per-run probes tie the implementation's reported locks to it"]
