"""C11 - no input can crash or hang the library (DESIGN 5/C11).

PARTIAL BY NATURE: a theorem about an executable model cannot exhibit a native stack overflow,
an allocation failure or the run time of compiled code.  The check therefore has three layers:

 1. PROOF (Properties/C11.v): for the modelled functions every Rust panic site is an explicit
    RPanic outcome and the model is proved total / panic-free: threshold_ctor_total, lex_total,
    planner_total, planner_has_key_total (the code as written after the repair of DESIGN 10-f),
    pre_order_iter_total.  The models are tied to the compiled code on every run: the graph of
    the real functions on generated points (Tables/RobustCasesGen.v, from `verif-harness robust
    models`) is compared with the models inside Coq (Tables/RobustCasesCheck.v, vm_compute).
 2. ROBUSTNESS ENGINE (harness/src/robust*.rs): seeded malformed-input streams for EVERY entry
    point the property lists, each case in a supervised child process, under catch_unwind, with a
    wall-clock guard, an allocation ceiling and a bounded thread stack; native stack overflows and
    allocation failures kill the child and are attributed to the announced case.  Any panic /
    timeout / stack overflow / allocation blow-up is a violation with the (minimised) input as
    replay, unless its key is listed in known_findings.txt.
 3. PANIC-SITE INVENTORY (tools/panic_sites.py, notes/C11-panic-sites.json): every unwrap /
    expect / unreachable! / panic! / assert! / index / slice / `- 1` site of the anchored files is
    mapped to a model Panic id, an argument, or `unmodelled`.  A new or moved site is reported
    (advisory) and triggers a directed run of the entry points of that file with a larger
    budget; only an OBSERVED failure is a violation.

Keys of findings: panic:<file>:<enclosing fn>:<normalised message>:<entry family>  resp.
resource:<stack-overflow|time-or-memory|abort>:<entry family>:<input class>, so that a NEW
panic site (other function / other message) still fails the check."""
import concurrent.futures, json, os, re, sys
import vlib

sys.path.insert(0, os.path.dirname(os.path.dirname(os.path.abspath(__file__))))
import panic_sites

LEVEL = "proof"

OUTSIDE_MODEL = [
    "native stack depth of recursive library code (Concrete/Semantic lift, normalized, Display, Drop of deep Arc trees): only observed by the engine (stack-overflow outcome), bounded for text/bytes inputs by the 402-depth pre-check, unbounded for value-level trees",
    "allocation size and run time of compiled code (engine guards: 10 s + 4 s/MB wall clock, 512 MiB + 256 B/input byte soft and 2 GiB hard allocation ceiling per case)",
    "third-party crates (rust-bitcoin base58 / bip32 / psbt (de)serialisation, secp256k1): exercised through the library's entry points, not modelled",
    "Satisfier / AssetProvider implementations supplied by the caller (the engine's satisfier returns well-formed signatures of the sizes the plan asked for)",
    "thread-safety (Tr's spend-info cache behind a Mutex)",
]


def unhex(h):
    if h in ("-", ""):
        return ""
    try:
        return bytes.fromhex(h).decode("utf8", "replace")
    except ValueError:
        return h


def family(cls):
    return cls.split(".")[0]


def norm_msg(m):
    m = re.sub(r"[0-9]+", "N", m.lower())
    m = re.sub(r"[^a-z]+", "-", m).strip("-")
    return m[:48]


def rel_file(loc_file):
    repo = os.path.realpath(vlib.REPO)
    f = loc_file
    if f.startswith(repo + "/"):
        return f[len(repo) + 1:], True
    if f.startswith("/repo/"):
        return f[6:], True
    m = re.search(r"/registry/src/[^/]+/([^/]+)/(.*)$", f)
    if m:
        return "crate:%s/%s" % (m.group(1), m.group(2)), False
    m = re.search(r"/rustc/[0-9a-f]+/(.*)$", f)
    if m:
        return "std:" + m.group(1), False
    return f, False


def failure_key(cls, kind, loc, msg, label):
    if kind == "panic" and msg.startswith("VERIF-ORACLE"):
        # not a panic of the library: the harness's no-crash oracle (an accepted object nested
        # deeper than the documented limit / ext.tree_height differing from the real depth)
        what = "depth-guard-bypassed" if "depth guard bypassed" in msg else "tree-height-differs-from-real-depth"
        return "oracle:%s:%s" % (what, family(cls))
    if kind == "panic":
        m = re.match(r"^(.*):(\d+)$", loc)
        if m:
            rel, in_repo = rel_file(m.group(1))
            fn = panic_sites.fn_at(vlib.REPO, rel, int(m.group(2))) if in_repo else "-"
            return "panic:%s:%s:%s:%s" % (rel, fn, norm_msg(msg), family(cls))
        return "panic:%s:%s:%s" % (loc, norm_msg(msg), family(cls))
    if kind == "alloc" and loc == "disproportionate":
        # the allocation oracle proportional to the input (peak > max(1 MiB, 4096 x input length))
        return "resource:alloc-disproportionate:%s:%s" % (family(cls), label)
    group = {"stack-overflow": "stack-overflow", "timeout": "time-or-memory", "alloc": "time-or-memory"}.get(kind, "abort")
    return "resource:%s:%s:%s" % (group, family(cls), label)


def parse_report(text):
    classes, fails, samples = {}, [], []
    for l in text.splitlines():
        if l.startswith("CLASS "):
            m = re.match(r"CLASS (\S+) entry=(\S+) cases=(\d+) (.*?) maxpeak=(\d+) maxms=(\d+) maxratio=(\d+) labels=(\S*) tags=(\S*)", l)
            if not m:
                continue
            kinds = dict((k, int(v)) for k, v in (kv.split("=") for kv in m.group(4).split()))
            labels = dict((k, int(v)) for k, v in (x.rsplit(":", 1) for x in m.group(8).split(",") if x))
            tags = [t for t in unhex(m.group(9)).split(",") if t]
            classes[m.group(1)] = {"entry": unhex(m.group(2)), "cases": int(m.group(3)), "outcomes": kinds,
                                   "max_peak_bytes": int(m.group(5)), "max_ms": int(m.group(6)),
                                   "max_peak_over_input_ratio (cases with peak > 1 MiB)": int(m.group(7)),
                                   "input_classes": labels, "top_observations": tags[:8]}
        elif l.startswith("SAMPLE "):
            p = l.split(" ")
            samples.append("%s: %s" % (p[1], unhex(p[2])))
        elif l.startswith("FAIL "):
            head, _, inp = l.partition(" input=")
            p = head.split(" ")
            d = dict(kv.split("=", 1) for kv in p[2:] if "=" in kv)
            fails.append({"class": p[1], "kind": d["kind"], "loc": unhex(d["loc"]), "msg": unhex(d["msg"]),
                          "label": d["label"], "idx": int(d["idx"]), "count": int(d["count"]),
                          "orig_len": int(d["orig_len"]), "regen": d.get("regen", ""), "input": inp})
    return classes, fails, samples


def run_engine(hbin, seed, tier, only=None, mult=None):
    cmd = [hbin, "robust", "all", str(seed), tier, "--no-shrink"]
    if only:
        cmd += ["--only", ",".join(only)]
    if mult:
        cmd += ["--mult", str(mult)]
    p = vlib.sh(cmd, timeout=3000)
    if p.returncode != 0 or "DONE " not in p.stdout:
        raise RuntimeError("robust engine did not complete: rc=%s %s" % (p.returncode, p.stderr[-1500:]))
    return parse_report(p.stdout)


def shrink(hbin, f):
    """confirm and minimise a NEW failure (child processes; bounded by VERIF_ROBUST_SHRINK_SECS).
    Returns (input line, min_len, tries, reproduced). A time-out is first re-run alone with three
    times the time limit: if it then finishes, machine load caused it and it is not reported."""
    seed, idx = f["regen"].split(":")
    try:
        if f["kind"] == "timeout":
            base = int(os.environ.get("VERIF_ROBUST_TIMEOUT_MS", "10000"))
            p = vlib.sh([hbin, "robust", "shrink", f["class"], seed, idx], timeout=900,
                        env={"VERIF_ROBUST_SHRINK": "0", "VERIF_ROBUST_TIMEOUT_MS": str(3 * base)})
            m = re.search(r"^SHRUNK \S+ kind=(\S+)", p.stdout, flags=re.M)
            if m and m.group(1) in ("ok", "err", "na"):
                return f["input"], f["orig_len"], 0, False
        p = vlib.sh([hbin, "robust", "shrink", f["class"], seed, idx], timeout=900,
                    env={"VERIF_ROBUST_SHRINK_SECS": "40"})
        m = re.search(r"^SHRUNK \S+ kind=(\S+) .* min_len=(\d+) tries=(\d+) input=(.*)$", p.stdout, flags=re.M)
        if m:
            return m.group(4), int(m.group(2)), int(m.group(3)), m.group(1) not in ("ok", "err", "na")
    except Exception:
        pass
    return f["input"], f["orig_len"], 0, True


def describe_input(line):
    """human-readable head of an input line of the engine"""
    p = line.split(" ")
    try:
        if p[0] in ("T", "V"):
            return unhex(p[1])[:400]
        if p[0] == "C":
            return "%s  <>  %s" % (unhex(p[1])[:300], unhex(p[2])[:300])
        if p[0] == "L":
            return "descriptor=%s index=%s assets=%s" % (unhex(p[2])[:300], p[1], unhex(p[3])[:300])
        if p[0] == "S":
            return "ms=%s ctx=%s keys=%s preimages=%s locktime=%s sequence=%s" % (unhex(p[6])[:300], p[1], p[2], p[3], p[4], p[5])
        if p[0] == "P":
            return "psbt(hex %d bytes)=%s... input index=%s descriptor=%s" % (len(p[2]) // 2, p[2][:120], p[1], unhex(p[3])[:200])
        if p[0] == "I":
            return "spk=%s scriptSig=%s sequence=%s locktime=%s witness=%s" % (p[1][:140], p[2][:140], p[3], p[4], p[5][:300])
        if p[0] == "B":
            return "script(hex)=%s" % p[1][:400]
    except Exception:
        pass
    return line[:300]


def models_tie(rep, hbin, seed):
    """graph of the real functions vs the Coq models, compared inside Coq"""
    tdir = os.path.join(vlib.COQ, "Tables")
    p = vlib.sh([hbin, "robust", "models", str(seed)], timeout=600)
    if p.returncode != 0:
        raise RuntimeError("robust models failed: " + p.stderr[-1500:])
    open(os.path.join(tdir, "RobustCasesGen.v"), "w").write(p.stdout)
    m = re.search(r"MODELS thr=(\d+) plan=(\d+) lex=(\d+) height=(\d+)", p.stderr)
    rows = [int(x) for x in m.groups()] if m else [0, 0, 0, 0]
    c1 = vlib.coqc("Tables/RobustCasesGen.v")
    if c1.returncode != 0:
        raise RuntimeError("RobustCasesGen.v does not compile: " + c1.stderr[-1500:])
    c2 = vlib.coqc("Tables/RobustCasesCheck.v")
    flat = re.sub(r"\s+", " ", c2.stdout)
    ok = c2.returncode == 0 and "= ([], [], [], [], [], [])" in flat
    mv = re.search(r"= (\d+)(?:%N)? : N", flat)
    regress = {"0": "equals the model of the code as written (planner_total)",
               "1": "equals the code BEFORE /repo 540253fb: the repair of DESIGN 10-f (len - 1 on an empty derivation path) has been lost",
               "2": "equals neither the current nor the pre-repair model"}.get(mv.group(1) if mv else "?", "unknown")
    rep.coverage["planner_graph"] = regress
    if not ok:
        # on-break: the differing rows are printed by the check itself (input, implementation, model);
        # a row where the IMPLEMENTATION panics is a failing input of the property itself
        mm = re.search(r"= \((.*)\) : list", flat)
        body = (mm.group(1) if mm else (c2.stderr or c2.stdout))[-3000:]
        impl_panics = ["planner: key path [%s], asset path [%s] (fingerprint match %s, ecdsa %s): the implementation panics" % m
                       for m in re.findall(r"\(?\(?\[([0-9; ]*)\], \[([0-9; ]*)\]\)?, \((\d), (\d), 2\)", flat)]
        thr_panics = re.findall(r"\(\d+, \d+, \d+, \((?:\d, ){0,4}2", flat)
        lex_panics = ["script bytes " + x for x in re.findall(r"\(\[([0-9; ]*)\], \(2, 0\)", flat)]
        impl_panics = impl_panics + lex_panics
        found = bool(impl_panics or thr_panics)
        rep.violation("models-tie", "the compiled code and the Coq models of RobustModel.v disagree: %s" % body[:1500],
                      {"property": "C11", "broken_tie": "Tables/RobustCasesCheck.v: robust_mismatches = ([],[],[],[],[],[])",
                       "differing_rows (input, implementation, model)": body,
                       "implementation_panics_on": (impl_panics + thr_panics)[:5],
                       "planner_graph": regress,
                       "replay": "python3 tools/check.py C11"}, found_input=found)
    return ok, rows


ITER_FAIL = {"1": "PreOrderIter order", "2": "PostOrderIter items (label, index, child_indices)",
             "3": "RtlPostOrderIter items", "4": "VerbosePreOrderIter first yields / indices", "5": "VerbosePreOrderIter number of yields"}


def iters_tie(rep, hbin, seed):
    """iter/tree.rs iterators (through Miniscript and the concrete Policy) and the taproot tree builder
    (through Tr::from_str) vs the Coq models, compared inside Coq"""
    tdir = os.path.join(vlib.COQ, "Tables")
    p = vlib.sh([hbin, "robust", "iters", str(seed)], timeout=600)
    if p.returncode != 0:
        raise RuntimeError("robust iters failed: " + p.stderr[-1500:])
    open(os.path.join(tdir, "RobustIterCasesGen.v"), "w").write(p.stdout)
    m = re.search(r"ITERS iter=(\d+) \(miniscript (\d+), policy (\d+)\) tap=(\d+)", p.stderr)
    rows = [int(x) for x in m.groups()] if m else [0, 0, 0, 0]
    c1 = vlib.coqc("Tables/RobustIterCasesGen.v")
    if c1.returncode != 0:
        raise RuntimeError("RobustIterCasesGen.v does not compile: " + c1.stderr[-1500:])
    c2 = vlib.coqc("Tables/RobustIterCasesCheck.v")
    flat = re.sub(r"\s+", " ", c2.stdout)
    mi = re.search(r"= (\[.*?\]) : list \(N \* list N\)", flat)
    mt = re.search(r"= (\[.*?\]) : list \(N \* \(N \* N\) \* \(N \* N\)\)", flat[mi.end():]) if mi else None
    ok = c2.returncode == 0 and bool(mi) and bool(mt) and mi.group(1) == "[]" and mt.group(1) == "[]"
    mc = re.search(r"= \((\d+)%nat, (\d+)%nat, (\d+)%nat, (\d+)%nat\)", flat)
    info = {"iterator_trees": rows[0], "from_miniscript": rows[1], "from_concrete_policy": rows[2], "taproot_shapes": rows[3],
            "tree_nodes": int(mc.group(2)) if mc else 0, "taproot_shapes_rejected_as_too_deep": int(mc.group(4)) if mc else 0,
            "all_equal_inside_coq": ok}
    if not ok:
        names_i = dict((int(a), b) for a, b in re.findall(r"^ITER (\d+) (.*)$", p.stderr, flags=re.M))
        names_t = dict((int(a), b) for a, b in re.findall(r"^TAP (\d+) (.*)$", p.stderr, flags=re.M))
        bad_i = [(int(i), [ITER_FAIL.get(c.strip(), c.strip()) for c in cs.split(";") if c.strip()])
                 for i, cs in re.findall(r"\((\d+), \[([0-9; ]*)\]\)", mi.group(1))] if mi else []
        bad_t = [tuple(int(x) for x in t) for t in re.findall(r"\((\d+), \((\d+), (\d+)\), \((\d+), (\d+)\)\)", mt.group(1))] if mt else []
        code = {0: "Err", 1: "Ok", 2: "PANIC"}
        lines = ["iterator row %d (%s): differs in %s" % (i, names_i.get(i, "?")[:200], ", ".join(f)) for i, f in bad_i[:6]]
        lines += ["taproot row %d: %s: implementation %s with %d leaves, model %s with %d leaves" % (
                      i, names_t.get(i, "?")[:160], code.get(ci, ci), ni, code.get(cm, cm), nm) for i, ci, cm, ni, nm in bad_t[:6]]
        if not (mi and mt):
            lines.append("RobustIterCasesCheck.v did not evaluate: " + (c2.stderr or c2.stdout)[-600:])
        # an input on which the IMPLEMENTATION panics is a failing input of the property itself
        panics = [names_t.get(i, "?") for i, ci, cm, ni, nm in bad_t if ci == 2]
        rep.violation("iters-tie", "the compiled code and the Coq models of iter/tree.rs / TapTreeBuilder disagree (%d iterator rows, %d taproot rows): %s" % (
                          len(bad_i), len(bad_t), " | ".join(lines)),
                      {"property": "C11", "broken_tie": "Tables/RobustIterCasesCheck.v: iter_bad = [] and tap_bad = []",
                       "differing_iterator_rows": [{"row": i, "input": names_i.get(i, "?"), "failed": f} for i, f in bad_i[:40]],
                       "differing_taproot_rows": [{"row": i, "descriptor": names_t.get(i, "?"), "implementation": code.get(ci, ci), "model": code.get(cm, cm),
                                                   "leaves_implementation": ni, "leaves_model": nm} for i, ci, cm, ni, nm in bad_t[:40]],
                       "implementation_panics_on": panics[:5],
                       "replay": "python3 tools/check.py C11"}, found_input=bool(panics))
    return ok, info


def verbose_tie(rep, hbin, seed):
    """the FULL records of the real VerbosePreOrderIter (TreeLike::verbose_pre_order_iter through Miniscript and the
    concrete Policy: node, parent, index, n_children_yielded, is_complete) vs verbose_order of Ms/VerboseIterModel.v,
    compared item by item inside Coq"""
    tdir = os.path.join(vlib.COQ, "Tables")
    p = vlib.sh([hbin, "robust", "verbose", str(seed)], timeout=600)
    if p.returncode != 0:
        raise RuntimeError("robust verbose failed: " + p.stderr[-1500:])
    open(os.path.join(tdir, "VerboseIterCasesGen.v"), "w").write(p.stdout)
    m = re.search(r"VERBOSE rows=(\d+) \(miniscript (\d+), policy (\d+)\) items=(\d+)", p.stderr)
    rows = [int(x) for x in m.groups()] if m else [0, 0, 0, 0]
    c1 = vlib.coqc("Tables/VerboseIterCasesGen.v")
    if c1.returncode != 0:
        raise RuntimeError("VerboseIterCasesGen.v does not compile: " + c1.stderr[-1500:])
    c2 = vlib.coqc("Tables/VerboseIterCasesCheck.v")
    flat = re.sub(r"\s+", " ", c2.stdout)
    mb = re.search(r"= (\[.*?\]) : list \(N \* N\)", flat)
    mc = re.search(r"= \((\d+)%nat, (\d+)%nat, (\d+)%nat, (\d+)%nat\)", flat)
    counted = [int(x) for x in mc.groups()] if mc else [0, 0, 0, 0]
    panics = dict((int(a), b) for a, b in re.findall(r"^VPANIC (\d+) (.*)$", p.stderr, flags=re.M))
    # the table Coq saw must be the table the engine announced (rows, items), and must not be empty
    ok = (c2.returncode == 0 and bool(mb) and mb.group(1) == "[]" and not panics
          and rows[0] > 0 and counted[0] == rows[0] and counted[1] == rows[3])
    info = {"trees": rows[0], "from_miniscript": rows[1], "from_concrete_policy": rows[2], "items_compared": rows[3],
            "tree_nodes": counted[2], "skipped_texts (no context parses them)": len(re.findall(r"^VSKIP ", p.stderr, flags=re.M)),
            "compared": "label of node, label of parent, index, n_children_yielded, is_complete of every yielded item",
            "all_equal_inside_coq": ok}
    if not ok:
        names = dict((int(a), b) for a, b in re.findall(r"^VROW (\d+) (.*)$", p.stderr, flags=re.M))
        items = dict((int(a), b.split(";") if b else []) for a, b in re.findall(r"^VITEMS (\d+) ?(.*)$", p.stderr, flags=re.M))
        bad = [(int(i), int(j)) for i, j in re.findall(r"\((\d+), (\d+)\)", mb.group(1))] if mb else []
        # verbose_bad_detail: (row, position, implementation's item, model's item)
        md = re.search(r"= (\[.*\]) : list \(N \* N \* option", flat[mb.end():]) if mb else None
        det = {}
        if md:
            for i, j, a, b in re.findall(r"\((\d+), (\d+), (None|Some \(.*?\)), (None|Some \(.*?\))\)(?=; \(\d|\])", md.group(1)):
                det[(int(i), int(j))] = (a, b)
        def impl_item(i, j):
            v = items.get(i, [])
            return v[j] if j < len(v) else "none (the implementation yielded %d items%s)" % (len(v), ", then panicked" if i in panics else "")
        lines, recs = [], []
        for i, j in bad:
            a, b = det.get((i, j), ("?", "?"))
            lines.append("row %d (%s): first differing item %d: implementation (label,parent,index,n_children_yielded,is_complete) = %s, model = %s%s" % (
                i, names.get(i, "?")[:200], j, impl_item(i, j), b, " [the implementation PANICKED]" if i in panics else ""))
            recs.append({"row": i, "tree": names.get(i, "?"), "first_differing_item": j, "implementation_item": impl_item(i, j),
                         "implementation_item_as_seen_by_coq": a, "model_item": b, "implementation_items": len(items.get(i, [])),
                         "implementation_panicked": i in panics})
        if not mb:
            lines.append("VerboseIterCasesCheck.v did not evaluate: " + (c2.stderr or c2.stdout)[-600:])
        elif not bad and not panics:
            lines.append("the table compared inside Coq is not the table the engine announced: engine rows=%d items=%d, Coq rows=%d items=%d" % (
                rows[0], rows[3], counted[0], counted[1]))
        pm = re.findall(r"^VPANICMSG (.*)$", p.stderr, flags=re.M)
        rep.violation("verbose-iter-tie", "the compiled VerbosePreOrderIter and verbose_order of Ms/VerboseIterModel.v disagree (%d of %d trees): %s" % (
                          len(bad), rows[0], " | ".join(lines[:6])),
                      {"property": "C11", "broken_tie": "Tables/VerboseIterCasesCheck.v: verbose_bad = []",
                       "differing_rows": recs[:40],
                       "implementation_panics_on": [panics[i] for i in sorted(panics)][:5], "panic_messages": pm[:5],
                       "seed": seed,
                       "replay": "python3 tools/check.py C11"}, found_input=bool(panics))
    return ok, info


DISPLAY_CODE = {1: "the model's parser rejects the text the library printed", 2: "the loop model (display_iter) prints a different text",
                3: "the loop model does not finish"}


def display_tie(rep, hbin, seed):
    """the `Display` text of every miniscript row of `robust verbose` (written by conditional_fmt over VerbosePreOrderIter) vs
    display_iter of Ms/DisplayIterModel.v (the loop over verbose_order of the DisplayNode tree), compared inside Coq;
    needs Tables/VerboseIterCasesGen.vo of verbose_tie"""
    c = vlib.coqc("Tables/DisplayIterCasesCheck.v")
    flat = re.sub(r"\s+", " ", c.stdout)
    mb = re.search(r"= (\[.*?\]) : list \(N \* N\)", flat)
    mc = re.search(r"= \((\d+)%nat, (\d+)%nat\)", flat)
    n_texts, n_bytes = (int(mc.group(1)), int(mc.group(2))) if mc else (0, 0)
    ok = c.returncode == 0 and bool(mb) and mb.group(1) == "[]" and n_texts > 0
    info = {"display_texts_compared": n_texts, "bytes": n_bytes, "all_equal_inside_coq": ok,
            "compared": "real `Display` text of the miniscript vs display_iter (loop over the verbose items) of the AST the model parses from it"}
    if not ok:
        p = vlib.sh([hbin, "robust", "verbose", str(seed)], timeout=600)
        names = dict((int(a), b) for a, b in re.findall(r"^VROW (\d+) (.*)$", p.stderr, flags=re.M))
        bad = [(int(i), int(k)) for i, k in re.findall(r"\((\d+), (\d+)\)", mb.group(1))] if mb else []
        lines = ["row %d (%s): %s" % (i, names.get(i, "?")[:200], DISPLAY_CODE.get(k, k)) for i, k in bad[:6]]
        if not mb:
            lines.append("DisplayIterCasesCheck.v did not evaluate: " + (c.stderr or c.stdout)[-600:])
        rep.violation("display-iter-tie", "the text written by the compiled `Display for Miniscript` and display_iter of Ms/DisplayIterModel.v disagree (%d of %d texts): %s" % (
                          len(bad), n_texts, " | ".join(lines)),
                      {"property": "C11", "broken_tie": "Tables/DisplayIterCasesCheck.v: display_bad = []",
                       "differing_rows": [{"row": i, "miniscript": names.get(i, "?"), "code": k, "meaning": DISPLAY_CODE.get(k, k)} for i, k in bad[:40]],
                       "seed": seed, "replay": "python3 tools/check.py C11"}, found_input=False)
    return ok, info


def verbose_props(rep):
    """Properties/C11VerboseIter.v: recompile, Print Assumptions must be closed"""
    thms, blocks, problems, _ = vlib.check_property_file("C11VerboseIter")
    if problems:
        rep.violation("property-file", "; ".join(problems),
                      {"property": "C11", "broken_tie": "Properties/C11VerboseIter.v", "problems": problems}, found_input=False)
        return False, thms
    return True, thms


def run(rep, tier, seed, replay):
    hbin = vlib.build_harness()
    if replay:
        return run_replay(rep, hbin, replay)
    ok, thms = vlib.proof_gates(rep, "C11")
    tie_ok, tie_rows = (False, [0, 0, 0, 0])
    it_ok, it_info = (False, {})
    vt_ok, vt_info = (False, {})
    dt_ok, dt_info = (False, {})
    vp_ok, vp_thms = (False, [])
    if ok:
        vp_ok, vp_thms = verbose_props(rep)
        tie_ok, tie_rows = models_tie(rep, hbin, seed)
        it_ok, it_info = iters_tie(rep, hbin, seed)
        vt_ok, vt_info = verbose_tie(rep, hbin, seed)
        dt_ok, dt_info = display_tie(rep, hbin, seed)
        rep.coverage["theorems"] = list(rep.coverage.get("theorems", [])) + vp_thms

    # ---- panic-site inventory
    new, gone, cur, old = panic_sites.diff(vlib.REPO)
    directed = sorted({c for s in new for c in panic_sites.FILE_CLASSES.get(s["file"], [])})
    disp = {}
    for s in old.values():
        d = re.split(r"[:;]", s.get("disp", "unmodelled"))[0]
        disp[d] = disp.get(d, 0) + 1

    # ---- robustness engine
    classes, fails, samples = run_engine(hbin, seed, tier, mult=4 if tier == "thorough" else None)
    directed_info = None
    if directed:
        c2, f2, _ = run_engine(hbin, seed + 1000, tier, only=directed, mult=3)
        fails += f2
        directed_info = {"classes": directed, "seed": seed + 1000, "budget_multiplier": 3,
                         "cases": sum(c["cases"] for c in c2.values()), "failures": len(f2)}

    known_keys = {k["key"] for k in rep.known}
    todo = []
    for f in fails:
        f["key"] = failure_key(f["class"], f["kind"], f["loc"], f["msg"], f["label"])
        if f["key"] not in known_keys:
            todo.append(f)
    # minimise only what is new (known findings carry their witness in known_findings.txt)
    seen_new = {}
    for f in todo:
        seen_new.setdefault(f["key"], f)
    with concurrent.futures.ThreadPoolExecutor(max_workers=8) as ex:
        shr = dict(zip(seen_new.keys(), ex.map(lambda f: shrink(hbin, f), seen_new.values())))
    unreproduced = []
    for f in fails:
        what = "%s in class %s (entry: %s), input class %s: %s at %s; %d case(s)" % (
            f["kind"], f["class"], classes.get(f["class"], {}).get("entry", "?"), f["label"], f["msg"][:160], f["loc"], f["count"])
        if f["key"] in known_keys:
            rep.violation(f["key"], what, None)
            continue
        line, min_len, tries, reproduced = shr.get(f["key"], (f["input"], f["orig_len"], 0, True))
        if not reproduced:
            unreproduced.append({"key": f["key"], "class": f["class"], "kind": f["kind"], "regen": f["regen"]})
            continue
        replay_obj = {"property": "C11", "class": f["class"], "entry_point": classes.get(f["class"], {}).get("entry", "?"),
                      "failure": f["kind"], "location": f["loc"], "message": f["msg"], "input_class": f["label"],
                      "input_line": line, "input_readable": describe_input(line) if line != "@regen" else "(regenerate)",
                      "regen_seed_idx": f["regen"], "orig_len": f["orig_len"], "min_len": min_len, "shrink_tries": tries,
                      "key": f["key"],
                      "replay": "python3 tools/check.py C11 --replay <this file>  (or: echo '<input_line>' | verif-harness robust replay %s)" % f["class"]}
        rep.violation(f["key"], what + " | input: " + replay_obj["input_readable"][:300], replay_obj, True)

    # ---- evidence
    total = sum(c["cases"] for c in classes.values())
    distinct = sum(len(c["input_classes"]) for c in classes.values())
    agg = {}
    for c in classes.values():
        for k, v in c["outcomes"].items():
            agg[k] = agg.get(k, 0) + v
    n_classes = len(classes)
    unrep_keys = {u["key"] for u in unreproduced}
    clean = sum(1 for name in classes
                if not any(f["class"] == name and f["key"] not in known_keys and f["key"] not in unrep_keys for f in fails))
    obligations = len(thms) + len(vp_thms) + 4 + 1 + n_classes
    discharged = ((len(thms) if ok else 0) + (len(vp_thms) if vp_ok else 0) + (1 if tie_ok else 0) + (1 if it_ok else 0) + (1 if vt_ok else 0)
                  + (1 if dt_ok else 0) + 1 + clean)
    rep.coverage.update({
        "obligations": obligations, "discharged": discharged,
        "obligation_kinds": "%d theorems of Properties/C11.v + %d of Properties/C11VerboseIter.v + 4 model/code ties inside Coq (RobustCasesCheck, RobustIterCasesCheck, VerboseIterCasesCheck, DisplayIterCasesCheck) + inventory comparison + one 'no unknown failure' obligation per entry-point class (%d)" % (len(thms), len(vp_thms), n_classes),
        "iterator_and_taptree_tie": it_info,
        "verbose_iter_tie": vt_info,
        "display_iter_tie": dt_info,
        "checker_cmd": "make -C coq; coqc Properties/C11.v; verif-harness robust models | coqc Tables/RobustCasesGen.v Tables/RobustCasesCheck.v; "
                       "verif-harness robust iters | coqc Tables/RobustIterCasesGen.v Tables/RobustIterCasesCheck.v; "
                       "coqc Properties/C11VerboseIter.v; verif-harness robust verbose | coqc Tables/VerboseIterCasesGen.v Tables/VerboseIterCasesCheck.v Tables/DisplayIterCasesCheck.v; "
                       "tools/panic_sites.py diff; verif-harness robust all <seed> <tier> --no-shrink",
        "trusted_base": vlib.TRUSTED_BASE_COMMON + [
            "harness/src/robust*.rs: supervisor, guards (catch_unwind, wall clock, counting allocator, thread stack), generators, shrinker",
            "tools/panic_sites.py (textual extraction; identity of a site = file, enclosing fn, kind, code, ordinal)",
            "the harness profile (release + debug assertions + overflow checks): debug_assert! and arithmetic overflow are panics here"],
        "partial_nature": "theorems cover the modelled functions only; see 'outside_model'. Runtime behaviours are observed, not proved.",
        "outside_model": OUTSIDE_MODEL,
        "model_tie_rows": {"threshold": tie_rows[0], "planner": tie_rows[1], "lexer": tie_rows[2], "tree_height_per_constructor": tie_rows[3], "all_equal_inside_coq": tie_ok},
        "evaluations": total, "distinct_nontrivial": distinct,
        "outcomes_total": agg,
        "per_entry_point": classes,
        "rule": "per entry point: fixed stress corpus (wrappers 1e4..1e5, nesting 390..410 / 1e4 / 1e5, 1e5 children, huge numbers, thresh k=0 / k>n, checksum / multipath / odds edge cases, non-ASCII, known defects) then seeded near-valid mutations of valid inputs, random printable / byte strings, cross-family inputs; binary entry points: mutated valid scripts / triples / PSBTs / asset sets",
        "guards": {"timeout": "10 s + 4 s per MB of input", "alloc_soft": "512 MiB + 256 B per input byte", "alloc_hard": "2 GiB (allocation fails => abort => attributed to the case)",
                   "alloc_proportional": "peak > max(1 MiB, 4096 x input length) is a violation (resource:alloc-disproportionate); 4096 = 4 x the worst ratio observed on the unchanged tree (883, wide thresh text under seven simultaneous parses); measured ratio per class in per_entry_point",
                   "stack": "2 MiB thread stack (Rust's default for spawned threads); overflow kills the child and is attributed to the announced case"},
        "samples": samples[:40],
        "failures_observed": [{"key": f["key"], "class": f["class"], "kind": f["kind"], "location": f["loc"], "input_class": f["label"],
                               "cases": f["count"], "known": f["key"] in known_keys} for f in fails],
        "unreproduced_failures (not reported: did not recur when the case was re-run alone)": unreproduced,
        "inventory": {"sites": len(cur), "committed_sites": len(old), "dispositions": disp,
                      "new_sites": [{"id": s["id"], "line": s["line"], "code": s["code"]} for s in new][:60],
                      "gone_sites": [s["id"] for s in gone][:60],
                      "new_count": len(new), "gone_count": len(gone), "directed_run": directed_info,
                      "note": "advisory: only an observed panic/timeout/overflow is a violation"},
    })
    rep.assumptions = [
        "the entry points listed in per_entry_point are the ones a caller hands untrusted data to (property text: parsers, decoder, interpreter, PSBT updater/finaliser, planner); value-level constructors are included because DESIGN 10-e is a value-level defect",
        "a structurally valid PSBT is one that rust-bitcoin's Psbt::deserialize accepts",
        "Satisfier implementations return signatures of the size the plan was made for",
        "the time / allocation / stack ceilings above are the operational meaning of 'hang', 'allocate without bound', 'overflow the stack'",
    ]


def run_replay(rep, hbin, path):
    obj = json.load(open(path))
    rep.coverage.update({"obligations": 1, "discharged": 0, "checker_cmd": "verif-harness robust replay", "trusted_base": vlib.TRUSTED_BASE_COMMON,
                         "evaluations": 1, "distinct_nontrivial": 1, "rule": "replay of one recorded input", "samples": [obj.get("input_readable", "")[:200]]})
    if "input_line" not in obj:
        # a broken tie was recorded: re-run the gates
        ok, thms = vlib.proof_gates(rep, "C11")
        if ok:
            models_tie(rep, hbin, rep.seed)
            iters_tie(rep, hbin, rep.seed)
            verbose_tie(rep, hbin, rep.seed)
            display_tie(rep, hbin, rep.seed)
            verbose_props(rep)
        return
    line = obj["input_line"]
    cls = obj["class"]
    if line == "@regen":
        seed, idx = obj["regen_seed_idx"].split(":")
        p = vlib.sh([hbin, "robust", "shrink", cls, seed, idx], timeout=900, env={"VERIF_ROBUST_SHRINK": "0"})
        m = re.search(r"^SHRUNK \S+ kind=(\S+) loc=(\S+) msg=(\S+)", p.stdout, flags=re.M)
        kind, loc, msg = (m.group(1), unhex(m.group(2)), unhex(m.group(3))) if m else ("abort", "?", p.stderr[-300:])
    else:
        import subprocess
        p = subprocess.run([hbin, "robust", "replay", cls], input=line, capture_output=True, text=True, timeout=900)
        m = re.search(r"^REPLAYTEXT kind=(\S+) loc=(.*?) msg=(.*)$", p.stdout, flags=re.M)
        kind, loc, msg = (m.group(1), m.group(2), m.group(3)) if m else ("abort", "?", p.stderr[-300:])
    if kind in ("ok", "err", "na"):
        rep.coverage["discharged"] = 1
        return
    key = failure_key(cls, kind, loc, msg, obj.get("input_class", "replay"))
    obj.update({"failure": kind, "location": loc, "message": msg})
    rep.violation(key, "replayed input still fails: %s at %s: %s" % (kind, loc, msg[:200]), obj, True)
