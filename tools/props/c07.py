"""C07 — the lifted policy is exactly the script's spending condition (DESIGN 5/C07).
Proof side: Properties/C07.v (model coq/Ms/LiftModel.v; proofs Proofs/Lift*.v).
Tie: `lift` engine (harness/src/lift.rs) — the implementation's Liftable::lift result for generated
miniscripts in every context, descriptors of every type and taproot trees is compared EXACTLY with
the model (extracted: ocaml/driver_lift.ml; a sample of every run inside Coq: Tables/LiftCases*.v).
Oracle (independent of the model of lift): for every asset world over the atoms of each script the
implementation's policy, evaluated by the specification's truth table, must agree with the
implementation's own malleable satisfier and with the specification's satisfaction table."""
import concurrent.futures, json, os, re
import vlib

LEVEL = "proof"
DRIVER = os.path.join(vlib.VERIF, "ocaml", "_build", "lift", "driver_lift")
NPARTS = 8


def sizes(tier):
    # (number of generated cases, world cap per script, sample cases checked inside Coq, worlds per sampled case)
    return (60000, 8192, 600, 40) if tier == "thorough" else (6000, 4096, 150, 40)


def build_driver():
    with vlib.Lock("ocaml-lift"):
        p = vlib.sh(["./build_lift.sh"], cwd=os.path.join(vlib.VERIF, "ocaml"), timeout=1200, stack_unlimited=True)
        if p.returncode != 0 or not os.path.exists(DRIVER):
            raise RuntimeError("extraction / lift driver build failed: " + (p.stderr or p.stdout)[-3000:])


def parse_kv(line):
    d = {"line": line[:6000]}
    for m in re.finditer(r"(\w+)=(\S+)", line):
        d.setdefault(m.group(1), m.group(2)[:3000])
    m = re.search(r" ms=(.*)$", line)
    if m:
        d["ms"] = m.group(1)[:4000]
    m = re.search(r" policy=(\S+)", line)
    if m:
        d["policy"] = m.group(1)[:4000]
    return d


def run_part(hbin, seed, n, part, nparts, cap, tag):
    raw = os.path.join(vlib.WORK, "c07-%s-raw-%d.txt" % (tag, part))
    cmd = "set -o pipefail; %s lift %d %d %d %d %d 2>/dev/null | tee %s | %s" % (hbin, seed, n, part, nparts, cap, raw, DRIVER)
    p = vlib.sh(cmd, timeout=3000)
    if p.returncode != 0:
        raise RuntimeError("lift run failed (part %d): %s" % (part, p.stderr[-2000:]))
    return raw, p.stdout


def collect(outputs):
    res = {"bad": [], "diff": [], "panic": [], "summary": {}, "hist": {}, "samples": []}
    for out in outputs:
        got = False
        for line in out.splitlines():
            if line.startswith("BAD "):
                res["bad"].append(parse_kv(line))
            elif line.startswith("DIFF "):
                res["diff"].append(parse_kv(line))
            elif line.startswith("PANIC"):
                res["panic"].append(parse_kv(line))
            elif line.startswith("SUMMARY"):
                got = True
                for k, v in re.findall(r"(\w+)=(\d+)", line):
                    res["summary"][k] = res["summary"].get(k, 0) + int(v)
            elif line.startswith("HIST "):
                _, k, v = line.split()
                res["hist"][k] = res["hist"].get(k, 0) + int(v)
            elif line.startswith("SAMPLE "):
                res["samples"].append(line[7:600])
        if not got:
            raise RuntimeError("lift driver produced no summary: " + out[-1500:])
    return res


# ---------------------------------------------------------------- harness text -> Coq terms
def blit(h):
    if h == "-":
        return "[]"
    return "[" + ";".join(str(int(h[i:i + 2], 16)) for i in range(0, len(h), 2)) + "]"


class Toks:
    def __init__(self, toks):
        self.t, self.i = toks, 0

    def next(self):
        x = self.t[self.i]
        self.i += 1
        return x


UN = {"a": "MAlt", "s": "MSwap", "c": "MCheck", "d": "MDupIf", "v": "MVerify", "j": "MNonZero", "n": "MZeroNotEqual"}
BIN = {"and_v": "MAndV", "and_b": "MAndB", "or_b": "MOrB", "or_d": "MOrD", "or_c": "MOrC", "or_i": "MOrI"}
HASH = {"sha256": "MSha256", "hash256": "MHash256", "ripemd160": "MRipemd160", "hash160": "MHash160"}
MULTI = {"multi": "MMulti", "sortedmulti": "MSortedMulti", "multi_a": "MMultiA", "sortedmulti_a": "MSortedMultiA"}


def ms_coq(tk):
    t = tk.next()
    if t == "1":
        return "MTrue"
    if t == "0":
        return "MFalse"
    if t == "pk_k":
        return "(MPkK %s)" % tk.next()
    if t == "pk_h":
        return "(MPkH %s)" % tk.next()
    if t == "raw_pk_h":
        return "(MRawPkH %s)" % blit(tk.next())
    if t == "after":
        return "(MAfter %s)" % tk.next()
    if t == "older":
        return "(MOlder %s)" % tk.next()
    if t in HASH:
        return "(%s %s)" % (HASH[t], blit(tk.next()))
    if t in UN:
        return "(%s %s)" % (UN[t], ms_coq(tk))
    if t in BIN:
        a = ms_coq(tk)
        b = ms_coq(tk)
        return "(%s %s %s)" % (BIN[t], a, b)
    if t == "andor":
        a = ms_coq(tk)
        b = ms_coq(tk)
        c = ms_coq(tk)
        return "(MAndOr %s %s %s)" % (a, b, c)
    if t == "thresh":
        k = tk.next()
        n = int(tk.next())
        return "(MThresh %s [%s])" % (k, ";".join(ms_coq(tk) for _ in range(n)))
    if t in MULTI:
        k = tk.next()
        n = int(tk.next())
        return "(%s %s [%s])" % (MULTI[t], k, ";".join(tk.next() for _ in range(n)))
    raise ValueError("ms token " + t)


PHASH = {"sha256": "LSha256", "hash256": "LHash256", "ripemd160": "LRipemd160", "hash160": "LHash160"}


def pol_coq(tk):
    t = tk.next()
    if t == "U":
        return "LUnsat"
    if t == "T":
        return "LTrivial"
    if t == "pk":
        return "(LKey %s)" % tk.next()
    if t == "after":
        return "(LAfter %s)" % tk.next()
    if t == "older":
        return "(LOlder %s)" % tk.next()
    if t in PHASH:
        return "(%s %s)" % (PHASH[t], blit(tk.next()))
    if t == "thresh":
        k = tk.next()
        n = int(tk.next())
        return "(LThresh %s [%s])" % (k, ";".join(pol_coq(tk) for _ in range(n)))
    raise ValueError("policy token " + t)


def parse_raw(path, max_cases):
    """First max_cases case blocks of a raw harness output (plus the PRE table)."""
    pres, cases, cur = [], [], None
    for line in open(path):
        t = line.split()
        if not t:
            continue
        if t[0] == "PRE":
            pres.append(t[1:7])
        elif t[0] == "CASE":
            if len(cases) >= max_cases:
                break
            cur = {"id": int(t[1]), "kind": t[2], "ms": [], "rl": [], "keyonly": None, "internal": None, "lift": None,
                   "worlds": [], "desc": ""}
        elif cur is None:
            continue
        elif t[0] == "DESC":
            cur["desc"] = t[1]
        elif t[0] == "MS":
            cur["ms"].append(t[1:])
        elif t[0] == "RL":
            cur["rl"].append(t[1] == "1")
        elif t[0] == "KEYONLY":
            cur["keyonly"] = t[1]
        elif t[0] == "INTERNAL":
            cur["internal"] = t[1]
        elif t[0] == "LIFT":
            cur["lift"] = t[1:]
        elif t[0] == "W":
            cur["worlds"].append(t[1:6])
        elif t[0] == "END":
            # very large directed scripts stay with the extracted model (parsing cost inside Coq)
            if sum(len(m) for m in cur["ms"]) <= 1500:
                cases.append(cur)
            cur = None
    return pres, cases


def cb(b):
    return "true" if b else "false"


def target_coq(c):
    k = c["kind"]
    mss = [ms_coq(Toks(m)) for m in c["ms"]]
    if k.startswith("ms-"):
        cx = {"ms-bare": "Bare", "ms-legacy": "Legacy", "ms-segv0": "Segwitv0", "ms-tap": "Tap"}[k]
        return "TMs %s %s %s" % (cx, cb(c["rl"][0]), mss[0])
    one = {"wsh": "DWsh", "shwsh": "DShWsh", "sh": "DSh", "bare": "DBare"}
    if k in one:
        return "TDesc (%s %s %s)" % (one[k], cb(c["rl"][0]), mss[0])
    ko = {"pkh": "DPkh", "wpkh": "DWpkh", "shwpkh": "DShWpkh"}
    if k in ko:
        return "TDesc (%s %s)" % (ko[k], c["keyonly"])
    if k == "tr":
        return "TDesc (DTr %s [%s])" % (c["internal"], ";".join("(%s, %s)" % (cb(r), m) for r, m in zip(c["rl"], mss)))
    raise ValueError("kind " + k)


def lres_coq(l):
    if l[0] == "OK":
        return "LOk " + pol_coq(Toks(l[1:]))
    if l[0] == "ERR" and l[1] in ("BranchExceedResourceLimits", "HeightTimelockCombination", "RawDescriptorLift"):
        return "LErr E" + l[1]
    return "LPanic"


def opt(x):
    return "None" if x == "-" else "(Some %s)" % x


def gen_coq(pres, cases, per_case):
    out = ["(* generated by tools/props/c07.py from this run's harness output; do not edit *)",
           "From Coq Require Import List NArith Bool.", "Import ListNotations.",
           "From Verif Require Import Ast LiftModel LiftLimits LiftCasesDefs.", "Open Scope N_scope.", ""]
    # the last PRE line is the all-zero preimage (not an asset)
    out.append("Definition lift_pre_table : list lpre := [%s]." % ";\n  ".join(
        "(%s, (%s, %s, %s, %s))" % (p[0], blit(p[2]), blit(p[3]), blit(p[4]), blit(p[5])) for p in pres[:-1]))
    rows = ["(%s, %s)" % (target_coq(c), lres_coq(c["lift"])) for c in cases]
    names = []
    for i in range(0, max(len(rows), 1), 100):
        nm = "lift_cases_p%d" % (i // 100)
        names.append(nm)
        out.append("Definition %s : list lcase := [\n  %s]." % (nm, ";\n  ".join(rows[i:i + 100])))
    out.append("Definition lift_cases : list lcase := %s." % " ++ ".join(names))
    wrows, wmap = [], []
    for idx, c in enumerate(cases):
        ws = c["worlds"]
        # worlds of very wide scripts stay with the extracted model (the list-valued table is huge there)
        if c["lift"][0] != "OK" or not ws or sum(len(m) for m in c["ms"]) > 300:
            continue
        step = max(1, len(ws) // per_case)
        for j in range(0, len(ws), step):
            w = ws[j]
            if w[4] == "P":
                continue
            wrows.append("(%d%%nat, %s, %s, %s, %s, %s)" % (idx, w[0], w[1], opt(w[2]), opt(w[3]), cb(w[4] == "1")))
            wmap.append((idx, w))
    names = []
    for i in range(0, max(len(wrows), 1), 1500):
        nm = "lift_worlds_p%d" % (i // 1500)
        names.append(nm)
        out.append("Definition %s : list lworld := [\n  %s]." % (nm, ";\n  ".join(wrows[i:i + 1500])))
    out.append("Definition lift_worlds : list lworld := %s." % " ++ ".join(names))
    return "\n".join(out) + "\n", wmap


def coq_sample(rep, raw0, ncases, per_case, seed, n, cap):
    """Sample of this run inside Coq. Returns (ok, n_cases, n_worlds)."""
    pres, cases = parse_raw(raw0, ncases)
    text, wmap = gen_coq(pres, cases, per_case)
    tdir = os.path.join(vlib.COQ, "Tables")
    open(os.path.join(tdir, "LiftCasesGen.v"), "w").write(text)
    for f in ("Tables/LiftCasesDefs.v", "Tables/LiftCasesGen.v"):  # LiftLimits.vo comes from make
        c = vlib.coqc(f)
        if c.returncode != 0:
            raise RuntimeError("%s does not compile: %s" % (f, (c.stderr or c.stdout)[-2000:]))
    c2 = vlib.coqc("Tables/LiftCasesCheck.v")
    if c2.returncode == 0:
        return True, len(cases), len(wmap)
    # on-break: locate the differing sample cases / worlds
    c3 = vlib.coqc("Tables/LiftCasesDiag.v")
    m = re.search(r"=\s*\(\[([^\]]*)\],\s*\[([^\]]*)\]\)", re.sub(r"\s+", " ", c3.stdout)) if c3.returncode == 0 else None
    if not m:
        rep.violation("coq-sample-diag", "LiftCasesCheck.v fails and the diagnosis did not run: " + (c3.stderr or c2.stderr)[-800:],
                      {"property": "C07", "broken_tie": "Tables/LiftCasesCheck.v"}, found_input=False)
        return False, len(cases), len(wmap)
    bad_c = [int(x) for x in m.group(1).replace("%nat", "").split(";") if x.strip()]
    bad_w = [int(x) for x in m.group(2).replace("%nat", "").split(";") if x.strip()]
    for i in bad_w[:20]:
        idx, w = wmap[i]
        c = cases[idx]
        rep.violation("coq:world:%s" % c["kind"],
                      "inside Coq: policy / satisfier / table disagree for case %d world %s" % (c["id"], w),
                      replay_obj(seed, n, cap, c["id"], {"kind": c["kind"], "ms": " | ".join(" ".join(m) for m in c["ms"]), "desc": c["desc"],
                                 "lift": " ".join(c["lift"]), "keymask": w[0], "premask": w[1], "lock": w[2], "seq": w[3],
                                 "satisfier_says": w[4], "failed_clause": "Tables/LiftCasesCheck.v: lift_worlds_match_spec"}), True)
    for i in bad_c[:20]:
        c = cases[i]
        rep.violation("coq:lift:%s" % c["kind"],
                      "inside Coq: implementation's lift differs from the model for case %d: %s" % (c["id"], " ".join(c["lift"])[:300]),
                      replay_obj(seed, n, cap, c["id"], {"kind": c["kind"], "ms": " | ".join(" ".join(m) for m in c["ms"]), "desc": c["desc"],
                                 "lift": " ".join(c["lift"]), "broken_tie": "Tables/LiftCasesCheck.v: lift_cases_match_model"}), False)
    return False, len(cases), len(wmap)


def replay_obj(seed, n, cap, case_id, extra):
    cid = int(case_id)
    # ids above 1000000 are the committed corpus and the directed resource-limit family (harness/src/lift.rs),
    # emitted by part 0 of every run
    rerun = ("verif-harness lift %d 0 0 1 %d" % (seed, cap)) if cid > 1000000 else ("verif-harness lift %d %d %d %d %d" % (seed, n, cid - 1, n, cap))
    d = {"property": "C07", "engine": "lift", "seed": seed, "n": n, "cap": cap, "case": cid,
         "rerun": rerun + " | ocaml/_build/lift/driver_lift"}
    d.update(extra)
    return d


def root_frag(ms):
    return (ms or "-").split(" ")[0]


def who(b):
    p, s, t = b.get("policy_says"), b.get("satisfier_says"), b.get("table_says")
    if s == t and p != s:
        return "policy-alone"
    if p == t and s != p:
        return "satisfier-alone"
    if p == s and t != p:
        return "table-alone"
    return "mixed"


def report(rep, r, seed, n, cap):
    """Violations from one driver result. Returns the set of case ids with an oracle failure."""
    bad_cases = set()
    # smallest script first: the replay written for a key is the first one reported
    for b in sorted(r["bad"], key=lambda x: (len(x.get("ms", "")), x.get("case", ""))):
        bad_cases.add(b.get("case"))
        if b.get("limit"):
            # the policy is true in this world, but the satisfaction the library builds there breaks a
            # resource limit of the context (or is rejected by the Script semantics): the path is not spendable
            what = ("lifted policy is true in a world whose witness is not spendable: %s ms=[%s] world(keymask=%s premask=%s lock=%s seq=%s): %s "
                    "(witness items=%s bytes=%s ops=%s depth=%s)" %
                    (b.get("kind"), b.get("ms", "")[:200], b.get("keymask"), b.get("premask"), b.get("lock"), b.get("seq"), b.get("limit"),
                     b.get("items"), b.get("bytes", "-"), b.get("ops", "-"), b.get("depth", "-")))
            rep.violation("c07:unspendable:%s:%s" % (b.get("limit"), b.get("kind")), what,
                          replay_obj(seed, n, cap, b.get("case", 0), dict(b, ms=b.get("ms", "")[:2000], line=b.get("line", "")[:1500],
                                     failed_clause="policy true in W => some witness over W within the context's resource limits is accepted")), True)
            continue
        w = who(b)
        what = ("lifted policy does not match the spending condition: %s ms=[%s] world(keymask=%s premask=%s lock=%s seq=%s): "
                "policy says %s, implementation's satisfier says %s, specification table says %s; policy=%s" %
                (b.get("kind"), b.get("ms", "")[:300], b.get("keymask"), b.get("premask"), b.get("lock"), b.get("seq"),
                 b.get("policy_says"), b.get("satisfier_says"), b.get("table_says"), b.get("policy", "")[:300]))
        rep.violation("c07:%s:%s" % (w, root_frag(b.get("ms")) if b.get("kind") != "tr" else "tr"), what,
                      replay_obj(seed, n, cap, b.get("case", 0), dict(b, who_disagrees=w,
                                 failed_clause="leval W (lift d) = (satisfier finds a satisfaction under W) = (all_sat W d <> [])")), True)
    for d in r["diff"]:
        if d.get("line", "").startswith("DIFF rl"):
            found = d.get("case") in bad_cases
            rep.violation("tie:within_resource_limits:%s" % d.get("kind"),
                          "model of within_resource_limits (LiftLimits.v over ExtModel.ext_of) and implementation disagree: %s" % d.get("line", "")[:400],
                          replay_obj(seed, n, cap, d.get("case", 0), dict(d, line=d.get("line", "")[:1500], ms=d.get("ms", "")[:2000],
                                     broken_tie="correspondence LiftLimits.within_resource_limits vs Miniscript::within_resource_limits")), found)
            continue
        found = d.get("case") in bad_cases
        rep.violation("tie:lift-model:%s" % d.get("kind"),
                      "model of lift and implementation disagree: %s" % d.get("line", "")[:600],
                      replay_obj(seed, n, cap, d.get("case", 0), dict(d, broken_tie="correspondence LiftModel.v (lift_iter / lift_desc) vs Liftable::lift",
                                 note="the oracle found a world where the implementation's policy is wrong for this case" if found else
                                      "no world over this script's atoms separates the implementation's policy from the spending condition")),
                      found)
    for p in r["panic"]:
        rep.violation(panic_key(p), "library panicked: %s" % p.get("line", "")[:400],
                      replay_obj(seed, n, cap, p.get("case", 0), dict(p, failed_clause="lift / satisfier panicked")), True)
    return bad_cases


def panic_key(p):
    """Stable key of a panic observation, computed from the failing input."""
    toks = p.get("line", "PANIC").split()
    what = toks[1] if len(toks) > 1 else "unknown"
    if what == "satisfier" and p.get("kind") == "sh":
        try:
            if max(int(x) for x in p.get("scriptlen", "0").split(",") if x) > 520:
                # lift (lift_check) accepted a P2SH script whose redeem script exceeds 520 bytes; see known_findings.txt
                return "panic:satisfier:sh-script-over-520"
        except ValueError:
            pass
    return "panic:%s:%s" % (what, p.get("kind", "-"))


def desc_stage(rep, ok, thms):
    """Extension round 2: the descriptor-level statements (Properties/C07Desc.v: the lifted policy against
    Spend.verify_wsh with all its limits) are gated the way proof_gates gates EXTRA_PROPERTY_FILES."""
    if not ok:
        return ok, thms
    t2, b2, pr2, _ = vlib.check_property_file("C07Desc")
    if pr2:
        rep.violation("property-file", "; ".join(pr2),
                      {"property": "C07", "broken_tie": "Properties/C07Desc.v", "problems": pr2}, found_input=False)
        ok = False
    thms = thms + t2
    rep.coverage["theorems"] = thms
    rep.coverage["print_assumptions"] = list(rep.coverage.get("print_assumptions", [])) + \
        [("closed" if b["closed"] else ",".join(b["axioms"])) for b in b2]
    rep.coverage["descriptor_level_theorems"] = t2
    return ok, thms


def run(rep, tier, seed, replay):
    hbin = vlib.build_harness()
    build_driver()
    os.makedirs(vlib.WORK, exist_ok=True)
    n, cap, ncoq, per_case = sizes(tier)
    if replay:
        rp = json.load(open(replay))
        if "case" in rp and rp.get("engine") == "lift" and int(rp.get("case", 0)) > 0:
            rseed, rn, rcap, cid = int(rp["seed"]), int(rp["n"]), int(rp.get("cap", cap)), int(rp["case"])
            if cid > 1000000:
                raw, out = run_part(hbin, rseed, 0, 0, 1, rcap, "replay")
            else:
                raw, out = run_part(hbin, rseed, rn, cid - 1, rn, rcap, "replay")
            r = collect([out])
            report(rep, r, rseed, rn, rcap)
            s = r["summary"]
            rep.coverage.update({"obligations": 1, "discharged": 0 if (r["bad"] or r["diff"] or r["panic"]) else 1,
                                 "checker_cmd": rp.get("rerun"), "trusted_base": vlib.TRUSTED_BASE_COMMON,
                                 "evaluations": s.get("worlds", 0) + s.get("cases", 0), "distinct_nontrivial": s.get("worlds_true", 0),
                                 "rule": "replay of one case", "samples": r["samples"] or [rp.get("ms", "-")], "histogram": r["hist"]})
            return
    ok, thms = vlib.proof_gates(rep, "C07")
    ok, thms = desc_stage(rep, ok, thms)
    with concurrent.futures.ThreadPoolExecutor(max_workers=NPARTS) as ex:
        futs = [ex.submit(run_part, hbin, seed, n, part, NPARTS, cap, "s%d" % seed) for part in range(NPARTS)]
        results = [f.result() for f in futs]
    r = collect([o for _, o in results])
    report(rep, r, seed, n, cap)
    with vlib.Lock("coq-c07"):
        coq_ok, coq_cases, coq_worlds = coq_sample(rep, results[0][0], ncoq, per_case, seed, n, cap)
    s = r["summary"]
    tie_ok = not r["diff"] and s.get("lift_diff", 0) == 0 and s.get("rl_diff", 0) == 0
    oracle_ok = not r["bad"] and not r["panic"] and s.get("over_limit", 0) == 0 and s.get("x_bad", 0) == 0
    hist = r["hist"]
    rep.coverage.update({
        "obligations": len(thms) + 3,
        "discharged": (len(thms) if ok else 0) + (1 if tie_ok else 0) + (1 if oracle_ok else 0) + (1 if coq_ok else 0),
        "checker_cmd": "make -C coq; coqc Properties/C07.v; %d x (verif-harness lift %d %d <part> %d %d | ocaml/_build/lift/driver_lift "
                       "(extracted from coq/Extract/ExtractLift.v)); coqc Tables/LiftCases{Defs,Gen,Check}.v" % (NPARTS, seed, n, NPARTS, cap),
        "trusted_base": vlib.TRUSTED_BASE_COMMON + [
            "Coq extraction to OCaml (ExtrOcamlBasic only) and ocaml/driver_lift.ml (text parsing, table lookups); cross-checked on a sample by vm_compute inside Coq each run",
            "truth-table semantics leval and the satisfaction table all_sat (SatSpec.v) are hand-written specifications",
            "within_resource_limits is computed by the model (LiftLimits.v) from the C09 ExtData model ExtModel.ext_of, whose figures are tied exactly by the C09 check; here the resulting verdict is compared on every case",
            "the instrumented Script semantics coq/Script/ExecTr.v (opcode count, stack depth) and the dummy-signature environment of the driver",
            "whether a satisfaction the satisfier returns really spends is C01's oracle, not re-executed here (signatures are dummies)"],
        "evaluations": s.get("worlds", 0) + s.get("cases", 0),
        "distinct_nontrivial": s.get("worlds_true", 0),
        "rule": "seeded type-directed generator (harness/src/ast.rs) of well-typed miniscripts, depth 1-4, base types B (13/16) V K W, in "
                "Segwitv0/Legacy/Bare/Tap as bare Miniscript::lift, and wrapped as wsh, sh(wsh), sh, bare, pkh, wpkh, sh(wpkh), tr with 0-4 "
                "leaves in 1-3 bracketings; 30% decorated with compositions over the constants 0/1 (or_i(0,X), and_v(v:X,1), thresh with a:0 "
                "children, andor(X,1,Y) ...) to exercise normalized; 5% with a raw_pk_h leaf; worlds: every subset of the script's keys x every "
                "subset of its preimages x held nLockTime in {none, t-1, t, other unit} x held nSequence in {none, t-1, t, other unit, disabled} "
                "for every time lock t — complete when <= 10 atoms and <= cap worlds, else a seeded sample of 768; non-trivial = worlds where the policy is true",
        "cases": s.get("cases", 0), "lift_ok": s.get("lift_ok", 0), "lift_err": s.get("lift_err", 0),
        "lift_equal_model": s.get("lift_eq", 0), "lift_differs_from_model": s.get("lift_diff", 0),
        "worlds_evaluated": s.get("worlds", 0), "worlds_policy_true": s.get("worlds_true", 0),
        "worlds_three_way_agree": s.get("worlds", 0) - s.get("bad", 0) - s.get("sat_panic", 0), "worlds_disagree": s.get("bad", 0),
        "within_resource_limits_equal_model": s.get("rl_eq", 0), "within_resource_limits_differs": s.get("rl_diff", 0),
        "satisfied_worlds_over_a_context_limit": s.get("over_limit", 0),
        "witnesses_executed_by_spec_semantics": s.get("x_run", 0), "witnesses_rejected_or_over_limit": s.get("x_bad", 0),
        "scripts_swept_exhaustively": s.get("exhaustive", 0), "scripts_sampled_worlds": s.get("sampled", 0),
        "coq_sample_cases": coq_cases, "coq_sample_worlds": coq_worlds, "coq_sample_ok": coq_ok,
        "fragment_histogram": {k[5:]: v for k, v in sorted(hist.items()) if k.startswith("frag/")},
        "kind_histogram": {k[5:]: v for k, v in sorted(hist.items()) if k.startswith("kind/")},
        "policy_node_histogram": {k[4:]: v for k, v in sorted(hist.items()) if k.startswith("pol/")},
        "lift_error_histogram": {k[8:]: v for k, v in sorted(hist.items()) if k.startswith("lifterr/")},
        "atoms_per_script_histogram": {k[6:]: v for k, v in sorted(hist.items()) if k.startswith("atoms/")},
        "worlds_per_script_histogram": {k[7:]: v for k, v in sorted(hist.items()) if k.startswith("worlds/")},
        "samples": r["samples"][:16],
    })
    rep.assumptions = [
        "C07_lift_table is an equivalence at the level of the specification's satisfaction table; the Script-level converse (hides no path) needs Theorem B, which is not proved: C07_script_direction_partial",
        "BIP67 sorting permutes the keys (hypothesis sort_permutes of the theorems)",
        "asset worlds treat distinct keys / preimages as independent atoms; time locks are judged by the held nLockTime / nSequence value exactly as the library's Satisfier impls for LockTime / Sequence do"]
