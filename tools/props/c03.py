"""C03 — non-malleable satisfactions cannot be altered by third parties (DESIGN 5/C03).
Proof side: Properties/C03.v — has_sig bookkeeping of the satisfier model; TABLE-LEVEL uniqueness (U1, all
fragments): the witness the non-malleable model returns is the only satisfaction-table entry of the third party
that saw it (Proofs/NonMallUnique*.v); and the FULL statement at the level of the Script semantics (U3, C03_script_full:
every accepted stack whose valid signatures are published ones equals the published witness; Proofs/NonMallScript*.v,
notes/C03-unique.md).  The search below now cross-checks the model/implementation correspondence and the descriptor wrappers.
Search side: for every non-malleable satisfaction the implementation returns for a sane
wsh / sh(wsh) / sh / bare / tr-script-path descriptor with <= 6 script inputs, alternative witnesses over the adversary's
alphabet (elements of the original witness, empty, 01, 32 zero bytes, junk, every preimage,
every public key) of every length <= n+1 are executed on the extracted Script semantics
(exhaustive while the budget allows, then random single-position edits); an accepted
alternative is the replay."""
import vlib, satrun

LEVEL = "proof"


def run(rep, tier, seed, replay):
    ok, thms = vlib.proof_gates(rep, "C03")
    n = 2500 if tier == "thorough" else 220
    r = satrun.run(seed, n, "--c03")
    s = r["summary"]
    for b in r["bad"].get("C03", []):
        rep.violation("c03:alternative-witness", "a third party can replace the witness of %s" % b.get("desc", "")[:200],
                      dict(b, property="C03", engine="sat --c03", seed=seed, n=n,
                           failed_clause="verify_spend accepts an alternative witness built from the adversary's alphabet"), True)
    for d in r["diff"]:
        rep.violation("tie:satisfier-model", "model of the satisfier and implementation disagree: %s" % d.get("line", "")[:300],
                      dict(d, property="C03", broken_tie="correspondence Sat.v vs implementation", seed=seed, n=n), False)
    tie_ok = not r["diff"]
    rep.coverage.update({
        "obligations": len(thms) + 1, "discharged": (len(thms) if ok else 0) + (1 if tie_ok else 0),
        "checker_cmd": "make -C coq; coqc Properties/C03.v; verif-harness sat %d %d | ocaml/driver --c03" % (seed, n),
        "trusted_base": vlib.TRUSTED_BASE_COMMON + ["Coq extraction (ExtrOcamlBasic) + ocaml/driver.ml (alphabet construction, enumeration)"],
        "evaluations": s.get("c03_candidates", 0), "distinct_nontrivial": s.get("c03_checked", 0),
        "rule": "alternative witnesses per original non-malleable witness: exhaustive over the alphabet for lengths whose count fits the per-witness budget (4000), then random candidates biased to single-position edits; non-trivial = an original witness of a sane wsh/sh(wsh) descriptor that was searched",
        "witnesses_searched": s.get("c03_checked", 0), "alternatives_executed": s.get("c03_candidates", 0),
        "alternatives_accepted": s.get("c03_bad", 0), "cases": s.get("cases", 0),
        "samples": [{"summary": s}],
    })
    rep.assumptions = ["the uniqueness statement is a theorem about the Script semantics model (C03_script_full); the bounded search (budget per witness) checks the real implementation and the descriptor wrappers against it",
                       "pkh / wpkh / sh(wpkh) / tr key path have a single signature element and are not searched"]
