"""C12 — accepted scripts obey their context; validation switches mean what they say (DESIGN 5/C12).

Proof: Properties/C12.v (lattice, monotone, switch/limit exactness, accepted_ok, desc_implies_ms,
primitive ranges; refuted witnesses + strongest true variants for the wsh/sh/bare wrappers).
Tie, re-established on every run:
  (a) COMPLETE: every public ValidationParams constant field by field, and intersect / entails of the
      compiled library on the generating set, proved equal to the model's inside Coq
      (Tables/ParamTablesCheck.v on the regenerated Tables/ParamTablesGen.v);
  (b) correspondence: generated expressions (strings) in the four contexts go through every entry
      point of the compiled library under CONSENSUS, SANE, every single-switch flip, and limits around
      each script's own figures; every recorded call is replayed on the model inside Coq
      (Tables/ValidateCasesCheck.v, one shard per core).
Oracle (independent of the model): the harness re-reads every accepted object through the public
Terminal tree and judges it with its own typing / size / lock / key analyses (harness/src/vgen.rs).
  (c) constructor stream (harness/src/vctor.rs, model Ms/ValidateCtorModel.v): every descriptor-level public constructor
      taking keys or a Threshold of keys on directed + generated inputs; accepted objects judged by the same
      independent analyses and against Descriptor::from_str of the printed form; every call replayed in Coq."""
import collections, concurrent.futures, json, os, re, shutil
import vlib

LEVEL = "proof"
PID = "C12"
QUICK = {"cases": 1344, "shards": 8}
THOROUGH = {"cases": 35840, "shards": 32}
BOOLS = ["allow_compressed_keys", "allow_duplicate_keys", "allow_dup_if", "allow_malleability", "allow_multi",
         "allow_multi_a", "allow_mixed_time_locks", "allow_or_i", "allow_raw_pkh", "allow_sigless_branch", "allow_non_b",
         "allow_uncompressed_keys", "allow_unsatisfiable", "allow_x_only_keys", "allow_inconsistent_multipath_keys"]
LIMS = ["max_opcode_count", "max_script_size", "max_witness_items", "max_exec_stack_size", "max_recursive_depth"]
ENTRY = {1: "Miniscript::from_str_with_validation_params(MAX)", 2: "Miniscript::from_str", 3: "Miniscript::from_str_insane",
         4: "Miniscript::from_str_with_validation_params", 20: "Descriptor/Wsh/Sh/Bare::from_str", 21: "Wsh/Sh/Bare::new",
         22: "Tr::from_str", 23: "Descriptor::from_str(tr)", 24: "Descriptor::from_str(sh(wsh))", 25: "Tr::new(TapTree::leaf)",
         26: "Descriptor::new_wsh/new_sh/new_bare", 27: "Sh::new_wsh", 28: "Wsh::new_sortedmulti / Sh::new_sortedmulti (+ Descriptor:: shorthands)",
         29: "Sh::new_wsh_sortedmulti (+ Descriptor::new_sh_wsh_sortedmulti)", 33: "Pkh::new", 34: "Wpkh::new / Sh::new_wpkh", 35: "Tr::new(key, None)",
         36: "Wsh|Sh|Bare::new(Miniscript::from_ast(Terminal::(Sorted)Multi(thresh))?)", 30: "Miniscript::decode_with_validation_params",
         31: "Miniscript::decode", 32: "Miniscript::decode_consensus"}
CODES = {0: "Ok", 1: "DuplicateKeys", 2: "IllegalDupIf", 3: "IllegalMulti", 4: "IllegalMultiA", 5: "IllegalOrI", 6: "IllegalRawPkh",
         7: "Malleable", 8: "MaxOpCountExceeded", 9: "MaxScriptSizeExceeded", 10: "MaxWitnessItemsExceeded",
         11: "MaxExecStackSizeExceeded", 12: "MaxRecursiveDepthExceeded", 13: "MixedTimeLocks", 14: "MultipathKeyLenMismatch",
         15: "SiglessBranch", 16: "Key:Compressed", 17: "Key:Uncompressed", 18: "Key:XOnly", 19: "Unsatisfiable", 20: "NonBase(B)",
         21: "NonBase(K)", 22: "NonBase(V)", 23: "NonBase(W)", 30: "Parse:Syntax", 31: "Parse:Threshold", 32: "Parse:LockTime",
         33: "Parse:Type", 34: "Parse:Depth", 40: "Ctx:XOnlyKey", 41: "Ctx:UncompressedKey", 42: "Ctx:MultiA", 43: "Ctx:Multi",
         44: "Ctx:ScriptSize", 45: "Ctx:other", 50: "Top:Multipath", 51: "Top:NonStandardBare", 97: "PANIC", 99: "other"}
Q = ["-Q", "Ms", "Verif", "-Q", "Proofs", "Verif", "-Q", "Properties", "Verif", "-Q", "Tables", "Verif"]


def coqc(path, extra_q=None, out=None, timeout=1500):
    cmd = ["timeout", str(timeout), "coqc", "-noglob"] + Q + (["-Q", extra_q, "Verif"] if extra_q else []) + vlib.COQ_W
    if out:
        cmd += ["-o", out]
    return vlib.sh(cmd + [path], cwd=vlib.COQ, timeout=timeout + 60, stack_unlimited=True)


def wdir():
    d = os.path.join(vlib.WORK, "c12")
    os.makedirs(d, exist_ok=True)
    return d


# ------------------------------------------------------------------------------ (a) parameter tables
def unpack(tab, w):
    return {"bools": [(w >> i) & 1 for i in range(15)], "limits": [tab[(w >> (15 + 8 * j)) & 255] for j in range(5)]}


def meet(a, b):
    return {"bools": [x & y for x, y in zip(a["bools"], b["bools"])], "limits": [min(x, y) for x, y in zip(a["limits"], b["limits"])]}


def leq(a, b):
    return all(x <= y for x, y in zip(a["bools"], b["bools"])) and all(x <= y for x, y in zip(a["limits"], b["limits"]))


def named(p):
    d = {n: bool(v) for n, v in zip(BOOLS, p["bools"])}
    d.update({n: v for n, v in zip(LIMS, p["limits"])})
    return d


def check_params(rep, hbin, seed):
    tdir = os.path.join(vlib.COQ, "Tables")
    gen = os.path.join(tdir, "ParamTablesGen.v")
    p = vlib.sh([hbin, "validate", "params", gen], timeout=600)
    if p.returncode != 0:
        raise RuntimeError("validate params failed: " + p.stderr[-2000:])
    text = open(gen).read()
    nrows = int(re.search(r"g_nrows : N := (\d+)", text).group(1))
    nprims = int(re.search(r"g_nprims : N := (\d+)", text).group(1))
    for f in ("Tables/ParamTablesGen.v", "Tables/ParamTablesDefs.v", "Tables/ParamTablesConsts.v"):
        c = coqc(f)
        if c.returncode != 0:
            raise RuntimeError("%s does not compile: %s" % (f, (c.stderr or c.stdout)[-2000:]))
    c = coqc("Tables/ParamTablesCheck.v")
    ok = c.returncode == 0
    info = {"constants_compared": 11, "lattice_rows_compared_in_coq": nrows, "primitive_rows_compared_in_coq": nprims,
            "differing_constants": [], "differing_rows": 0, "differing_primitive_rows": 0}
    # every u32 through AbsLockTime / RelLockTime::from_consensus against the specification's range (oracle, complete)
    sw = vlib.sh([hbin, "validate", "locksweep"], timeout=900)
    try:
        sweep = json.loads(sw.stdout.strip().splitlines()[-1])
    except (ValueError, IndexError):
        raise RuntimeError("validate locksweep failed: " + sw.stderr[-1000:])
    info["lock_values_swept"] = sweep["swept"]
    if sweep["bad_abs"] or sweep["bad_rel"]:
        which, n = sweep["first"]
        rep.violation("lock-range", "%s(%d) is %s although the range is 1 <= n < 2^31 (%d absolute / %d relative values misjudged)" %
                      (which, n, "accepted" if not (1 <= n < 2 ** 31) else "rejected", sweep["bad_abs"], sweep["bad_rel"]),
                      {"property": PID, "function": "AbsLockTime/RelLockTime::from_consensus", "fragment": which, "input": n,
                       "failed_clause": "time locks in range"}, found_input=True)
    if ok:
        return True, info, text
    # ---- on-break protocol: locate, then judge the implementation's own answers by the lattice laws
    d = coqc("Tables/ParamTablesDiag.v")
    consts = ["MAX", "SANE", "CONSENSUS", "BareCtx::CONSENSUS", "BareCtx::SANE", "Legacy::CONSENSUS", "Legacy::SANE",
              "Segwitv0::CONSENSUS", "Segwitv0::SANE", "Tap::CONSENSUS", "Tap::SANE"]
    tab = [int(x) for x in re.search(r"g_limtab : list N := \[([^\]]*)\]", text).group(1).split(";")]
    dtext = re.sub(r"%\w+", "", re.sub(r"\s+", " ", d.stdout))
    m = re.search(r"=\s*\(\[([^\]]*)\],\s*\[(.*)\]\)\s*:", dtext, flags=re.S) if d.returncode == 0 else None
    if not m:
        rep.violation("params-diag", "ParamTablesCheck.v fails and the diagnosis did not run: " + (d.stderr or c.stderr)[-800:],
                      {"property": PID, "broken_tie": "Tables/ParamTablesCheck.v"}, found_input=False)
        return False, info, text
    bad_consts = [consts[int(x)] for x in m.group(1).split(";") if x.strip()]
    info["differing_constants"] = bad_consts
    defs = {}
    for name, body in re.findall(r"Definition g_(\w+) : vparams :=\s*\{\|(.*?)\|\}", text, flags=re.S):
        defs[name] = {k.strip(): (v.strip() == "true" if v.strip() in ("true", "false") else int(v)) for k, v in
                      (f.split(":=") for f in body.split(";"))}
    for cn in bad_consts:
        key = cn.replace("::", "_").replace("BareCtx", "Bare")
        info.setdefault("pending", []).append(
            ("const:%s" % cn, "ValidationParams constant %s differs from the model: %s" % (cn, defs.get(key)),
             {"property": PID, "broken_tie": "constants_match_model (Tables/ParamTablesCheck.v)", "constant": cn,
              "implementation_value": defs.get(key)}))
    rows = re.findall(r"\((\d+), (\d+), (\d+), (true|false), (true|false), (true|false)\)", re.sub(r"\s+", " ", m.group(2)))
    info["differing_rows"] = len(rows)
    for a, b, re_, iok, eok, _me in rows[:10]:
        pa, pb, pr, ent = unpack(tab, int(a)), unpack(tab, int(b)), unpack(tab, int(re_) >> 1), bool(int(re_) & 1)
        if iok == "false":
            law = "not a lower bound of its arguments" if not (leq(pr, pa) and leq(pr, pb)) else "not the greatest lower bound"
            spec_fail = pr != meet(pa, pb)
            rep.violation("intersect", "ValidationParams::intersect is %s" % law,
                          {"property": PID, "function": "ValidationParams::intersect", "a": named(pa), "b": named(pb),
                           "implementation": named(pr), "meet": named(meet(pa, pb)), "failed_clause": "lattice: intersect is the meet",
                           "broken_tie": "lattice_rows_match_model"}, found_input=spec_fail)
        if eok == "false":
            rep.violation("entails", "ValidationParams::entails(a, b) = %s but a <= b fieldwise is %s" % (ent, leq(pa, pb)),
                          {"property": PID, "function": "ValidationParams::entails", "a": named(pa), "b": named(pb),
                           "implementation": ent, "fieldwise_le": leq(pa, pb), "failed_clause": "lattice: entails p q <-> p <= q",
                           "broken_tie": "lattice_rows_match_model"}, found_input=(ent != leq(pa, pb)))
    # primitive constructors (second Eval of the diagnosis file)
    pm = re.search(r"=\s*\(\[([^\]]*)\],\s*\[([^\]]*)\]\)\s*:\s*list \(N \* N \* N\) \* list N", dtext)
    prim_bad = 0
    if pm:
        for mm, kk, nn in re.findall(r"\((\d+), (\d+), (\d+)\)", pm.group(1)):
            mm, kk, nn = int(mm), int(kk), int(nn)
            prim_bad += 1
            spec_ok = 1 <= kk <= nn and (mm == 0 or nn <= mm)
            rep.violation("threshold-range", "Threshold::<_, %d>::new(%d, %d items) is %s; the range is 1 <= k <= n%s" %
                          (mm, kk, nn, "rejected" if spec_ok else "accepted", "" if mm == 0 else " <= %d" % mm),
                          {"property": PID, "function": "Threshold::new", "MAX": mm, "k": kk, "n": nn, "failed_clause": "thresholds in range",
                           "broken_tie": "primitives_match_model"}, found_input=True)
        for nn in [int(x) for x in pm.group(2).split(";") if x.strip()]:
            prim_bad += 1
            rep.violation("lock-range-table", "lock constructors differ from the model at %d" % nn,
                          {"property": PID, "function": "AbsLockTime/RelLockTime::from_consensus", "input": nn,
                           "broken_tie": "primitives_match_model"}, found_input=not (sweep["bad_abs"] == 0 and sweep["bad_rel"] == 0))
    fm = re.search(r"=\s*\[([^\]]*)\]\s*:\s*list \(N \* N \* N \* N\)", dtext)
    if fm:
        for mm, kk, hh, nn in re.findall(r"\((\d+), (\d+), (\d+), (\d+)\)", fm.group(1)):
            mm, kk, hh, nn = int(mm), int(kk), int(hh), int(nn)
            prim_bad += 1
            spec_ok = 1 <= kk <= nn and (mm == 0 or nn <= mm)
            rep.violation("threshold-from_iter-table", "Threshold::<_, %d>::from_iter(%d, %d items, size_hint %d) differs from the model (range %s)" %
                          (mm, kk, nn, hh, "holds" if spec_ok else "fails"),
                          {"property": PID, "function": "Threshold::from_iter", "MAX": mm, "k": kk, "n": nn, "size_hint": hh,
                           "failed_clause": "thresholds in range", "broken_tie": "primitives_match_model"}, found_input=not spec_ok)
    info["differing_primitive_rows"] = prim_bad
    if not bad_consts and not rows and not prim_bad:
        rep.violation("params-unknown", "ParamTablesCheck.v fails: " + (c.stderr or c.stdout)[-800:],
                      {"property": PID, "broken_tie": "Tables/ParamTablesCheck.v"}, found_input=False)
    return False, info, text


# ------------------------------------------------------------------------------ (b) cases
def run_shard(args):
    hbin, seed, k, spec, corpus = args
    d = os.path.join(wdir(), "s%d" % k)
    shutil.rmtree(d, ignore_errors=True)
    os.makedirs(d)
    cmd = [hbin, "validate", "cases", str(seed), spec, os.path.join(d, "ValidateCasesGen.v"), os.path.join(d, "obs.jsonl")]
    if corpus:
        cmd.append(corpus)
    p = vlib.sh(cmd, timeout=3000)
    if p.returncode != 0:
        return k, "harness", p.stderr[-2000:], None
    g = coqc(os.path.join(d, "ValidateCasesGen.v"), extra_q=d)
    if g.returncode != 0:
        return k, "gen", (g.stderr or g.stdout)[-2000:], None
    c = coqc("Tables/ValidateCasesCheck.v", extra_q=d, out=os.path.join(d, "ValidateCasesCheck.vo"))
    m = re.search(r"=\s*\((\d+),\s*(\d+)\)", re.sub(r"\s+", " ", c.stdout))
    stats = (int(m.group(1)), int(m.group(2))) if m else (0, 0)
    if c.returncode == 0:
        return k, "ok", "", stats
    dg = coqc("Tables/ValidateCasesDiag.v", extra_q=d, out=os.path.join(d, "ValidateCasesDiag.vo"))
    return k, "mismatch", dg.stdout if dg.returncode == 0 else (c.stderr or c.stdout)[-2000:], stats


def parse_diag(text):
    flat = re.sub(r"%\w+", "", re.sub(r"\s+", " ", text))
    return [tuple(int(x) for x in t) for t in
            re.findall(r"\((\d+), (\d+), \((\d+), (\d+), (\d+), (\d+), (\d+), (\d+)\)\)", flat)]


def load_obs(k):
    rows = []
    with open(os.path.join(wdir(), "s%d" % k, "obs.jsonl")) as f:
        head = json.loads(f.readline())
        for line in f:
            if line.strip():
                rows.append(json.loads(line))
    return head, rows


def replay_obj(r, seed, key, what):
    return {"property": PID, "engine": "validate", "seed": seed, "case": r.get("id"), "context": r.get("ctx"), "input": r.get("string"),
            "recipe": r.get("recipe"), "key": key, "oracle_verdict": what,
            "implementation_observation": {"entries": r.get("entries"), "defects": r.get("defects")}}


def judge_obs(rep, rows, seed, hist):
    """oracle verdicts computed by the harness on the implementation's own answers;
    returns the violations that are not known findings"""
    known = {kf["key"] for kf in rep.known}
    unknown = []
    for r in rows:
        for key, what in r.get("violations", []):
            if key.startswith("advisory:"):
                hist["advisory"][key] += 1
                continue
            hist["oracle"][key] += 1
            rep.violation(key, what, replay_obj(r, seed, key, what), found_input=True)
            if key not in known:
                unknown.append((key, what, r))
    return unknown


def histograms(rows, hist):
    for r in rows:
        if r.get("unparsed"):
            continue
        hist["recipe_x_ctx"]["%s/%s" % (r["recipe"], r["ctx"])] += 1
        for d in r["defects"] or ["none"]:
            hist["defect_class_x_ctx"]["%s/%s" % (d.split(":")[0] if d.startswith("rejected") else d, r["ctx"])] += 1
        for e, _p, code in r["entries"]:
            hist["ctx_x_entry_x_verdict"]["%s | %s | %s" % (r["ctx"], ENTRY.get(e, e), "accept" if code == "Ok" else "reject:" + code)] += 1
        if r.get("decode"):
            for e, _p, code in r["decode"]["entries"]:
                hist["ctx_x_entry_x_verdict"]["%s | %s | %s" % (r["ctx"], ENTRY.get(e, e), "accept" if code == 0 else "reject:" + CODES.get(code, str(code)))] += 1
        for name, strict, code in r["validate"]:
            if strict:
                hist["strict_row_x_verdict"]["%s -> %s" % (re.sub(r"=\d+", "=fig+-1", name), code)] += 1
            hist["validate_calls"]["accept" if code == "Ok" else "reject"] += 1
        for k, n in r["kinds"].items():
            hist["fragment_kinds"][k] += n
        hist["size_bucket"][str(min(r["size"] // 500 * 500, 4000))] += 1
        hist["height_bucket"][str(min(r["height"] // 50 * 50, 400))] += 1


def run_sweeps(rep, hbin, hist, only_key=None):
    """Threshold producers and the translating entry points (oracle only; both sweeps are exhaustive over
    their small input sets and take about a second)"""
    n_inputs = 0
    for mode in ("thresholds", "translate"):
        p = vlib.sh([hbin, "validate", mode], timeout=900)
        try:
            out = json.loads(p.stdout.strip().splitlines()[-1])
        except (ValueError, IndexError):
            raise RuntimeError("validate %s failed: %s" % (mode, p.stderr[-1500:]))
        for k, v in out.get("hist", {}).items():
            hist["translate: wrapper | entry | offered key | verdict"][k] += v
            n_inputs += v
        for key, what, inp in out.get("violations", []):
            if only_key and key != only_key:
                continue
            hist["oracle"][key] += 1
            rep.violation(key, what, {"property": PID, "engine": "validate", "sweep": mode, "key": key, "input": inp, "oracle_verdict": what},
                          found_input=True)
    return n_inputs


def run_ctors(rep, hbin, seed, hist, only_key=None, tie=True):
    """Constructor stream (harness/src/vctor.rs): every descriptor-level public constructor taking keys or a
    Threshold of keys, on directed + generated inputs.  Oracle: every accepted object judged by the harness's own
    context analysis and against the text path.  Tie: every call replayed on Ms/ValidateCtorModel.v inside Coq
    (same rcase layout and the same ValidateCasesCheck.v as the string stream)."""
    d = os.path.join(wdir(), "ctor")
    shutil.rmtree(d, ignore_errors=True)
    os.makedirs(d)
    gen = os.path.join(d, "ValidateCasesGen.v")
    p = vlib.sh([hbin, "validate", "ctors", str(seed), gen], timeout=900)
    try:
        out = json.loads(p.stdout.strip().splitlines()[-1])
    except (ValueError, IndexError):
        raise RuntimeError("validate ctors failed: " + p.stderr[-1500:])
    for k, v in out.get("hist", {}).items():
        hist["constructor stream: ctx | constructor | input | verdict"][k] += v
    known = {kf["key"] for kf in rep.known}
    groups = collections.OrderedDict()
    # simplest witness of each (key, constructor) first: fewest non-compressed keys, then fewest keys
    viols = sorted(out.get("violations", []), key=lambda v: (v[0], sum(1 for ch in v[2].get("key_kinds", "") if ch != "c"), len(v[2].get("keys", []))))
    for key, what, inp in viols:
        if only_key and key != only_key:
            continue
        groups.setdefault((key, inp.get("constructor")), []).append((what, inp))
    unknown = []
    for (key, ctor), items in groups.items():
        what, inp = items[0]
        hist["oracle"][key] += len(items)
        obj = {"property": PID, "engine": "validate", "sweep": "ctors", "seed": seed, "key": key, "input": inp, "oracle_verdict": what,
               "inputs_of_this_constructor_with_this_verdict": len(items)}
        rep.violation(key, "%s [%d such input(s) for this constructor in this run]" % (what, len(items)), obj, found_input=True)
        if key not in known:
            unknown.append((key, what, inp))
    info = {"inputs": out.get("inputs", 0), "calls_replayed_on_model_in_coq": 0, "oracle_violations": len(viols), "tie": "not run", "samples": out.get("samples", [])}
    if not tie:
        return True, info
    g = coqc(gen, extra_q=d)
    if g.returncode != 0:
        raise RuntimeError("ctor stream: generated file does not compile: " + (g.stderr or g.stdout)[-1500:])
    c = coqc("Tables/ValidateCasesCheck.v", extra_q=d, out=os.path.join(d, "ValidateCasesCheck.vo"))
    m = re.search(r"=\s*\((\d+),\s*(\d+)\)", re.sub(r"\s+", " ", c.stdout))
    info["calls_replayed_on_model_in_coq"] = int(m.group(1)) if m else 0
    if c.returncode == 0:
        info["tie"] = "ok"
        return True, info
    info["tie"] = "broken"
    dg = coqc("Tables/ValidateCasesDiag.v", extra_q=d, out=os.path.join(d, "ValidateCasesDiag.vo"))
    diag = parse_diag(dg.stdout) if dg.returncode == 0 else []
    tgroups = collections.OrderedDict()
    for t in diag:
        cid, kind, (cls, st, a, b, impl, model) = t[0], t[1], t[2:]
        gk = "%s: implementation %s / model %s" % (ENTRY.get(a, a), CODES.get(impl, impl), CODES.get(model, model))
        tgroups.setdefault(gk, []).append(cid)
    if not tgroups:
        tgroups["unreadable diagnosis: " + (dg.stderr or c.stderr or c.stdout)[-400:]] = [0]
    for gk, cids in tgroups.items():
        if unknown:
            fk, fw, finp = unknown[0]
            rep.violation("tie:ctor:" + gk, "constructor model and code disagree on %d call(s) (%s); the property fails on: %s" % (len(cids), gk, fw),
                          {"property": PID, "engine": "validate", "sweep": "ctors", "seed": seed, "key": fk, "input": finp, "oracle_verdict": fw,
                           "broken_tie": "cases_match_model on the constructor stream (Ms/ValidateCtorModel.v)", "disagreeing_call": gk,
                           "disagreeing_cases": cids[:20]}, found_input=True)
        else:
            rep.violation("tie:ctor:" + gk, "constructor model and code disagree on %d call(s) (%s); every accepted object of the stream obeys its context" % (len(cids), gk),
                          {"property": PID, "broken_tie": "cases_match_model on the constructor stream (Ms/ValidateCtorModel.v)", "disagreeing_call": gk,
                           "disagreeing_cases": cids[:20], "seed": seed}, found_input=False)
    return False, info


def do_replay(rep, hbin, path, seed):
    rp = json.load(open(path))
    if rp.get("sweep") == "ctors":
        hist = collections.defaultdict(collections.Counter)
        _ok, info = run_ctors(rep, hbin, rp.get("seed", seed), hist, only_key=rp.get("key"), tie=False)
        rep.coverage.update({"obligations": 1, "discharged": 0 if rep.violations else 1, "evaluations": max(info["inputs"], 1), "distinct_nontrivial": max(info["inputs"], 2),
                             "rule": "replay: the constructor stream again, violations with key %s" % rp.get("key"),
                             "checker_cmd": "verif-harness validate ctors", "trusted_base": vlib.TRUSTED_BASE_COMMON,
                             "samples": [json.dumps(rp.get("input"))[:300]], "replayed": path})
        return True
    if rp.get("sweep"):
        hist = collections.defaultdict(collections.Counter)
        n = run_sweeps(rep, hbin, hist, only_key=rp.get("key"))
        rep.coverage.update({"obligations": 1, "discharged": 0 if rep.violations else 1, "evaluations": max(n, 1), "distinct_nontrivial": max(n, 2),
                             "rule": "replay: the %s sweep again, violations with key %s" % (rp["sweep"], rp.get("key")),
                             "checker_cmd": "verif-harness validate %s" % rp["sweep"], "trusted_base": vlib.TRUSTED_BASE_COMMON,
                             "samples": [json.dumps(rp.get("input"))[:200]], "replayed": path})
        return True
    if rp.get("input") and rp.get("context"):
        p = vlib.sh([hbin, "validate", "string", rp["context"], rp["input"]], timeout=600)
        out = json.loads(p.stdout.strip().splitlines()[-1]) if p.stdout.strip() else {"violations": []}
        n = 0
        for key, what in out.get("violations", []):
            if key.startswith("advisory:"):
                continue
            n += 1
            rep.violation(key, what, replay_obj(out, seed, key, what), found_input=True)
        rep.coverage.update({"obligations": 1, "discharged": 1 if n == 0 else 0, "evaluations": 1, "distinct_nontrivial": 1,
                             "rule": "replay of one input through every entry point + oracle", "checker_cmd": "verif-harness validate string",
                             "trusted_base": vlib.TRUSTED_BASE_COMMON, "samples": [rp.get("input", "")[:200]], "replayed": path})
        return True
    return False


def run(rep, tier, seed, replay):
    hbin = vlib.build_harness()
    if replay and do_replay(rep, hbin, replay, seed):
        return
    cfg = THOROUGH if tier == "thorough" else QUICK
    for stale in ("ValidateCasesGen.v", "ValidateCasesGen.vo", "ValidateCasesCheck.vo", "ValidateCasesDiag.vo"):
        try:
            os.remove(os.path.join(vlib.COQ, "Tables", stale))
        except OSError:
            pass
    ok, thms = vlib.proof_gates(rep, PID)
    with vlib.Lock("c12"):
        params_ok, pinfo, _ = check_params(rep, hbin, seed)
        d0 = coqc("Tables/ValidateCasesDefs.v")
        if d0.returncode != 0:
            raise RuntimeError("ValidateCasesDefs.v does not compile: " + (d0.stderr or d0.stdout)[-2000:])
        per = cfg["cases"] // cfg["shards"]
        corpus = os.path.join(vlib.VERIF, "corpus", PID, "probes.case")
        jobs = [(hbin, seed, k, "%d:%d" % (k * per, per), corpus if k == 0 else None) for k in range(cfg["shards"])]
        with concurrent.futures.ThreadPoolExecutor(max_workers=min(16, cfg["shards"])) as ex:
            results = list(ex.map(run_shard, jobs))
        hist = collections.defaultdict(collections.Counter)
        all_rows, calls, class_diffs, bad_shards = [], 0, 0, []
        by_id = {}
        for k, status, text, stats in sorted(results):
            if status in ("harness", "gen"):
                raise RuntimeError("shard %d (%s): %s" % (k, status, text))
            _head, rows = load_obs(k)
            all_rows += rows
            for r in rows:
                by_id[r["id"]] = r
            if stats:
                calls += stats[0]
                class_diffs += stats[1]
            if status == "mismatch":
                bad_shards.append((k, text))
        run_unknown = judge_obs(rep, all_rows, seed, hist)
        histograms(all_rows, hist)
        sweep_inputs = run_sweeps(rep, hbin, hist)
        ctor_ok, cinfo = run_ctors(rep, hbin, seed, hist)
        # a changed constant: does some accepted script now break its context (judged above by the oracle)?
        for key, what, obj in pinfo.pop("pending", []):
            if run_unknown:
                fk, fw, fr = run_unknown[0]
                obj.update(replay_obj(fr, seed, fk, fw))
                obj["broken_tie"] = "constants_match_model (Tables/ParamTablesCheck.v)"
                rep.violation(key, what + "; the property fails on `%s` (%s): %s" % ((fr.get("string") or "")[:200], fr.get("ctx"), fw), obj, found_input=True)
            else:
                rep.violation(key, what + "; no accepted script breaking its context was found in this run", obj, found_input=False)
        # ---- on-break protocol for the correspondence
        tie_ok = not bad_shards
        n_diff = 0
        for k, text in bad_shards:
            diag = parse_diag(text)
            if not diag:
                rep.violation("cases-diag", "cases_match_model fails in shard %d and the diagnosis is unreadable: %s" % (k, text[-600:]),
                              {"property": PID, "broken_tie": "cases_match_model (Tables/ValidateCasesCheck.v)"}, found_input=False)
                continue
            groups = collections.OrderedDict()
            for (cid, kind, (cls, st, a, b, impl, model)) in [(t[0], t[1], t[2:]) for t in diag]:
                n_diff += 1
                what = {0: "Miniscript::validate(pset %d)" % a, 1: "Miniscript::validate(pset %d, %s=%d)" % (a, LIMS[(b >> 64) % 5], b & ((1 << 64) - 1)),
                        2: "%s (pset %d)" % (ENTRY.get(a, a), b), 3: "ext.tree_height of the built object"}[cls]
                nm = (lambda v: v) if cls == 3 else (lambda v: CODES.get(v, v))
                gk = "%s: implementation %s / model %s" % (re.sub(r"\d+", "N", what), nm(impl), nm(model))
                groups.setdefault(gk, []).append((cid, kind, what, impl, model))
            # first: the disagreeing cases themselves, judged by the oracle; then more cases of the same recipe/context
            searched = set()
            for gk, items in groups.items():
                cid, kind, what, impl, model = items[0]
                r = by_id.get(cid, {})
                found = [v for v in r.get("violations", []) if not v[0].startswith("advisory:")]
                unknown = [v for v in found if v[0] not in {kf["key"] for kf in rep.known}]
                if not unknown and cid < 1_000_000 and (cid % 112) not in searched:
                    searched.add(cid % 112)
                    ids = ",".join(str(cid % 112 + 112 * j) for j in range(200, 320))
                    dd = os.path.join(wdir(), "search")
                    shutil.rmtree(dd, ignore_errors=True); os.makedirs(dd)
                    vlib.sh([hbin, "validate", "cases", str(seed), "ids:" + ids, os.path.join(dd, "x.v"), os.path.join(dd, "obs.jsonl")], timeout=1200)
                    try:
                        extra = [json.loads(l) for l in open(os.path.join(dd, "obs.jsonl")).read().splitlines()[1:] if l.strip()]
                    except OSError:
                        extra = []
                    run_unknown += judge_obs(rep, extra, seed, hist)
                    unknown = [v for e in extra for v in e.get("violations", []) if not v[0].startswith("advisory:") and v[0] not in {kf["key"] for kf in rep.known}]
                if not unknown and run_unknown:
                    # the property fails on another input of this run: report the broken tie together with that input
                    fk, fw, fr = run_unknown[0]
                    obj = replay_obj(fr, seed, fk, fw)
                    obj.update({"broken_tie": "cases_match_model (Tables/ValidateCasesCheck.v)", "disagreeing_call": gk, "disagreeing_case": cid,
                                "disagreeing_input": r.get("string"), "calls_in_group": len(items)})
                    rep.violation("tie:" + gk, "model and code disagree on %d call(s) (%s); the property fails on `%s` (%s): %s" %
                                  (len(items), gk, (fr.get("string") or "")[:200], fr.get("ctx"), fw), obj, found_input=True)
                elif not unknown:
                    rep.violation("tie:" + gk, "model and code disagree on %d call(s), e.g. case %d `%s` (%s): %s; no accepted script breaking its context "
                                  "and no inexact switch was found among the disagreeing cases or 120 further cases of the same recipe" %
                                  (len(items), cid, (r.get("string") or "")[:300], r.get("ctx"), gk),
                                  {"property": PID, "broken_tie": "cases_match_model (Tables/ValidateCasesCheck.v)", "seed": seed, "case": cid,
                                   "context": r.get("ctx"), "input": r.get("string"), "call": what, "implementation_observation": CODES.get(impl, impl),
                                   "model_observation": CODES.get(model, model), "calls_in_group": len(items)}, found_input=False)
    chk_ok = True
    if tier == "thorough":
        ck = vlib.sh(["timeout", "1500", "coqchk", "-silent", "-Q", "Ms", "Verif", "-Q", "Proofs", "Verif", "-Q", "Properties", "Verif", "Verif.C12"],
                     cwd=vlib.COQ, timeout=1600, stack_unlimited=True)
        chk_ok = ck.returncode == 0
        rep.coverage["coqchk"] = "ok" if chk_ok else (ck.stderr or ck.stdout)[-500:]
        if not chk_ok:
            rep.violation("coqchk", "coqchk rejects Properties/C12.vo: " + (ck.stderr or ck.stdout)[-500:],
                          {"property": PID, "broken_tie": "coqchk Verif.C12"}, found_input=False)
    obligations = len(thms) + 5
    discharged = (len(thms) if ok and chk_ok else 0) + (3 if params_ok else 0) + (1 if tie_ok else 0) + (1 if ctor_ok else 0)
    parsed = [r for r in all_rows if r.get("parsed")]
    samples = []
    for r in all_rows[:: max(1, len(all_rows) // 12)][:12]:
        samples.append({"ctx": r.get("ctx"), "recipe": r.get("recipe"), "string": (r.get("string") or "")[:160], "defects": r.get("defects"),
                        "entries": [[ENTRY.get(e, e), c] for e, _p, c in r.get("entries", [])][:8]})
    rep.coverage.update({
        "obligations": obligations, "discharged": discharged,
        "checker_cmd": "make -C coq ; coqc Properties/C12.v ; verif-harness validate params | coqc Tables/ParamTablesCheck.v ; "
                       "verif-harness validate cases (x%d shards) | coqc Tables/ValidateCasesCheck.v ; "
                       "verif-harness validate ctors | coqc Tables/ValidateCasesCheck.v" % cfg["shards"],
        "trusted_base": vlib.TRUSTED_BASE_COMMON + [
            "Ms/ValidateSpec.v (hand-written: fieldwise order, defect of each switch, figure of each limit, rules of each context)",
            "harness/src/vgen.rs (independent typing / size / lock / key analyses used as oracle; port of Ms/Spec.v)",
            "Uint63 primitive integers and MSetPositive (table packing / key sets; evaluated by vm_compute; no axioms)"],
        "exhaustive_part": "ValidationParams constants (11, field by field) and intersect/entails on the generating set",
        "params": pinfo, "cases": len(all_rows), "cases_parsed": len(parsed), "calls_replayed_on_model_in_coq": calls,
        "differing_calls": n_diff, "class_only_differences_advisory": class_diffs,
        "evaluations": calls + pinfo["lattice_rows_compared_in_coq"] + pinfo["primitive_rows_compared_in_coq"] + sweep_inputs + cinfo["calls_replayed_on_model_in_coq"],
        "constructor_stream": cinfo,
        "translating_entry_point_calls": sweep_inputs, "distinct_nontrivial": len({r.get("string") for r in all_rows}),
        "rule": "28 recipes x 4 contexts (sane, each defect class, near-limit figures, boundary locks/thresholds, ill-typed) + corpus; "
                "every entry point; parameter sets: MAX, SANE, CONSENSUS, MAX minus each switch, per context CONSENSUS/SANE and every "
                "single flip of both, limits at figure-1/figure/figure+1",
        "histograms": {k: dict(sorted(v.items())) for k, v in hist.items()},
        "samples": samples,
    })
    rep.assumptions = [
        "the summary record abstracts the script: base type / malleability / signedness (C05, C06), ext figures (C09), script size (C04), "
        "mixed-lock predicate (C18) are inputs of the model, cross-checked on every accepted object by the harness's own analyses",
        "string stream: ASTs built with from_ast/from_components_unchecked reach validate through the same method (tied by the rows of this run); "
        "the constructor stream builds its objects programmatically (Threshold of keys, unchecked multi fragments, from_ast)",
        "error classes are compared exactly on single-defect rows (one switch off / one limit moved), accept/reject elsewhere (DESIGN App. C)",
        "allow_compressed_keys is inert while x-only keys are allowed (documented in validate_pk); stated as refuted + partial theorems, not as a finding",
    ]
