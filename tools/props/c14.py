"""C14 — PSBT finalization yields a valid spend, atomically and idempotently (DESIGN 5/C14).

Proof : coq/Properties/C14.v (induction over operation lists of the state machine model
        coq/Ms/PsbtModel.v: final_monotone, fail_untouched, idempotent, order_indep,
        success_valid/provenance, update_consistent, finalize_keeps_unknown).
Tie   : harness engine `psbt` runs histories on real multi-input PSBTs through the public
        PsbtExt API; this file turns histories + observations into coq/Tables/PsbtCasesGen.v
        and coq/Tables/PsbtCasesCheck.v replays the MODEL on the same histories inside Coq
        (try_input / interp_check instantiated by the observed outcomes, as functions of the
        abstract state) and compares result class and state after every operation.
Oracle: monitors and an independent spend/field verifier inside the harness judge the
        implementation's own outputs (psbt_oracle.rs); their verdicts arrive as `viol` lists.
"""
import json, os, re, collections
import vlib

LEVEL = "proof"
PID = "C14"

FIELDS_MAP = ["psigs", "bip32", "ripemd", "sha256", "hash160", "hash256", "tapsigs", "tapscripts",
              "taporigins", "prop", "unknown"]
SANITY_CLASSES = (2, 3, 4)
# Verdicts that are recorded but are not violations of C14 (none today: since /repo 55036e60 the
# finalizer takes the spent output from a present non_witness_utxo, so `unchecked-utxo-finalized`
# and `foreign-prev-tx-finalized` are violations).
OBSERVATION_KEYS = ()


# ------------------------------------------------------------------ harness
def run_harness(hbin, seed, tier, only=None, cases=None):
    cmd = [hbin, "psbt", str(seed)]
    if only is not None:
        cmd += ["--only", str(only)]
    if cases is not None:
        cmd += ["--cases", str(cases)]
    p = vlib.sh(cmd, env={"VERIF_TIER": tier}, timeout=1500)
    if p.returncode != 0:
        raise RuntimeError("psbt engine failed (exit %s): %s" % (p.returncode, p.stderr[-2000:]))
    out = {"inp": {}, "case": {}, "desc": {}, "hist": [], "probe_viol": [], "summary": None, "mall": None,
           "gen_error": [], "plans": 0, "pkh": [], "keyhash": [], "pkhtap": [], "xl": [], "tl": set()}
    for line in p.stdout.splitlines():
        if not line:
            continue
        d = json.loads(line)
        t = d["t"]
        if t == "inp":
            out["inp"][d["id"]] = d["abs"]
        elif t == "case":
            out["case"][d["id"]] = d
        elif t == "desc":
            out["desc"][d["id"]] = d
        elif t == "hist":
            out["hist"].append(d)
        elif t == "probe-viol":
            out["probe_viol"].append(d)
        elif t == "pkh":
            out["pkh"].append((d["inp"], d["h"], d["r"]))
        elif t == "tl":
            out["tl"].add((d["k"], d["ver"], d["lt"], d["seq"], d["n"], d["r"]))
        elif t == "pkhtap":
            out["pkhtap"].append((d["inp"], d["h"], d["r"]))
        elif t == "xl":
            out["xl"].append((d["k"], d["x"]))
        elif t == "keyhash":
            out["keyhash"].append((d["k"], d["h"]))
        elif t == "probe-stats":
            out["plans"] += d["plans"]
        elif t == "summary":
            out["summary"] = d
        elif t == "mallprobe":
            out["mall"] = d
        elif t == "gen-error":
            out["gen_error"].append(d)
    if out["summary"] is None:
        raise RuntimeError("psbt engine ended without a summary line (crashed?)")
    return out


# ------------------------------------------------------------------ Coq text
class Intern:
    def __init__(self):
        self.ids = {}

    def __call__(self, s):
        if s not in self.ids:
            self.ids[s] = len(self.ids) + 1
        return self.ids[s]


def copt(x):
    return "None" if x is None else "(Some %d)" % x


def cmap(pairs):
    return "[" + ";".join("(%d,%d)" % (k, v) for k, v in sorted(pairs)) + "]"


def cbool(b):
    return "true" if b else "false"


class Gen:
    def __init__(self, data):
        self.data = data
        self.I = Intern()
        self.inp_fields = {}      # input id -> dict of interned fields

    def txout(self, o):
        return None if o is None else (o["val"], self.I(o["spk"]))

    def fields(self, iid):
        if iid in self.inp_fields:
            return self.inp_fields[iid]
        a = self.data["inp"][iid]
        I = self.I
        f = {}
        f["nw"] = None if a["nw"] is None else (I(a["nw"]["id"]), a["nw"]["ok"], self.txout(a["nw"]["out"]))
        f["w"] = self.txout(a["w"])
        for k in FIELDS_MAP:
            f[k] = [(I(x), I(y)) for x, y in a[k]]
        f["sighash"] = a["sighash"]
        for k in ("redeem", "witscript", "fsig", "fwit", "tapkeysig", "tapik", "tapmerkle"):
            f[k] = None if a[k] is None else I(a[k])
        self.inp_fields[iid] = f
        return f

    def utxo_sig(self, iid):
        f = self.fields(iid)
        return (f["nw"], f["w"])

    def is_final(self, iid):
        f = self.fields(iid)
        return f["fsig"] is not None or f["fwit"] is not None

    def inp_def(self, iid):
        f = self.fields(iid)

        def to(o):
            return "None" if o is None else "(Some (mkTxOut %d %d))" % o
        nw = "None" if f["nw"] is None else "(Some (mkNw %d %s %s))" % (f["nw"][0], cbool(f["nw"][1]), to(f["nw"][2]))
        return ("Definition i%d : pinput := mkIn %s %s %s %s %s %s %s %s %s %s %s %s %s %s %s %s %s %s %s %s %s." % (
            iid, nw, to(f["w"]), cmap(f["psigs"]), copt(f["sighash"]), copt(f["redeem"]), copt(f["witscript"]),
            cmap(f["bip32"]), copt(f["fsig"]), copt(f["fwit"]), cmap(f["ripemd"]), cmap(f["sha256"]),
            cmap(f["hash160"]), cmap(f["hash256"]), copt(f["tapkeysig"]), cmap(f["tapsigs"]),
            cmap(f["tapscripts"]), cmap(f["taporigins"]), copt(f["tapik"]), copt(f["tapmerkle"]),
            cmap(f["prop"]), cmap(f["unknown"])))

    def op(self, o):
        I = self.I
        k = o["o"]
        if k == "sig":
            return "AddSig %d%%nat %d %d" % (o["i"], I(o["k"]), I(o["s"]))
        if k == "tapkeysig":
            return "AddTapKeySig %d%%nat %d" % (o["i"], I(o["s"]))
        if k == "tapsig":
            return "AddTapScriptSig %d%%nat %d %d" % (o["i"], I(o["k"]), I(o["s"]))
        if k == "pre":
            hk = {"sha256": "HSha256", "hash160": "HHash160", "ripemd160": "HRipemd", "hash256": "HHash256"}[o["hk"]]
            return "AddPreimage %d%%nat %s %d %d" % (o["i"], hk, I(o["h"]), I(o["p"]))
        if k == "unk":
            return "AddUnknown %d%%nat %d %d" % (o["i"], I(o["k"]), I(o["v"]))
        if k == "upd":
            return "Update %d%%nat %d" % (o["i"], o["d"])
        if k == "scripts":
            return "AddScripts %d%%nat %d" % (o["i"], o["d"])
        if k == "deriv":
            return "AddDeriv %d%%nat %d %d" % (o["i"], I(o["k"]), I(o["v"]))
        if k == "taporigin":
            return "AddTapOrigin %d%%nat %d %d" % (o["i"], I(o["k"]), I(o["v"]))
        if k == "fin":
            return "Finalize %s" % cbool(o["m"])
        if k == "finold":
            return "FinalizeOld %s" % cbool(o["m"])
        if k == "fininp":
            return "FinalizeInp %d%%nat %s" % (o["i"], cbool(o["m"]))
        if k == "ext":
            return "Extract"
        raise ValueError(k)

    def result(self, r):
        I = self.I
        k = r["k"]
        if k == "ok":
            return "ROk"
        if k == "finerrs":
            return "RFinErrs [%s]" % ";".join("(%d%%nat,%d)" % (i, e) for i, e in r["es"])
        if k == "inperr":
            return "RInputErr %d%%nat %d" % (r["i"], r["e"])
        if k == "wrongcount":
            return "RWrongInputCount"
        if k == "oob":
            return "RIdxOob"
        if k == "upd":
            return "RUpd %d" % r["e"]
        if k == "extracted":
            return "RExtracted [%s]" % ";".join(
                "(%s,%s)" % (copt(None if s is None else I(s)), copt(None if w is None else I(w))) for s, w in r["l"])
        if k == "panic":
            return "RPanic 0"
        raise ValueError(k)


def st_str(st):
    return "[" + ";".join("i%d" % x for x in st) + "]"


def oracle_tables(g, h, mall_of):
    """Outcomes of finalize_input_helper / interpreter_check as observed in history h, keyed by
    the state they were evaluated on (the loop order 0..n of finalize_mut is the model's)."""
    tries, interps = [], []
    cur = list(h["s0"])
    for o, ob in zip(h["ops"], h["obs"]):
        nxt, r = ob["st"], ob["r"]
        n = len(cur)

        def outcome(i):
            f = g.fields(nxt[i])
            return ("ok", f["fsig"] or 0, f["fwit"] or 0)
        k = o["o"]
        if k == "fininp" and o["i"] < n and not g.is_final(cur[o["i"]]):
            i = o["i"]
            if r["k"] == "ok":
                tries.append((tuple(cur), i, mall_of(o["m"]), outcome(i)))
            elif r["k"] == "inperr":
                tries.append((tuple(cur), i, mall_of(o["m"]), ("err", r["i"], r["e"])))
        elif k == "fin" and r["k"] in ("ok", "finerrs"):
            # the error vector lists the failed attempts in input order; its indices are the
            # code's own (prevouts blames the first input without a findable utxo), so failed
            # attempts are matched to entries by position, not by index
            es, ei = list(r.get("es", [])), 0
            st = list(cur)
            for i in range(n):
                if g.is_final(st[i]):
                    continue
                if g.is_final(nxt[i]) or nxt[i] != st[i]:
                    tries.append((tuple(st), i, o["m"], outcome(i)))
                    st[i] = nxt[i]
                elif ei < len(es):
                    tries.append((tuple(st), i, o["m"], ("err", es[ei][0], es[ei][1])))
                    ei += 1
        elif k == "finold" and r["k"] in ("ok", "inperr"):
            sanity = r["k"] == "inperr" and r["e"] in SANITY_CLASSES and list(nxt) == list(cur)
            if not sanity:
                st = list(cur)
                for i in range(n):
                    if g.is_final(st[i]):
                        continue
                    if r["k"] == "inperr" and not g.is_final(nxt[i]) and nxt[i] == st[i]:
                        tries.append((tuple(st), i, o["m"], ("err", r["i"], r["e"])))
                        break
                    tries.append((tuple(st), i, o["m"], outcome(i)))
                    st[i] = nxt[i]
        elif k == "ext":
            if r["k"] == "extracted":
                interps.append((tuple(cur), None))
            elif r["k"] == "inperr" and r["e"] not in (1,) + SANITY_CLASSES:
                interps.append((tuple(cur), (r["i"], r["e"])))
        cur = list(nxt)
    return tries, interps


def build_gen(data, hists):
    g = Gen(data)
    mp = data["mall"] or {}
    mall_false = bool(mp.get("finalize_inp_mut", False))
    mall_true = bool(mp.get("finalize_inp_mall_mut", False))

    def mall_of(m):
        return mall_true if m else mall_false
    case_lines, used_inputs = [], set()
    sigflags = {}
    global_try = {}       # (tx, state, i, m) -> outcome
    own_try = {}          # (tx, own input, i, m) -> set of outcomes
    conflicts, unstable = [], []
    n_tries = 0
    for h in hists:
        c = data["case"][h["case"]]
        tx = g.I(h.get("tx", c["tx"]))     # the unsigned tx of THIS history (one directed kind alters an outpoint)
        tries, interps = oracle_tables(g, h, mall_of)
        n_tries += len(tries)
        tl, seen = [], set()
        for (st, i, m, oc) in tries:
            key = (tx, st, i, m)
            if key in global_try and global_try[key] != oc:
                conflicts.append((h["id"], key, global_try[key], oc))
            global_try.setdefault(key, oc)
            # same own fields, same utxo view of every input (taproot sighashes commit to all
            # prevouts as the PSBT presents them), other inputs' remaining fields free
            k2 = (tx, tuple(g.utxo_sig(x) for x in st), st[i], i, m)
            own_try.setdefault(k2, {})
            own_try[k2].setdefault(oc, h["id"])
            if (st, i, m) in seen:
                continue
            seen.add((st, i, m))
            used_inputs.update(st)
            res = "TOk %d %d" % (oc[1], oc[2]) if oc[0] == "ok" else "TErr %d%%nat %d" % (oc[1], oc[2])
            tl.append("mkT %s %d%%nat %s (%s)" % (st_str(st), i, cbool(m), res))
        il, seen = [], set()
        for (st, oc) in interps:
            if st in seen:
                continue
            seen.add(st)
            used_inputs.update(st)
            il.append("(%s,%s)" % (st_str(st), "None" if oc is None else "Some (%d%%nat,%d)" % oc))
        for o in h["ops"]:
            if o["o"] == "sig" and o["flag"] != 1:
                sigflags[g.I(o["s"])] = o["flag"]
        used_inputs.update(h["s0"])
        obs = []
        for ob in h["obs"]:
            used_inputs.update(ob["st"])
            obs.append("(%s,%s)" % (g.result(ob["r"]), st_str(ob["st"])))
        case_lines.append("Definition h%d : pcase := mkC %d %d %d%%nat %s [%s] [%s] [%s] [%s]." % (
            h["id"], h["id"], tx, c["ntx"], st_str(h["s0"]), ";".join(g.op(o) for o in h["ops"]),
            ";".join(tl), ";".join(il), ";".join(obs)))
    for k2, ocs in own_try.items():
        if len(ocs) > 1:
            unstable.append((k2, ocs))
    # descriptors: what a fresh update recorded
    dl = []
    for did, d in sorted(data["desc"].items()):
        f = g.fields(d["fresh"])
        dl.append("(%d, mkD %s %s %d %s %s %s %d %s %s %s)" % (
            did, cbool(d["tr"]), cbool(d["segwit"]), g.I(d["spk"]), copt(f["witscript"]), copt(f["redeem"]),
            cmap(f["bip32"]), f["tapik"] or 0, copt(f["tapmerkle"]), cmap(f["tapscripts"]), cmap(f["taporigins"])))
    out = ["(* generated by tools/props/c14.py from the psbt engine's observations; do not edit *)",
           "From Coq Require Import List Bool NArith.", "Import ListNotations.",
           "From Verif Require Import PsbtModel PsbtCasesDefs.", "Local Open Scope N_scope.", ""]
    used_inputs_extra = set(iid for (iid, _, _) in data["pkh"]) | set(iid for (iid, _, _) in data["pkhtap"])
    for iid in sorted(used_inputs | used_inputs_extra):
        out.append(g.inp_def(iid))
    out.append("")
    out.append("Definition descs : list (N * dinfo) := [%s]." % ";\n  ".join(dl))
    out.append("Definition sigflags : list (N * N) := %s." % cmap(sigflags.items()))
    out.append("Definition mall_false : bool := %s." % cbool(mall_false))
    out.append("Definition mall_true : bool := %s." % cbool(mall_true))
    # Placeholder::PubkeyHash completion, tabulated on the compiled code
    pkh_rows = []
    for (iid, h, r) in data["pkh"]:
        used_inputs_extra.add(iid)
        pkh_rows.append("(i%d,%d,%s)" % (iid, g.I(h), copt(None if r is None else g.I(r))))
    tl_rows = ["(%d,%d,%d,%d,%d,%s)" % (k, ver, lt, sq, n, cbool(r)) for (k, ver, lt, sq, n, r) in sorted(data["tl"])]
    for n in range(0, max(len(tl_rows), 1), 1500):
        out.append("Definition tl_obs_%d : list (N * N * N * N * N * bool) := [%s]." % (n // 1500, ";".join(tl_rows[n:n + 1500])))
    out.append("Definition tl_obs : list (N * N * N * N * N * bool) := %s." % " ++ ".join(
        "tl_obs_%d" % (n // 1500) for n in range(0, max(len(tl_rows), 1), 1500)))
    out.append("Definition pkh_tab : list (N * N) := %s." % cmap(set((g.I(k), g.I(h)) for k, h in data["keyhash"])))
    out.append("Definition xl_tab : list (N * N) := %s." % cmap(set((g.I(k), g.I(x)) for k, x in data["xl"])))
    tap_rows = ["(i%d,%d,%s)" % (iid, g.I(h), copt(None if r is None else g.I(r))) for (iid, h, r) in data["pkhtap"]]
    for n in range(0, max(len(tap_rows), 1), 1500):
        out.append("Definition pkh_tap_obs_%d : list (pinput * N * option N) := [%s]." % (n // 1500, ";".join(tap_rows[n:n + 1500])))
    out.append("Definition pkh_tap_obs : list (pinput * N * option N) := %s." % " ++ ".join(
        "pkh_tap_obs_%d" % (n // 1500) for n in range(0, max(len(tap_rows), 1), 1500)))
    for n in range(0, max(len(pkh_rows), 1), 1500):
        out.append("Definition pkh_obs_%d : list (pinput * N * option N) := [%s]." % (n // 1500, ";".join(pkh_rows[n:n + 1500])))
    out.append("Definition pkh_obs : list (pinput * N * option N) := %s." % " ++ ".join(
        "pkh_obs_%d" % (n // 1500) for n in range(0, max(len(pkh_rows), 1), 1500)))
    out.append("")
    out += case_lines
    ids = [h["id"] for h in hists]
    chunks = [ids[k:k + 400] for k in range(0, len(ids), 400)]
    for n, ch in enumerate(chunks):
        out.append("Definition cases_%d : list pcase := [%s]." % (n, ";".join("h%d" % x for x in ch)))
    out.append("Definition all_cases : list pcase := %s." % (" ++ ".join("cases_%d" % n for n in range(len(chunks))) or "[]"))
    meta = {"tries": n_tries, "distinct_try_keys": len(global_try), "conflicts": conflicts, "unstable": unstable,
            "inputs_defined": len(used_inputs), "mall_false": mall_false, "mall_true": mall_true,
            "keep_unknown": bool(mp.get("keeps_unknown", False)),
            "interned_values": len(g.I.ids), "pkh_rows": len(data["pkh"]) + len(data["pkhtap"]), "tl_rows": len(data["tl"])}
    return "\n".join(out) + "\n", meta


# ------------------------------------------------------------------ reporting
def describe_op(o):
    k = o["o"]
    if "what" in o and k in ("sig", "tapkeysig", "tapsig", "pre", "upd", "scripts", "deriv", "taporigin"):
        return o["what"] if k != "pre" else "%s (%s) on input %d" % (o["what"], o["hk"], o["i"])
    if k == "unk":
        return "add-unknown on input %d" % o["i"]
    if k == "fin":
        return ("finalize_mall" if o["m"] else "finalize") + ("" if o["byval"] else "_mut") + "()"
    if k == "finold":
        return "psbt::finalize_mall()" if o["m"] else "psbt::finalize()"
    if k == "fininp":
        return "finalize_inp%s%s(%d)" % ("_mall" if o["m"] else "", "" if o["byval"] else "_mut", o["i"])
    if k == "ext":
        return "extract()"
    return k


def describe_result(r):
    k = r["k"]
    if k == "finerrs":
        return "Err([%s])" % ", ".join("input %d: class %d" % (i, e) for i, e in r["es"])
    if k == "inperr":
        return "Err(input %d: class %d)" % (r["i"], r["e"])
    if k == "extracted":
        return "Ok(tx)"
    if k == "upd":
        return "Err(update class %d)" % r["e"]
    return {"ok": "Ok", "oob": "Err(index out of bounds)", "wrongcount": "Err(wrong input count)", "panic": "PANIC"}.get(k, k)


def replay_obj(data, h, seed, tier, extra):
    c = data["case"][h["case"]]
    obj = {"property": PID, "seed": seed, "tier": tier, "case": h["case"], "history": h["id"], "kind": h["kind"],
           "descriptors": c["descs"], "templates": c["templates"], "input_sequences": c["sequences"],
           "tx_locktime": c["locktime"], "psbt_with_utxos_only_base64": c["psbt0"],
           "initial_state": "inputs prepared by the harness as in abstract state %s (deterministic for this seed/case)" % h["s0"],
           "history_ops": [describe_op(o) for o in h["ops"]],
           "observed_results": [describe_result(ob["r"]) for ob in h["obs"]],
           "monitor_verdicts": h["viol"],
           "replay_cmd": "VERIF_SEED=%d python3 tools/check.py C14 --tier %s --replay <this file>" % (seed, tier)}
    obj.update(extra)
    return obj


def report_monitor_violations(rep, data, seed, tier):
    n = 0
    for h in data["hist"]:
        for v in h["viol"]:
            if v["key"] in OBSERVATION_KEYS:
                data.setdefault("observations", collections.Counter())[v["key"]] += 1
                data.setdefault("observation_example", {}).setdefault(v["key"], "history %d (case %d, %s) step %d: %s" % (h["id"], h["case"], h["kind"], v["step"], v["what"]))
                continue
            n += 1
            rep.violation(v["key"], "history %d (case %d, %s) step %d: %s" % (h["id"], h["case"], h["kind"], v["step"], v["what"]),
                          replay_obj(data, h, seed, tier, {"failing_step": v["step"], "what": v["what"], "key": v["key"]}), True)
    for v in data["probe_viol"]:
        n += 1
        c = data["case"].get(v["case"], {})
        rep.violation(v["key"], "case %d: %s" % (v["case"], v["what"]),
                      {"property": PID, "seed": seed, "tier": tier, "case": v["case"], "key": v["key"], "what": v["what"],
                       "descriptors": c.get("descs"), "templates": c.get("templates"),
                       "psbt_with_utxos_only_base64": c.get("psbt0"),
                       "replay_cmd": "VERIF_SEED=%d python3 tools/check.py C14 --tier %s --replay <this file>" % (seed, tier)}, True)
    return n


def unknown_violations(rep):
    return [v for v in rep.violations]


def directed_search(rep, hbin, seed, tier):
    """On-break protocol: the tie or a proof broke but no monitor fired on this run's histories;
    look for a concrete failing input with more seeds and cases."""
    found = 0
    for s in (seed + 101, seed + 202, seed + 303):
        d = run_harness(hbin, s, tier, cases=96 if tier == "quick" else 200)
        before = len(rep.violations)
        report_monitor_violations(rep, d, s, tier)
        found += len(rep.violations) - before
        if found:
            break
    return found


def tl_theorem_failed(c2):
    """PsbtCasesCheck.v prints (rows, failing rows) of the time-lock table before its theorem."""
    m = re.findall(r"=\s*\((\d+)%nat,\s*(\d+)%nat\)", c2.stdout) or re.findall(r"=\s*\((\d+),\s*(\d+)\)", c2.stdout)
    for a, b in m:
        if int(b) > 0:
            return True
    return False


def parse_diag(text):
    m = re.search(r"=\s*(\[.*?\])\s*:\s*list \(N \* nat \* N\)", text, flags=re.S)
    if not m:
        return None
    s = m.group(1).replace("%N", "").replace("%nat", "").replace(";", ",")
    s = re.sub(r"\s+", " ", s)
    try:
        return [tuple(x) for x in eval(s, {"__builtins__": {}})]
    except Exception:
        return None


def run(rep, tier, seed, replay):
    hbin = vlib.build_harness()
    if replay:
        return run_replay(rep, hbin, tier, seed, replay)
    ok, thms = vlib.proof_gates(rep, PID)
    data = run_harness(hbin, seed, tier)
    s = data["summary"]
    n_mon = report_monitor_violations(rep, data, seed, tier)
    for e in data["gen_error"]:
        rep.violation("harness-gen", "case %d could not be generated: %s" % (e["case"], e["error"]),
                      {"property": PID, "broken_tie": "harness case generator", "error": e}, False)
    # ---- the tie, inside Coq
    hists = data["hist"]
    if tier == "quick":
        # all random/straight histories, and every exhaustive permutation group of every third case
        hists = [h for h in hists if h["kind"] != "exhaustive" or h["case"] % 3 == seed % 3]
    text, meta = build_gen(data, hists)
    tdir = os.path.join(vlib.COQ, "Tables")
    open(os.path.join(tdir, "PsbtCasesGen.v"), "w").write(text)
    tie_ok = False
    n_diff = 0
    c0 = vlib.coqc("Tables/PsbtCasesDefs.v")
    c1 = vlib.coqc("Tables/PsbtCasesGen.v", timeout=1500) if c0.returncode == 0 else c0
    if c1.returncode != 0:
        rep.violation("tie-gen", "generated case file does not compile: " + (c1.stderr or c1.stdout)[-1200:],
                      {"property": PID, "broken_tie": "Tables/PsbtCasesGen.v / PsbtCasesDefs.v (model interface changed?)"}, False)
    else:
        c2 = vlib.coqc("Tables/PsbtCasesCheck.v", timeout=1500)
        tie_ok = c2.returncode == 0
        if not tie_ok:
            c3 = vlib.coqc("Tables/PsbtCasesDiag.v", timeout=1500)
            diag = parse_diag(c3.stdout) if c3.returncode == 0 else None
            by_id = dict((h["id"], h) for h in hists)
            if diag == [] and tl_theorem_failed(c2):
                rep.violation("tie:timelock-predicates",
                              "PsbtInputSatisfier::check_after / check_older of the compiled code differ from the model's "
                              "psbt_check_after / psbt_check_older (= BIP65 / BIP68+112 on this input's nSequence) on some tabulated row",
                              {"property": PID, "broken_tie": "timelock_predicates_match_model (Tables/PsbtCasesCheck.v)",
                               "log": (c2.stdout + c2.stderr)[-1500:]}, False)
            elif diag == []:   # every history agrees: the raw-pkh theorem is the one that failed
                rep.violation("tie:raw-pkh-resolution",
                              "the compiled Placeholder::PubkeyHash completion (key behind a raw key hash: bip32_derivation, else the "
                              "partial signature carrying it) differs from the model's resolve_pkh on some tabulated input state",
                              {"property": PID, "broken_tie": "raw_pkh_resolution_matches_model (Tables/PsbtCasesCheck.v)",
                               "log": (c2.stdout + c2.stderr)[-1500:]}, False)
            elif not diag:
                rep.violation("tie-diag", "psbt_cases_match_model fails and the diagnosis did not run: " + (c3.stderr or c2.stderr)[-800:],
                              {"property": PID, "broken_tie": "Tables/PsbtCasesCheck.v: psbt_cases_match_model"}, False)
            else:
                n_diff = len(diag)
                kinds = collections.OrderedDict()
                for (hid, step, what) in diag:
                    h = by_id.get(hid)
                    if h is None:
                        continue
                    opk = h["ops"][step]["o"] if step < len(h["ops"]) else "?"
                    kinds.setdefault(opk, []).append((h, step, what))
                for opk, lst in kinds.items():
                    h, step, what = lst[0]
                    found = any(v["key"] not in OBSERVATION_KEYS for v in h["viol"])
                    desc = {1: "result class", 2: "state", 3: "result class and state", 4: "number of steps"}.get(what, "?")
                    rep.violation("tie:%s" % opk,
                                  "model and implementation disagree on the %s after step %d (%s) of history %d; %d histories differ at a `%s` step" % (
                                      desc, step, describe_op(h["ops"][step]) if step < len(h["ops"]) else "?", hid_of(h), len(lst), opk),
                                  replay_obj(data, h, seed, tier, {"failing_step": step, "differs": desc,
                                             "broken_tie": "psbt_cases_match_model (Tables/PsbtCasesCheck.v)",
                                             "histories_differing": len(lst)}), found)
    for (hid, key, a, b) in meta["conflicts"][:3]:
        rep.violation("try-not-a-function", "finalize_input_helper gave two outcomes on the same abstract state (history %d): %s vs %s" % (hid, a, b),
                      {"property": PID, "broken_tie": "try_input is a function of the modelled PSBT fields", "history": hid,
                       "key": str(key), "outcomes": [str(a), str(b)]}, False)
    for (k2, ocs) in meta["unstable"][:3]:
        rep.violation("try-depends-on-other-inputs",
                      "the outcome for one input changed with the other inputs' fields: %s" % (dict((str(k), v) for k, v in ocs.items()),),
                      {"property": PID, "broken_tie": "hypothesis try_stable of C14_idempotent (tested on the observed outcome table)",
                       "own_input_key": str(k2), "outcomes": dict((str(k), v) for k, v in ocs.items())}, False)
    # ---- on-break protocol: something broke, no concrete failing input yet -> search for one
    unknown = [v for v in rep.violations]
    if unknown and not any(v["found_input"] for v in unknown):
        directed_search(rep, hbin, seed, tier)
    obligations = len(thms) + 1
    discharged = (len(thms) if ok else 0) + (1 if tie_ok else 0)
    samples = []
    for h in data["hist"]:
        if h["kind"] in ("random", "straight") and len(samples) < 4 or (h["kind"] == "exhaustive" and len(samples) < 6 and h["id"] % 97 == 0):
            c = data["case"][h["case"]]
            samples.append({"history": h["id"], "kind": h["kind"], "templates": c["templates"],
                            "ops": [describe_op(o) for o in h["ops"]],
                            "results": [describe_result(ob["r"]) for ob in h["obs"]]})
    rep.coverage.update({
        "obligations": obligations, "discharged": discharged,
        "checker_cmd": "make -C coq (coqc 8.16.1); coqc Properties/C14.v; verif-harness psbt <seed> | tools/props/c14.py -> "
                       "coqc Tables/PsbtCasesGen.v Tables/PsbtCasesCheck.v",
        "trusted_base": vlib.TRUSTED_BASE_COMMON + [
            "harness oracle psbt_oracle.rs (hash/commitment/signature checks and the truth-table evaluation of each descriptor template)",
            "try_input / interp_check are instantiated by observed outcomes (their own correctness is C01/C13)"],
        "rule": "%d cases (2-4 inputs, every output type forced in turn) x 3-4 initial preparation states x "
                "(all orders of 2-4 operation sets + seeded random histories of 5-22 ops + one straight path); "
                "after every op: result class + abstraction of all 21 input fields; every finalizing call repeated on a copy; "
                "every block of adding ops re-run reversed" % s["cases"],
        "evaluations": s["ops"], "distinct_nontrivial": s["distinct_input_states"],
        "histories": s["histories"], "histories_replayed_in_coq": len(hists),
        "history_length_histogram": s["length_hist"], "op_histogram": s["op_hist"],
        "result_class_histogram": s["result_hist"], "output_type_histogram": s["output_type_hist"],
        "template_histogram": s["template_hist"], "finalized_inputs_by_type": s["finalized_inputs_by_type"],
        "failed_attempts_by_error_class": s["failed_attempts_by_error_class"],
        "extracted_transactions_verified": s["extracted_transactions"], "final_fields_verified": s["spends_verified"],
        "updates_checked": s["updates_checked"], "plan_updates_checked": data["plans"],
        "order_independence_reruns": s["order_checks"], "idempotence_reruns": s["idempotence_checks"],
        "try_outcomes_observed": meta["tries"], "distinct_try_keys": meta["distinct_try_keys"],
        "model_vs_impl_differing_histories": n_diff, "monitor_verdicts": n_mon,
        "finalize_inp_mall_mut_allows_malleable": meta["mall_true"],
        "finalized_input_keeps_unknown_fields": meta["keep_unknown"],
        "mall_probe": data["mall"],
        "raw_pkh_resolution_rows_compared_in_coq": meta["pkh_rows"],
        "timelock_predicate_rows_compared_in_coq": meta["tl_rows"],
        "direct_satisfier_calls": s.get("direct_satisfier_calls"), "direct_satisfier_witnesses_verified": s.get("direct_satisfier_witnesses_verified"),
        "key_origin_histories": dict((k, v) for k, v in collections.Counter(h["kind"] for h in data["hist"]).items() if "key-origins" in k),
        "observations_not_violations": dict(data.get("observations", {})),
        "observation_examples": data.get("observation_example", {}),
        "both_utxo_field_histories": dict((k, v) for k, v in collections.Counter(h["kind"] for h in data["hist"]).items() if k.startswith("utxo-")),
        "samples": samples,
    })
    rep.assumptions = [
        "try_input (descriptor inference + satisfier + interpreter check) is abstract; C14_all_finals_valid/C14_extracted_valid assume its soundness (try_sound; C01/C13) - the harness oracle verifies every final field and every extracted transaction of this run independently",
        "C14_idempotent assumes try_nonempty and try_stable; both are monitored: every finalizing call of the run is repeated on a copy, and the observed outcome table is checked for dependence on other inputs' fields",
        "C14_update_consistent assumes desc_wf (hash relations of the derived descriptor data; C15/C16) - the harness oracle recomputes them with bitcoin primitives for every successful update",
        "finalize_mut's loop order (inputs 0..n, each attempt on the state left by the previous one) is the model's; outcome keys for finalize_mut are reconstructed under it and cross-checked for functional consistency",
        "note (not a C14 clause): finalize_inp_mall_mut passes allow_mall=%s (tabulated by the malleable-only probe input)" % cbool(meta["mall_true"]),
    ]


def hid_of(h):
    return h["id"]


def run_replay(rep, hbin, tier, seed, path):
    r = json.load(open(path))
    rseed, rtier = r.get("seed", seed), r.get("tier", tier)
    if "case" not in r:
        # a broken proof / tie without a concrete case: re-run the whole check
        return run(rep, rtier, rseed, None)
    data = run_harness(hbin, rseed, rtier, only=r["case"])
    n = 0
    for h in data["hist"]:
        if "history" in r and h["id"] != r["history"]:
            continue
        for v in h["viol"]:
            if v["key"] in OBSERVATION_KEYS:
                continue
            n += 1
            rep.violation(v["key"], "replayed history %d step %d: %s" % (h["id"], v["step"], v["what"]),
                          replay_obj(data, h, rseed, rtier, {"failing_step": v["step"], "what": v["what"], "key": v["key"]}), True)
    for v in data["probe_viol"]:
        if r.get("key") == v["key"]:
            n += 1
            rep.violation(v["key"], "replayed case %d: %s" % (v["case"], v["what"]), dict(r), True)
    if n == 0 and "broken_tie" in r:
        return run(rep, rtier, rseed, None)
    print("replay: %d verdict(s) reproduced for case %s history %s" % (n, r.get("case"), r.get("history")))
    rep.coverage.update({"evaluations": data["summary"]["ops"], "distinct_nontrivial": data["summary"]["distinct_input_states"],
                         "rule": "replay of one case", "samples": [r.get("history_ops", [])][:1], "obligations": 1, "discharged": 1 if n == 0 else 0})
