"""C02 — satisfiable with the caller's assets implies a satisfaction is found (DESIGN 5/C02).
Oracle: whenever the implementation reports it cannot satisfy (malleable mode: always;
non-malleable mode: sane descriptor and all preimages known), the extracted specification
table (coq/Ms/SatSpec.v: all_sat) is asked for witnesses from the same assets; each is
executed by the extracted Script semantics; an accepted one is the replay."""
import vlib, satrun

LEVEL = "proof"


def run(rep, tier, seed, replay):
    ok, thms = vlib.proof_gates(rep, "C02")
    n = 12000 if tier == "thorough" else 1200
    r = satrun.run(seed, n, "--brute")
    s = r["summary"]
    for b in r["bad"].get("C02", []):
        frag = "j" if " j " in (" " + b.get("ms", "") + " ") else "other"
        rep.violation("c02:%s:%s" % (b.get("mode"), frag),
                      "implementation could not satisfy although a spending witness exists from the same assets: %s" % b.get("desc"),
                      dict(b, property="C02", engine="sat", seed=seed, n=n,
                           failed_clause="all_sat(ms, assets) contains a witness accepted by verify_spend, implementation returned CouldNotSatisfy"), True)
    for b in r["bad"].get("C17", []):
        # the planner built from plan::Assets says "no plan" while the same capabilities admit one
        if b.get("what") == "assets-plan-differs-from-capabilities" and b.get("lib") == "none":
            rep.violation("c02:assets-plan-missing", "into_plan* reports no plan for Assets that can spend: %s" % b.get("desc", "")[:200],
                          dict(b, property="C02", engine="sat", seed=seed, n=n,
                               failed_clause="plan from plan::Assets is None, plan from the same capabilities exists"), True)
    for d in r["diff"]:
        rep.violation("tie:satisfier-model", "model of the satisfier and implementation disagree: %s" % d.get("line", "")[:300],
                      dict(d, property="C02", broken_tie="correspondence Sat.v (satisfy) vs Descriptor::get_satisfaction*", seed=seed, n=n), False)
    tie_ok = not r["diff"]
    rep.coverage.update({
        "obligations": len(thms) + 1, "discharged": (len(thms) if ok else 0) + (1 if tie_ok else 0),
        "checker_cmd": "make -C coq; coqc Properties/C02.v; verif-harness sat %d %d | ocaml/driver" % (seed, n),
        "trusted_base": vlib.TRUSTED_BASE_COMMON + ["Coq extraction to OCaml (ExtrOcamlBasic only) and ocaml/driver.ml",
                                                    "SatSpec.v transcribes the specification's (dis)satisfaction table"],
        "evaluations": s.get("c02_checked", 0), "distinct_nontrivial": s.get("c02_checked", 0),
        "rule": "every run of the sat engine in which the implementation returned an error and the property's premise can apply; non-trivial = the table was enumerated and each candidate executed",
        "unsatisfied_runs_checked": s.get("c02_checked", 0), "counterexamples": s.get("c02_bad", 0),
        "bruteforce_runs": s.get("c02_brute_runs", 0), "bruteforce_executions": s.get("c02_brute_execs", 0),
        "model_runs_equal": s.get("model_eq", 0), "cases": s.get("cases", 0), "histogram": r["hist"],
        "samples": [{"summary": s}],
    })
    rep.assumptions = ["existence of a spending witness is searched through the specification table; for the first 300 unsatisfied malleable-mode runs additionally by brute force over the caller's own material up to 3-5 elements"]
