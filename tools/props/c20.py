"""C20 — key translation and key iteration preserve structure (DESIGN 5/C20).

Proof:  coq/Properties/C20.v (model coq/Ms/TranslateModel.v; proofs Proofs/TranslateProofs.v).
Tie:    the `translate` harness engine runs translate_pk on generated miniscripts of all four contexts,
        descriptors of every type (tr with trees) and both policy types under identity / injective renaming /
        merging / partial / failing-on-the-i-th-call / context-illegal mappings, string -> concrete keys through
        the text form and definite -> derived keys; results, error classes and the translator's call log, and
        iter_pk / for_each_key, are compared with the model INSIDE Coq (Tables/TranslateCasesGen.v generated,
        Tables/TranslateCasesCheck.v by vm_compute).
        Extension: `TH` lines — translate_pk with NON-identity hash translators (injective / constant / failing on a hash /
        failing on a hash kind, one call counter over all translator methods) on miniscripts and descriptors containing
        hashes and on every concrete / semantic policy, and the policies' keys / for_each_key / for_any_key — are compared
        with Ms/TranslateHashModel.v and Ms/TranslatePolModel.v inside Coq (Tables/TranslateHashCasesGen.v generated,
        Tables/TranslateHashCasesCheck.v by vm_compute; theorems C20_pol_* and C20_trh_* in Properties/C20.v).
Oracle: independent of the model: the result's dump must be the original dump with the key tokens substituted
        (computed here on the token level), the script must be the byte-level substitution of the original
        script (computed in the harness with rust-bitcoin only), types are kept, a failure must have a cause
        (an unmapped key / the failing call, or a mapped key of a kind the context forbids), the iterators
        must list exactly the keys scanned from the Display string.
"""
import ast as pyast
import json
import os
import re
import vlib
from props.c19 import parse_ms, roles_of, DumpError, chunks, coq_value, desc_term as c19_desc_term

LEVEL = "proof"
PID = "C20"
MS_DOMS = ["bare", "legacy", "segv0", "tap"]
DESC_DOMS = ["desc", "desc-tr"]
CTX = {"bare": "Bare", "legacy": "Legacy", "segv0": "Segwitv0", "tap": "Tap"}
ILLEGAL = {"bare": "x", "legacy": "x", "segv0": "ux", "tap": "u"}
DESC_CTX = {"wsh": "segv0", "sh-wsh": "segv0", "wpkh": "segv0", "sh-wpkh": "segv0", "sh": "legacy", "pkh": "legacy",
            "bare": "bare", "tr": "tap"}
EO_CODE = {"type": 0, "uncompressed": 1, "xonly": 2, "multi_a": 3, "tapmulti": 4}
SIZE_LIMIT = {"bare": 10000, "legacy": 520, "segv0": 3600, "tap": 4000000}
KIND_CODE = {"c": 0, "u": 1, "x": 2}


def ilist(s):
    return [] if s == "-" else [int(x) for x in s.split(",")]


def parse_output(text):
    o = {"KU": {}, "M": {}, "V": {}, "I": {}, "T": [], "TH": [], "D": {}, "C": {}, "X": 0}
    for line in text.splitlines():
        f = line.split(" | ")
        k = f[0]
        if k == "KU":
            o["KU"][f[1]] = {int(x.split(":")[0]): x.split(":")[1] for x in f[2].split()}
        elif k == "M":
            o["M"][int(f[1])] = (f[2], [None if x == "-" else int(x) for x in f[3].split()], None if f[4] == "-" else int(f[4]))
        elif k == "V":
            o["V"].setdefault(f[1], {})[int(f[2])] = f[3]
        elif k == "I":
            allv, each = f[4].split(":")
            o["I"].setdefault(f[1], {})[int(f[2])] = (ilist(f[3]), allv == "1", ilist(each), ilist(f[5]), f[6], f[7])
        elif k == "T":
            o["T"].append({"dom": f[1], "vid": int(f[2]), "mapid": int(f[3]), "res": f[4], "calls": ilist(f[5]),
                           "ty": f[6], "script": f[7], "eq": f[8], "slen": f[9] if len(f) > 9 else "-"})
        elif k == "TH":
            o["TH"].append({"dom": f[1], "vid": int(f[2]), "mapid": int(f[3]), "hmode": int(f[4]), "harg": "" if f[5] == "-" else f[5],
                            "res": f[6], "calls": [] if f[7] == "-" else f[7].split(), "eq": f[8]})
        elif k == "D":
            o["D"].setdefault(f[1], {})[int(f[2])] = f[3]
        elif k == "C":
            o["C"].setdefault(f[1], {})[int(f[2])] = f[3]
        elif k == "X":
            o["X"] += 1
    return o


def dom_kind(dom):
    return "desc" if dom in DESC_DOMS else dom


def key_positions(dom, dump):
    """indices of the tokens of a dump that are keys"""
    tok = dump.split()
    if dom in ("conc", "sem"):
        return [i + 1 for i, t in enumerate(tok) if t == "key"]
    roles = roles_of(dom_kind(dom), dump)
    if roles and roles[0][0] == "unparsed":
        raise DumpError("unparsable dump %r" % dump)
    # roles are in token order except that desc dumps carry a few literal tokens (leaf) not in roles
    pos, out, ri = 0, [], 0
    for i, t in enumerate(tok):
        if ri < len(roles) and roles[ri][1] == t:
            if roles[ri][0] in ("key", "multi-key"):
                out.append(i)
            ri += 1
    return out


def subst_dump(dom, dump, fp):
    tok = dump.split()
    for i in key_positions(dom, dump):
        k = int(tok[i])
        if k < len(fp):
            if fp[k] is None:
                return None
            tok[i] = str(fp[k])
    return " ".join(tok)


def value_ctx(dom, dump):
    return DESC_CTX[dump.split()[0]] if dom in DESC_DOMS else (dom if dom in MS_DOMS else None)


def checked_keys(dom, dump):
    """keys whose kind the context checks: pk_k and pk_h leaves, multi keys, single-key descriptors, tr internal key"""
    tok = dump.split()
    out = []
    roles = roles_of(dom_kind(dom), dump)
    prev_tag = None
    for r, t in roles:
        if r in ("tag", "desc-kind"):
            prev_tag = t
        elif r == "multi-key":
            out.append(int(t))
        elif r == "key" and prev_tag in ("pk_k", "pk_h", "pkh", "wpkh", "sh-wpkh", "tr"):
            out.append(int(t))
    return out


def oracle(rep, o, seed):
    st = {"cases": 0, "ok": 0, "translator_err": 0, "outer_err": 0, "iter": 0, "derive": 0, "by_key": {}, "by_mapping": {}, "by_result": {}}

    def viol(key, what, dom, vid, extra=None):
        st["by_key"][key] = st["by_key"].get(key, 0) + 1
        r = {"property": PID, "seed": seed, "domain": dom, "value": o["V"][dom][vid], "key": key, "what": what}
        if extra:
            r.update(extra)
        rep.violation(key, ("%s [%s] %s %s" % (what, dom, o["V"][dom][vid], json.dumps(extra or {}, sort_keys=True)))[:1500], r, True)

    for t in o["T"]:
        dom, vid = t["dom"], t["vid"]
        name, fp, fail_at = o["M"][t["mapid"]]
        dump = o["V"][dom][vid]
        st["cases"] += 1
        st["by_mapping"][name] = st["by_mapping"].get(name, 0) + 1
        kinds = o["KU"][dom]
        ex = {"mapping": {"name": name, "fp": fp, "fail_at": fail_at}, "result": t["res"], "calls": t["calls"]}
        res = t["res"].split(" ", 1)
        st["by_result"][res[0] + (" " + res[1] if res[0] == "EO" else "")] = st["by_result"].get(res[0] + (" " + res[1] if res[0] == "EO" else ""), 0) + 1
        keys = [int(dump.split()[i]) for i in key_positions(dom, dump)]
        ctx = value_ctx(dom, dump)
        # what the mapping does on this value
        unmapped = [k for k in keys if k < len(fp) and fp[k] is None]
        illegal = []
        if ctx:
            illegal = [k for k in checked_keys(dom, dump) if k < len(fp) and fp[k] is not None and kinds[fp[k]] in ILLEGAL[ctx]]
        if res[0] == "PANIC":
            viol("translate-panic", "translate_pk panics", dom, vid, ex)
        elif res[0] == "OK":
            st["ok"] += 1
            want = subst_dump(dom, dump, fp)
            if want is None or fail_at is not None and fail_at < len(t["calls"]):
                viol("ok-despite-failing-map", "translation succeeds although the mapping fails on a key of the value", dom, vid, ex)
            elif res[1] != want:
                ex["expected"] = want
                viol("structure", "the translation is not the original with the keys substituted", dom, vid, ex)
            elif illegal:
                ex["illegal_keys"] = illegal
                viol("ok-with-illegal-key", "the translation succeeds although a mapped key is of a kind the context forbids "
                     "(the result is not a valid object of its context)", dom, vid, ex)
            if sorted(t["calls"]) != sorted(keys):
                viol("calls", "the translator is not called exactly once per key occurrence", dom, vid, ex)
            if t["ty"] == "0":
                viol("type", "the type of the translation differs from the original's", dom, vid, ex)
            if t["script"] == "0":
                viol("script", "the script of the translation is not the byte-level substitution of the original script", dom, vid, ex)
            if t["eq"] == "0":
                viol("identity", "the identity mapping does not yield an equal object", dom, vid, ex)
        elif res[0] == "ET":
            st["translator_err"] += 1
            i = int(res[1])
            calls = t["calls"]
            cause = len(calls) == i + 1 and (fail_at == i or (calls[i] < len(fp) and fp[calls[i]] is None))
            early = any((fail_at == j) or (calls[j] < len(fp) and fp[calls[j]] is None) for j in range(min(i, len(calls))))
            if not cause or early:
                viol("fail-without-cause", "TranslatorErr although the mapping did not fail on that call", dom, vid, ex)
        elif res[0] == "EO":
            st["outer_err"] += 1
            cls = res[1]
            want_kind = {"uncompressed": "u", "xonly": "x"}.get(cls)
            # the mapped keys are longer and the substituted script exceeds the context's script-size limit
            too_big = cls == "size" and ctx and t["slen"] != "-" and int(t["slen"]) > SIZE_LIMIT[ctx]
            if too_big:
                st["size_failures"] = st.get("size_failures", 0) + 1
            elif want_kind is None or not any(kinds[fp[k]] == want_kind for k in illegal):
                viol("fail-other:%s" % cls, "translation fails with a context error although no mapped key is illegal in the context", dom, vid, ex)
        # a mapping that is defined on every key and produces only legal keys must succeed
        if res[0] != "OK" and not unmapped and not illegal and fail_at is None and not (res[0] == "EO" and too_big):
            viol("fail-without-cause", "translation fails although every key is mapped to a key that is legal in the context", dom, vid, ex)
    # composition, checked on the token level from the observed results: rename then identity etc. is covered by
    # the model; here: iterators
    for dom, vs in sorted(o["I"].items()):
        for vid, (it, allv, each, strk, anyv, short) in sorted(vs.items()):
            st["iter"] += 1
            ex = {"iter_pk": it, "for_each_key": each, "display_keys": strk, "short_circuit": short}
            if dom in ("conc", "sem"):
                if sorted(it) != sorted(strk):
                    viol("keys", "keys() and the keys of the string form differ", dom, vid, ex)
            elif it != strk:
                viol("keys", "iter_pk does not list the keys of the string form in order", dom, vid, ex)
            if sorted(each) != sorted(strk) or (dom != "desc-tr" and each != strk) or not allv:
                viol("keys", "for_each_key does not visit exactly the keys of the string form", dom, vid, ex)
            if anyv != "-" and (anyv == "1") != bool(strk):
                viol("keys", "for_any_key(first key) is wrong", dom, vid, ex)
            if short not in ("-", ""):
                j, r, vis = short.split(":")
                if r != "0" or ilist(vis) != each[:int(j) + 1]:
                    viol("keys", "for_each_key does not stop at the first key failing the predicate", dom, vid, ex)
    for dom, vs in sorted(o["C"].items()):
        for vid, s in sorted(vs.items()):
            st["compose"] = st.get("compose", 0) + 1
            if s not in ("1", "both-fail"):
                viol("composition", "translate(rename) then translate(shift) differs from translate(shift . rename): %s" % s, dom, vid, {"observed": s})
    for dom, vs in sorted(o["D"].items()):
        for vid, s in sorted(vs.items()):
            st["derive"] += 1
            if s != "OK dump:1 script:1 type:1":
                viol("derive", "definite -> derived translation changes structure, script or type: %s" % s, dom, vid, {"observed": s})
    return st


class Namer:
    def __init__(self, prefix="hx"):
        self.names = {}
        self.prefix = prefix

    def __call__(self, h):
        if h not in self.names:
            self.names[h] = "%s%d" % (self.prefix, len(self.names))
        return self.names[h]


# ------------------------------------------------------------------ hash-translating runs and the policy model
HKIND = ["HSha256", "HHash256", "HRipemd160", "HHash160"]
HTAGS = {"sha256": 0, "hash256": 1, "ripemd160": 2, "hash160": 3}
POL_DOMS = ["conc", "sem"]


def hmap_apply(mode, arg, kind, h):
    """the harness's hash mapping (translate.rs HMap::apply), on hex strings; None = the translator fails"""
    flip = lambda x: "%02x" % (int(x[:2], 16) ^ 1) + x[2:] if x else x
    if mode == 0:
        return h
    if mode == 1:
        return flip(h)
    if mode == 2:
        return arg[:len(h)]
    if mode == 3:
        return None if h == arg else flip(h)
    return None if arg and int(arg[:2], 16) == kind else h


def hash_positions(dump):
    tok = dump.split()
    return [(i + 1, HTAGS[t]) for i, t in enumerate(tok[:-1]) if t in HTAGS and re.fullmatch(r"(?:[0-9a-f]{2})+", tok[i + 1])]


def pol_term(dump, nm):
    """Gallina term (type `cpol` of Ms/EqOrdPolModel.v) of a policy dump of translate.rs (cdump / sdump)"""
    tok = dump.split()

    def rec(pos):
        t = tok[pos]
        if t == "unsat":
            return "QUnsat", pos + 1
        if t == "triv":
            return "QTriv", pos + 1
        if t in ("key", "after", "older"):
            return "(%s %d)" % ({"key": "QKey", "after": "QAfter", "older": "QOlder"}[t], int(tok[pos + 1])), pos + 2
        if t in HTAGS:
            return "(%s %s)" % ({"sha256": "QSha256", "hash256": "QHash256", "ripemd160": "QRipemd160", "hash160": "QHash160"}[t],
                                nm(tok[pos + 1])), pos + 2
        if t == "and":
            n, pos, xs = int(tok[pos + 1]), pos + 2, []
            for _ in range(n):
                x, pos = rec(pos)
                xs.append(x)
            return "(QAnd [%s])" % "; ".join(xs), pos
        if t == "or":
            n, pos, xs = int(tok[pos + 1]), pos + 2, []
            for _ in range(n):
                if not tok[pos].endswith("@"):
                    raise DumpError("odds expected in %r" % dump)
                odds = int(tok[pos][:-1])
                x, pos = rec(pos + 1)
                xs.append("(%d, %s)" % (odds, x))
            return "(QOr [%s])" % "; ".join(xs), pos
        if t == "thresh":
            k, n, pos, xs = int(tok[pos + 1]), int(tok[pos + 2]), pos + 3, []
            for _ in range(n):
                x, pos = rec(pos)
                xs.append(x)
            return "(QThresh %d [%s])" % (k, "; ".join(xs)), pos
        raise DumpError("unknown policy token %r in %r" % (t, dump))

    try:
        t, pos = rec(0)
    except (IndexError, ValueError):
        raise DumpError("unparsable policy dump %r" % dump)
    if pos != len(tok):
        raise DumpError("trailing tokens in %r" % dump)
    return t


def call_fails(c, idx, fp, fa, mode, arg):
    if fa == idx:
        return True
    if c[0] == "k":
        k = int(c[1:])
        return k < len(fp) and fp[k] is None
    kind, h = c[1:].split(":")
    return hmap_apply(mode, arg, int(kind), h) is None


def oracle_hash(rep, o, seed, st):
    """judge the hash-translating runs without the model: the result is the original with keys and hashes substituted,
    the translator is called once per key / hash occurrence, a failure is caused by the failing call and by no earlier one"""
    st.update({"hash_cases": 0, "hash_ok": 0, "hash_translator_err": 0, "hash_outer_err": 0, "by_hash_mode": {}})

    def viol(key, what, t, extra):
        st["by_key"][key] = st["by_key"].get(key, 0) + 1
        dom, vid = t["dom"], t["vid"]
        r = {"property": PID, "seed": seed, "domain": dom, "value": o["V"][dom][vid], "key": key, "what": what}
        r.update(extra)
        rep.violation(key, ("%s [%s] %s %s" % (what, dom, o["V"][dom][vid], json.dumps(extra, sort_keys=True)))[:1500], r, True)

    for t in o["TH"]:
        dom, vid = t["dom"], t["vid"]
        name, fp, fa = o["M"][t["mapid"]]
        mode, arg = t["hmode"], t["harg"]
        dump = o["V"][dom][vid]
        st["hash_cases"] += 1
        st["by_hash_mode"][str(mode)] = st["by_hash_mode"].get(str(mode), 0) + 1
        ex = {"mapping": {"name": name, "fp": fp, "fail_at": fa, "hash_mode": mode, "hash_arg": arg}, "result": t["res"], "calls": t["calls"]}
        res = t["res"].split(" ", 1)
        tok = dump.split()
        atoms = sorted(["k%s" % tok[i] for i in key_positions(dom, dump)] + ["h%d:%s" % (k, tok[i]) for i, k in hash_positions(dump)])
        fails = [call_fails(c, i, fp, fa, mode, arg) for i, c in enumerate(t["calls"])]
        if res[0] == "PANIC":
            viol("translate-panic", "translate_pk panics", t, ex)
        elif res[0] == "OK":
            st["hash_ok"] += 1
            want = subst_dump(dom, dump, fp)
            if want is not None:
                wt = want.split()
                for i, k in hash_positions(dump):
                    h = hmap_apply(mode, arg, k, tok[i])
                    if h is None:
                        want = None
                        break
                    wt[i] = h
                else:
                    want = " ".join(wt)
            if any(fails) or want is None:
                viol("ok-despite-failing-map", "translation succeeds although the mapping fails on a key or hash of the value", t, ex)
            elif res[1] != want:
                ex["expected"] = want
                viol("structure", "the translation is not the original with the keys and hashes substituted", t, ex)
            if sorted(t["calls"]) != atoms:
                viol("calls", "the translator is not called exactly once per key / hash occurrence", t, ex)
            if t["eq"] == "0":
                viol("identity", "the identity mapping (keys and hashes) does not yield an equal object", t, ex)
        elif res[0] == "ET":
            st["hash_translator_err"] += 1
            i = int(res[1])
            if len(fails) != i + 1 or not fails[i] or any(fails[:i]):
                viol("fail-without-cause", "translator error although the mapping did not fail on that call (or failed earlier)", t, ex)
            rest = list(atoms)
            for c in t["calls"]:
                if c in rest:
                    rest.remove(c)
                else:
                    viol("calls", "the translator is called on something that does not occur in the value", t, ex)
                    break
        elif res[0] == "EO":
            st["hash_outer_err"] += 1
            ctx = value_ctx(dom, dump)
            kinds = o["KU"][dom]
            illegal = [k for k in checked_keys(dom, dump) if k < len(fp) and fp[k] is not None and kinds[fp[k]] in ILLEGAL[ctx]] if ctx else []
            if res[1] not in ("uncompressed", "xonly", "size") or (res[1] != "size" and not illegal):
                viol("fail-other:%s" % res[1], "translation with a hash mapping fails with a context error although no mapped key is illegal", t, ex)
        if res[0] != "OK" and not any(fails) and res[0] != "EO":
            viol("fail-without-cause", "translation fails although the mapping is defined on every key and hash it was called on", t, ex)


def atom_term(c, nm):
    if c[0] == "k":
        return "AKey %d" % int(c[1:])
    kind, h = c[1:].split(":")
    return "AHash %s %s" % (HKIND[int(kind)], nm(h))


def gen_hash_coq(o):
    """Tables/TranslateHashCasesGen.v: the hash-translating cases of the miniscript / descriptor domains (values are those of
    TranslateCasesGen.v) and the policy domains with their values, cases and key-iteration observations"""
    nm = Namer("hy")
    body, hn, dn, pn = [], [], [], []

    def term_of(dom):
        if dom in MS_DOMS:
            def ms_term(dump):
                tok = dump.split()
                t, pos = parse_ms(tok, 0, [], nm)
                if pos != len(tok):
                    raise DumpError("trailing tokens in %r" % dump)
                return t
            return ms_term
        if dom in DESC_DOMS:
            return lambda dump: c19_desc_term(dump, nm)
        return lambda dump: pol_term(dump, nm)

    for dom in MS_DOMS + DESC_DOMS + POL_DOMS:
        cid = dom.replace("-", "_")
        term = term_of(dom)
        ty = "ms" if dom in MS_DOMS else "desc" if dom in DESC_DOMS else "cpol"
        cases = []
        for t in o["TH"]:
            if t["dom"] != dom:
                continue
            name, fp, fa = o["M"][t["mapid"]]
            cases.append("(%d, %s, %s, %d, %s, %s, [%s])" % (
                t["vid"], opt_list(fp), "None" if fa is None else "Some %d" % fa, t["hmode"], nm(t["harg"]) if t["harg"] else "[]",
                robs(t["res"], term), "; ".join(atom_term(c, nm) for c in t["calls"])))
        cn = []
        for c, ch in enumerate(chunks(cases, 300)):
            body.append("Definition hcases_%s_%d : list (hcase %s) := [%s]." % (cid, c, ty, ";\n  ".join(ch)))
            cn.append("hcases_%s_%d" % (cid, c))
        body.append("Definition hcases_%s : list (hcase %s) := %s." % (cid, ty, " ++ ".join(cn)))
        if dom in MS_DOMS:
            body.append("Definition hdom_%s : hdom := mkHDom %s kinds_%s tvals_%s hcases_%s." % (cid, CTX[dom], cid, cid, cid))
            hn.append("hdom_%s" % cid)
        elif dom in DESC_DOMS:
            body.append("Definition hddom_%s : hddom := mkHDDom kinds_%s tvals_%s hcases_%s." % (cid, cid, cid, cid))
            dn.append("hddom_%s" % cid)
        else:
            vals = o["V"].get(dom, {})
            terms = [term(vals[i]) for i in range(len(vals))]
            cn = []
            for c, ch in enumerate(chunks(terms, 200)):
                body.append("Definition pvals_%s_%d : list cpol := [%s]." % (cid, c, ";\n  ".join(ch)))
                cn.append("pvals_%s_%d" % (cid, c))
            body.append("Definition pvals_%s : list cpol := %s." % (cid, " ++ ".join(cn)))
            ic = []
            for vid, (it, allv, each, strk, anyv, short) in sorted(o["I"].get(dom, {}).items()):
                extra = "None"
                if each and anyv != "-" and short not in ("-", ""):
                    j, r, vis = short.split(":")
                    extra = "Some (%d, %s, %d, %s, [%s])" % (each[0], "true" if anyv == "1" else "false", each[len(each) // 2],
                                                             "true" if r == "1" else "false", "; ".join(map(str, ilist(vis))))
                ic.append("(%d, [%s], %s, [%s], %s)" % (vid, "; ".join(map(str, it)), "true" if allv else "false",
                                                        "; ".join(map(str, each)), extra))
            body.append("Definition picases_%s : list picase := [%s]." % (cid, ";\n  ".join(ic)))
            body.append("Definition pdom_%s : pdom := mkPDom %s pvals_%s hcases_%s picases_%s." % (
                cid, "true" if dom == "sem" else "false", cid, cid, cid))
            pn.append("pdom_%s" % cid)
    head = ["(* generated by tools/props/c20.py from the output of `verif-harness translate`; do not edit *)",
            "From Verif Require Import TranslateHashRun TranslateCasesGen.", "Local Open Scope N_scope."]
    for h, n in sorted(nm.names.items(), key=lambda x: int(x[1][2:])):
        head.append("Definition %s : bytes := [%s]." % (n, "; ".join(str(int(h[i:i + 2], 16)) for i in range(0, len(h), 2))))
    return "\n".join(head + body + ["Definition hdoms : list hdom := [%s]." % "; ".join(hn),
                                    "Definition hddoms : list hddom := [%s]." % "; ".join(dn),
                                    "Definition pdoms : list pdom := [%s]." % "; ".join(pn)]) + "\n"


def coq_tie_hash(rep, o, seed):
    """the hash-translating cases and the policy cases against translate_iter_h / translate_desc_h / ptranslate_iter / ptranslate /
    pkeys / pfor_each_key / pfor_any_key, inside Coq. Must run after coq_tie (it imports TranslateCasesGen)."""
    tdir = os.path.join(vlib.COQ, "Tables")
    try:
        src = gen_hash_coq(o)
    except DumpError as e:
        rep.violation("tie:dump", "cannot convert a dump into a model term: %s" % e,
                      {"property": PID, "broken_tie": "dump -> Coq term conversion (hash / policy cases)", "error": str(e)}, False)
        return False, 0
    open(os.path.join(tdir, "TranslateHashCasesGen.v"), "w").write(src)
    c1 = vlib.coqc("Tables/TranslateHashCasesGen.v")
    if c1.returncode != 0:
        raise RuntimeError("generated TranslateHashCasesGen.v does not compile: " + (c1.stderr or c1.stdout)[-2000:])
    c2 = vlib.coqc("Tables/TranslateHashCasesCheck.v")
    if c2.returncode == 0:
        return True, 0
    c3 = vlib.coqc("Tables/TranslateHashCasesDiag.v")
    val = coq_value(c3.stdout) if c3.returncode == 0 else None
    if val is None:
        rep.violation("tie:diag", "hash_cases_match_model / policy_cases_match_model fails and the diagnosis did not run: " + (c3.stderr or c2.stderr)[-800:],
                      {"property": PID, "broken_tie": "Tables/TranslateHashCasesCheck.v"}, False)
        return False, 0
    n = 0
    kinds = ["OK", "TranslatorErr", "OuterError", "PANIC"]

    def report(dom, cases):
        nonlocal n
        tl = [t for t in o["TH"] if t["dom"] == dom]
        for (pos, (mk, mv)) in cases:
            n += 1
            t = tl[pos]
            name, fp, fa = o["M"][t["mapid"]]
            rep.violation("tie:translate-hash", "implementation and model disagree on translate_pk of [%s] %s under keys %s %s fail-at %s, hashes mode %d %s: "
                          "impl %s (calls %s), model %s %d" % (dom, o["V"][dom][t["vid"]], name, fp, fa, t["hmode"], t["harg"], t["res"], t["calls"], kinds[mk], mv),
                          {"property": PID, "seed": seed, "domain": dom, "value": o["V"][dom][t["vid"]],
                           "mapping": {"name": name, "fp": fp, "fail_at": fa, "hash_mode": t["hmode"], "hash_arg": t["harg"]},
                           "implementation": t["res"], "calls": t["calls"], "model": [kinds[mk], mv],
                           "broken_tie": "Tables/TranslateHashCasesCheck.v"}, False)

    for dom, cases in zip(MS_DOMS, val[0]):
        report(dom, cases)
    for dom, cases in zip(DESC_DOMS, val[1]):
        report(dom, cases)
    for dom, (cases, icases) in zip(POL_DOMS, val[2]):
        report(dom, cases)
        for vid in icases:
            n += 1
            rep.violation("tie:policy-keys", "implementation and model disagree on keys / for_each_key / for_any_key of [%s] %s: %s" %
                          (dom, o["V"][dom][vid], o["I"][dom][vid]),
                          {"property": PID, "seed": seed, "domain": dom, "value": o["V"][dom][vid], "observed": list(o["I"][dom][vid]),
                           "broken_tie": "policy_cases_match_model (key iteration)"}, False)
    if n == 0:
        rep.violation("tie:unknown", "TranslateHashCasesCheck.v fails: " + (c2.stderr or c2.stdout)[-800:],
                      {"property": PID, "broken_tie": "Tables/TranslateHashCasesCheck.v"}, False)
    return False, n


def robs(res, parse):
    r = res.split(" ", 1)
    if r[0] == "OK":
        return "ROK %s" % parse(r[1])
    if r[0] == "ET":
        return "RET %s" % r[1]
    if r[0] == "EO":
        return "REO %d" % EO_CODE.get(r[1], 5)
    return "RPANIC"


def opt_list(fp):
    return "[%s]" % "; ".join("None" if x is None else "Some %d" % x for x in fp)


def gen_coq(o):
    nm = Namer()

    def ms_term(dump):
        roles = []
        tok = dump.split()
        t, pos = parse_ms(tok, 0, roles, nm)
        if pos != len(tok):
            raise DumpError("trailing tokens in %r" % dump)
        return t

    def desc_term(dump):
        return c19_desc_term(dump, nm)

    body, tnames, dnames = [], [], []
    for dom in MS_DOMS + DESC_DOMS:
        vals = o["V"].get(dom, {})
        is_ms = dom in MS_DOMS
        cid = dom.replace("-", "_")
        term = ms_term if is_ms else desc_term
        ty = "ms" if is_ms else "desc"
        body.append("Definition kinds_%s : list (N * N) := [%s]." % (cid, "; ".join("(%d, %d)" % (i, KIND_CODE[k]) for i, k in sorted(o["KU"][dom].items()))))
        terms = [term(vals[i]) for i in range(len(vals))]
        cn = []
        for c, ch in enumerate(chunks(terms, 200)):
            body.append("Definition tvals_%s_%d : list %s := [%s]." % (cid, c, ty, ";\n  ".join(ch)))
            cn.append("tvals_%s_%d" % (cid, c))
        body.append("Definition tvals_%s : list %s := %s." % (cid, ty, " ++ ".join(cn)))
        cases = []
        for t in o["T"]:
            if t["dom"] != dom:
                continue
            name, fp, fa = o["M"][t["mapid"]]
            cases.append("(%d, %s, %s, %s, [%s])" % (t["vid"], opt_list(fp), "None" if fa is None else "Some %d" % fa,
                                                     robs(t["res"], term), "; ".join(str(x) for x in t["calls"])))
        cn = []
        for c, ch in enumerate(chunks(cases, 400)):
            body.append("Definition tcases_%s_%d : list %s := [%s]." % (cid, c, "tcase" if is_ms else "dcase", ";\n  ".join(ch)))
            cn.append("tcases_%s_%d" % (cid, c))
        body.append("Definition tcases_%s : list %s := %s." % (cid, "tcase" if is_ms else "dcase", " ++ ".join(cn)))
        ic = ["(%d, [%s], %s, [%s])" % (vid, "; ".join(map(str, it)), "true" if allv else "false", "; ".join(map(str, each)))
              for vid, (it, allv, each, strk, anyv, short) in sorted(o["I"].get(dom, {}).items())]
        body.append("Definition icases_%s : list icase := [%s]." % (cid, ";\n  ".join(ic)))
        if is_ms:
            body.append("Definition tdom_%s : tdom := mkTDom %s kinds_%s tvals_%s tcases_%s icases_%s." % (cid, CTX[dom], cid, cid, cid, cid))
            tnames.append("tdom_%s" % cid)
        else:
            body.append("Definition ddom_%s : ddom := mkDDom kinds_%s tvals_%s tcases_%s icases_%s." % (cid, cid, cid, cid, cid))
            dnames.append("ddom_%s" % cid)
    head = ["(* generated by tools/props/c20.py from the output of `verif-harness translate`; do not edit *)",
            "From Verif Require Import TranslateRun.", "Local Open Scope N_scope."]
    for h, n in sorted(nm.names.items(), key=lambda x: int(x[1][2:])):
        head.append("Definition %s : bytes := [%s]." % (n, "; ".join(str(int(h[i:i + 2], 16)) for i in range(0, len(h), 2))))
    return "\n".join(head + body + ["Definition tdoms : list tdom := [%s]." % "; ".join(tnames),
                                    "Definition ddoms : list ddom := [%s]." % "; ".join(dnames)]) + "\n"


def coq_tie(rep, o, seed):
    tdir = os.path.join(vlib.COQ, "Tables")
    try:
        src = gen_coq(o)
    except DumpError as e:
        rep.violation("tie:dump", "cannot convert a dump into a model term: %s" % e,
                      {"property": PID, "broken_tie": "dump -> Coq term conversion", "error": str(e)}, False)
        return False, 0
    open(os.path.join(tdir, "TranslateCasesGen.v"), "w").write(src)
    c1 = vlib.coqc("Tables/TranslateCasesGen.v")
    if c1.returncode != 0:
        raise RuntimeError("generated TranslateCasesGen.v does not compile: " + (c1.stderr or c1.stdout)[-2000:])
    c2 = vlib.coqc("Tables/TranslateCasesCheck.v")
    if c2.returncode == 0:
        return True, 0
    c3 = vlib.coqc("Tables/TranslateCasesDiag.v")
    val = coq_value(c3.stdout) if c3.returncode == 0 else None
    if val is None:
        rep.violation("tie:diag", "translate_cases_match_model fails and the diagnosis did not run: " + (c3.stderr or c2.stderr)[-800:],
                      {"property": PID, "broken_tie": "Tables/TranslateCasesCheck.v"}, False)
        return False, 0
    n = 0
    kinds = ["OK", "TranslatorErr", "OuterError", "PANIC"]
    for doms, diag in ((MS_DOMS, val[0]), (DESC_DOMS, val[1])):
        for dom, (cases, icases) in zip(doms, diag):
            tl = [t for t in o["T"] if t["dom"] == dom]
            for (pos, (mk, mv)) in cases:
                n += 1
                t = tl[pos]
                name, fp, fa = o["M"][t["mapid"]]
                rep.violation("tie:translate", "implementation and model disagree on translate_pk of [%s] %s under %s %s: impl %s (calls %s), model %s %d" %
                              (dom, o["V"][dom][t["vid"]], name, fp, t["res"], t["calls"], kinds[mk], mv),
                              {"property": PID, "seed": seed, "domain": dom, "value": o["V"][dom][t["vid"]],
                               "mapping": {"name": name, "fp": fp, "fail_at": fa}, "implementation": t["res"], "calls": t["calls"],
                               "model": [kinds[mk], mv], "broken_tie": "translate_cases_match_model (Tables/TranslateCasesCheck.v)"}, False)
            for vid in icases:
                n += 1
                rep.violation("tie:keys", "implementation and model disagree on iter_pk / for_each_key of [%s] %s: %s" %
                              (dom, o["V"][dom][vid], o["I"][dom][vid]),
                              {"property": PID, "seed": seed, "domain": dom, "value": o["V"][dom][vid], "observed": list(o["I"][dom][vid]),
                               "broken_tie": "translate_cases_match_model (key iteration)"}, False)
    if n == 0:
        rep.violation("tie:unknown", "TranslateCasesCheck.v fails: " + (c2.stderr or c2.stdout)[-800:],
                      {"property": PID, "broken_tie": "Tables/TranslateCasesCheck.v"}, False)
    return False, n


# ---------------------------------------------------------------- closers (extension round 2)
def closers_stage(rep, hbin, tier, seed):
    """Properties/C20Closers.v + the multipath stage: descriptors over String keys translated into DescriptorPublicKeys with
    multipath keys of different lengths (engine translate-mp, exhaustive over 9 target kinds per placeholder)."""
    thms, blocks, problems, _ = vlib.check_property_file("C20Closers")
    if problems:
        rep.violation("property-file", "; ".join(problems),
                      {"property": PID, "broken_tie": "Properties/C20Closers.v", "problems": problems}, found_input=False)
    p = vlib.sh([hbin, "translate-mp", str(seed)], env={"VERIF_TIER": tier}, timeout=600)
    if p.returncode != 0:
        raise RuntimeError("translate-mp engine failed: " + p.stderr[-2000:])
    hist, obs, samples, bad, n = {}, {}, [], 0, 0
    for line in p.stdout.splitlines():
        if line.startswith("MPBAD"):
            bad += 1
            rep.violation("mp:engine", line, {"property": PID, "broken_tie": "translate-mp corpus"}, found_input=False)
            continue
        if not line.startswith("MP "):
            continue
        n += 1
        desc, kinds, res, cause, reparse, mism = [x.strip() for x in line[3:].split(" | ")]
        res, cause, reparse, mism = res[4:], cause[6:], reparse[8:], mism[9:]
        kl = kinds.split(",")
        robj = {"property": PID, "stage": "multipath", "descriptor": desc, "target_kinds": kinds, "line": line}
        cls = res.split(" ")[0].split(":")[0]
        hist[cls] = hist.get(cls, 0) + 1
        if cls == "panic":
            bad += 1
            rep.violation("mp:panic", "translate_pk panics: %s with %s" % (desc, kinds), robj, True)
        elif cls == "terr":
            # a translator error must be caused by an unmapped key of the descriptor
            if "unmapped" not in cause:
                bad += 1
                rep.violation("mp:fail-without-cause", "TranslatorErr although every key is mapped: %s with %s" % (desc, kinds), robj, True)
        elif cls == "outer":
            # an outer error must be caused by a mapped key the context forbids: a key kind (uncompressed / x-only), or - tr only on
            # this tree, through Tr::new's per-leaf top-level checks - multipath keys of different lengths inside one script
            if "illegal" in cause:
                pass
            elif mism == "same-script" and "MultipathDescLenMismatch" in res:
                obs["outer_error_multipath_mismatch_in_one_script"] = obs.get("outer_error_multipath_mismatch_in_one_script", 0) + 1
                obs.setdefault("outer_error_multipath_example", "%s with %s -> %s" % (desc, kinds, res))
            else:
                bad += 1
                rep.violation("mp:fail-without-cause", "OuterError %s without an illegal mapped key: %s with %s" % (res, desc, kinds), robj, True)
        else:
            # accepted: the printed result must be an object the descriptor parser accepts, equal to the result
            dup = len(set(kl)) < len(kl)
            if reparse == "ok":
                hist["ok_reparse_equal"] = hist.get("ok_reparse_equal", 0) + 1
                if mism == "across-tr":
                    obs["accepted_and_parseable_with_lengths_differing_across_tr_leaves_or_internal_key"] = \
                        obs.get("accepted_and_parseable_with_lengths_differing_across_tr_leaves_or_internal_key", 0) + 1
                if "illegal" in cause or "unmapped" in cause:
                    bad += 1
                    rep.violation("mp:ok-despite-cause", "accepted although %s: %s with %s" % (cause, desc, kinds), robj, True)
            elif mism == "same-script" and "MultipathDescLenMismatch" in reparse:
                obs["accepted_but_own_parser_rejects_multipath_mismatch"] = obs.get("accepted_but_own_parser_rejects_multipath_mismatch", 0) + 1
                obs.setdefault("accepted_unparseable_example", "%s with %s -> %s, reparse %s" % (desc, kinds, res, reparse))
            elif dup and "DuplicateKeys" in reparse:
                obs["accepted_non_injective_assignment_parser_rejects_duplicate_keys"] = \
                    obs.get("accepted_non_injective_assignment_parser_rejects_duplicate_keys", 0) + 1
            else:
                bad += 1
                rep.violation("mp:accepted-not-parseable", "translated descriptor is not accepted by Descriptor::from_str (%s): %s with %s"
                              % (reparse, desc, kinds), robj, True)
        if len(samples) < 5 and n % 397 == 1:
            samples.append(line[:220])
    if n < 1000 or hist.get("ok_reparse_equal", 0) < 100 or hist.get("terr", 0) < 100 or hist.get("outer", 0) < 100:
        bad += 1
        rep.violation("mp:vacuous", "multipath stage too small: %d cases %s" % (n, hist), {"property": PID, "broken_tie": "translate-mp"}, found_input=False)
    # ---- tie: the observed result classes against translate_desc_mp (Ms/TranslateMpModel.v), inside Coq
    mpc = re.findall(r"^MPC (\d+) ([\d,]+) (\d+)$", p.stdout, flags=re.M)
    tie_ok, diffs = True, ""
    if len(mpc) != n:
        tie_ok = False
        rep.violation("tie:translate-mp", "engine printed %d MPC lines for %d cases" % (len(mpc), n),
                      {"property": PID, "broken_tie": "translate-mp output"}, found_input=False)
    else:
        rows = ["(%s, [%s], %s)" % (i, ks.replace(",", "; "), c) for i, ks, c in mpc]
        chunks = [rows[i:i + 1500] for i in range(0, len(rows), 1500)]
        gen = ["From Coq Require Import List NArith.", "Import ListNotations.", "Local Open Scope N_scope."]
        for ci, ch in enumerate(chunks):
            gen.append("Definition mp_cases_%d : list (N * list N * N) := [\n  %s ]." % (ci, ";\n  ".join(ch)))
        gen.append("Definition mp_cases : list (N * list N * N) := %s." % " ++ ".join("mp_cases_%d" % ci for ci in range(len(chunks))))
        open(os.path.join(vlib.COQ, "Tables", "TranslateMpCasesGen.v"), "w").write("\n".join(gen) + "\n")
        for fcoq in ("Tables/TranslateMpCasesDefs.v", "Tables/TranslateMpCasesGen.v"):
            c0 = vlib.coqc(fcoq)
            if c0.returncode != 0:
                raise RuntimeError("%s does not compile: %s" % (fcoq, (c0.stderr or c0.stdout)[-1500:]))
        c1 = vlib.coqc("Tables/TranslateMpCasesCheck.v")
        if c1.returncode != 0:
            tie_ok = False
            c2 = vlib.coqc("Tables/TranslateMpCasesDiag.v")
            diffs = (c2.stdout or c2.stderr)[-3000:]
            rep.violation("tie:translate-mp", "Descriptor::translate_pk with multipath / illegal / unmapped target keys differs from the model "
                          "translate_desc_mp (descriptor index, kinds, observed class, model class): " + re.sub(r"\s+", " ", diffs)[:1200],
                          {"property": PID, "broken_tie": "mp_cases_match_model (Tables/TranslateMpCasesCheck.v)", "differences": diffs,
                           "stage": "multipath"}, found_input=(bad > 0))
    if not tie_ok:
        bad += 1
    cov = {"multipath_cases_compared_in_coq": len(mpc) if tie_ok else 0,
           "theorems_closers": thms,
           "print_assumptions_closers": [("closed" if b["closed"] else ",".join(b["axioms"])) for b in blocks],
           "multipath_stage": {"cases": n, "results": dict(sorted(hist.items())), "observations_not_violations": obs, "samples": samples}}
    return cov, len(thms) + 1, (len(thms) if not problems else 0) + (1 if bad == 0 else 0), n


def run(rep, tier, seed, replay):
    hbin = vlib.build_harness()
    ok, thms = vlib.proof_gates(rep, PID)
    if replay:
        seed = int(json.load(open(replay)).get("seed", seed))
    p = vlib.sh([hbin, "translate", str(seed)], env={"VERIF_TIER": tier}, timeout=1800)
    if p.returncode != 0:
        raise RuntimeError("translate engine failed: " + p.stderr[-2000:])
    o = parse_output(p.stdout)
    if replay:
        # keep only the recorded value (all mappings are re-run on it)
        r = json.load(open(replay))
        dom, val = r.get("domain"), r.get("value")
        vids = [v for v, d in o["V"].get(dom, {}).items() if d == val]
        if vids:
            o["T"] = [t for t in o["T"] if t["dom"] == dom and t["vid"] in vids]
            o["TH"] = [t for t in o["TH"] if t["dom"] == dom and t["vid"] in vids]
            o["I"] = {dom: {v: o["I"][dom][v] for v in vids if v in o["I"].get(dom, {})}}
            o["D"] = {dom: {v: o["D"][dom][v] for v in vids if v in o["D"].get(dom, {})}} if dom in o["D"] else {}
            o["C"] = {dom: {v: o["C"][dom][v] for v in vids if v in o["C"].get(dom, {})}} if dom in o["C"] else {}
    st = oracle(rep, o, seed)
    oracle_hash(rep, o, seed, st)
    tie_ok, ndiff = coq_tie(rep, o, seed)
    if replay and (len(o["I"]) < 2 or not tie_ok):
        # replays keep one domain's observations; the policy / hash tables need the whole run
        htie_ok, hdiff = tie_ok, 0
    else:
        htie_ok, hdiff = coq_tie_hash(rep, o, seed)
    samples = []
    for t in o["T"][5:4000:331][:8]:
        name, fp, fa = o["M"][t["mapid"]]
        samples.append({"domain": t["dom"], "value": o["V"][t["dom"]][t["vid"]][:300], "mapping": name, "fp": fp, "fail_at": fa,
                        "result": t["res"][:300], "calls": t["calls"]})
    rep.coverage.update({
        "obligations": len(thms) + 5,
        "discharged": (len(thms) if ok else 0) + (2 if tie_ok else 0) + (3 if htie_ok else 0),
        "checker_cmd": "make -C coq ; coqc Properties/C20.v ; verif-harness translate <seed> | tools/props/c20.py -> "
                       "coqc Tables/TranslateCasesGen.v Tables/TranslateCasesCheck.v",
        "trusted_base": vlib.TRUSTED_BASE_COMMON + [
            "the canonical dumps of harness/src/translate.rs (independent traversal) and the token-level substitution of c20.py",
            "rust-bitcoin script parsing/building and hash160 for the byte-level script substitution"],
        "evaluations": st["cases"] + st["iter"] + st["derive"] + st.get("compose", 0) + st["hash_cases"],
        "hash_translation_cases": st["hash_cases"],
        "hash_translation_results": {"ok": st["hash_ok"], "translator_err": st["hash_translator_err"], "outer_err": st["hash_outer_err"]},
        "hash_mode_histogram": dict(sorted(st["by_hash_mode"].items())),
        "hash_cases_compared_in_coq": len(o["TH"]),
        "policy_cases_compared_in_coq": len([t for t in o["TH"] if t["dom"] in POL_DOMS]),
        "policy_iteration_cases_compared_in_coq": sum(len(o["I"].get(d, {})) for d in POL_DOMS),
        "differing_hash_cases": hdiff,
        "composition_cases": st.get("compose", 0),
        "distinct_nontrivial": sum(len(v) for v in o["V"].values()),
        "translation_cases": st["cases"], "iteration_cases": st["iter"], "derive_cases": st["derive"],
        "cases_compared_in_coq": len([t for t in o["T"] if t["dom"] in MS_DOMS + DESC_DOMS]),
        "text_forms_not_reparsed": o["X"],
        "differing_cases": ndiff,
        "values_per_domain": {d: len(v) for d, v in o["V"].items()},
        "mapping_histogram": dict(sorted(st["by_mapping"].items())),
        "result_histogram": dict(sorted(st["by_result"].items())),
        "violation_classes_seen": st["by_key"],
        "rule": "generated miniscripts (type-directed, 4 contexts) + a corpus with pairwise distinct children under every n-ary / binary / "
                "ternary node, descriptors of every type (tr with trees of several shapes), concrete policies and their lifted semantic "
                "policies; mappings: identity, injective renaming, merge (non-injective), partial (one key unmapped), failing on the "
                "0-th / middle / last call, one key mapped to an uncompressed / x-only / compressed key of the wrong kind for the "
                "context, string -> concrete keys through the text form, definite -> derived keys",
        "samples": samples,
    })
    rep.assumptions = [
        "hash translators: identity, first-byte flip (injective), constant (non-injective), failing on one chosen hash, failing on one "
        "hash kind; the translators are pure functions of (call index, key / hash) as far as the model is concerned",
        "ext.pk_cost equals the length of the encoded script (C09's subject): the model's script-size re-check uses the encoder's length; "
        "a size failure is accepted by the oracle iff the byte-level substituted script exceeds the context's limit; the recursion-depth limit is not reached",
        "the byte-level script check is skipped for values containing sortedmulti (the key order may legitimately change)"]
    ccov, cob, cdis, cn = closers_stage(rep, hbin, tier, seed)
    rep.coverage["obligations"] += cob
    rep.coverage["discharged"] += cdis
    rep.coverage["evaluations"] += cn
    rep.coverage.update(ccov)
