"""C19 — equality, ordering and hashing are structural and mutually consistent (DESIGN 5/C19).

Proof:  coq/Properties/C19.v (model coq/Ms/EqOrdModel.v; proofs Proofs/EqOrd{,Cmp}Proofs.v).
Tie:    the `eqord` harness engine evaluates ==, cmp (catch_unwind), Hash (SipHash with fixed keys and a
        recording Hasher), clone and BTreeSet/HashSet cardinalities on generated values of all four
        contexts and their directed neighbours; the same pairs are evaluated by the model INSIDE Coq
        (Tables/EqOrdCasesGen.v generated, Tables/EqOrdCasesCheck.v by vm_compute).
Oracle: independent structural equality (two values are structurally identical iff their canonical
        dumps are equal) and the order laws judge the implementation's own answers for miniscripts,
        descriptors (incl. tr with trees) and both policy types.
"""
import ast as pyast
import json
import os
import re
import vlib

LEVEL = "proof"
PID = "C19"
MS_DOMS = ["bare", "legacy", "segv0", "tap"]

UNARY = {"a": "MAlt", "s": "MSwap", "c": "MCheck", "d": "MDupIf", "v": "MVerify", "j": "MNonZero", "n": "MZeroNotEqual"}
BINARY = {"and_v": "MAndV", "and_b": "MAndB", "or_b": "MOrB", "or_d": "MOrD", "or_c": "MOrC", "or_i": "MOrI"}
HASHES = {"sha256": "MSha256", "hash256": "MHash256", "ripemd160": "MRipemd160", "hash160": "MHash160"}
MULTIS = {"multi": "MMulti", "sortedmulti": "MSortedMulti", "multi_a": "MMultiA", "sortedmulti_a": "MSortedMultiA"}


class DumpError(Exception):
    pass


def base(dom):
    """`segv0:dpk` -> `segv0`: a domain of a second key type is named <base>:<key type>."""
    return dom.split(":")[0]


def ident(dom):
    return dom.replace(":", "_")


def sfx_of(dom):
    return dom[len(base(dom)):]


def doms_of(o, bases):
    """the domains of this run whose base is one of `bases`, base order first, then key type (DefiniteDescriptorKey, dpk, str)"""
    order = {"": 0, ":dpk": 1, ":str": 2}
    ds = [d for d in o["V"] if base(d) in bases]
    return sorted(ds, key=lambda d: (order.get(sfx_of(d), 9), bases.index(base(d))))


def parse_ms(tok, pos, roles, hbname):
    """Parse one miniscript from the prefix dump. Returns (coq term, new pos); appends (role, token) to roles."""
    if pos >= len(tok):
        raise DumpError("truncated dump")
    t = tok[pos]
    roles.append(("tag", t))
    pos += 1
    if t == "1":
        return "MTrue", pos
    if t == "0":
        return "MFalse", pos
    if t in ("pk_k", "pk_h"):
        roles.append(("key", tok[pos]))
        return "(%s %s)" % ("MPkK" if t == "pk_k" else "MPkH", tok[pos]), pos + 1
    if t == "raw_pk_h":
        roles.append(("bytes", tok[pos]))
        return "(MRawPkH %s)" % hbname(tok[pos]), pos + 1
    if t in ("after", "older"):
        roles.append(("time", tok[pos]))
        return "(%s %s)" % ("MAfter" if t == "after" else "MOlder", tok[pos]), pos + 1
    if t in HASHES:
        roles.append(("bytes", tok[pos]))
        return "(%s %s)" % (HASHES[t], hbname(tok[pos])), pos + 1
    if t in UNARY:
        x, pos = parse_ms(tok, pos, roles, hbname)
        return "(%s %s)" % (UNARY[t], x), pos
    if t in BINARY:
        x, pos = parse_ms(tok, pos, roles, hbname)
        y, pos = parse_ms(tok, pos, roles, hbname)
        return "(%s %s %s)" % (BINARY[t], x, y), pos
    if t == "andor":
        a, pos = parse_ms(tok, pos, roles, hbname)
        b, pos = parse_ms(tok, pos, roles, hbname)
        c, pos = parse_ms(tok, pos, roles, hbname)
        return "(MAndOr %s %s %s)" % (a, b, c), pos
    if t == "thresh":
        k, n = tok[pos], int(tok[pos + 1])
        roles.append(("thresh-k", k))
        roles.append(("thresh-n", str(n)))
        pos += 2
        xs = []
        for _ in range(n):
            x, pos = parse_ms(tok, pos, roles, hbname)
            xs.append(x)
        return "(MThresh %s [%s])" % (k, "; ".join(xs)), pos
    if t in MULTIS:
        k, n = tok[pos], int(tok[pos + 1])
        roles.append(("multi-k", k))
        roles.append(("multi-n", str(n)))
        pos += 2
        ks = tok[pos:pos + n]
        for x in ks:
            roles.append(("multi-key", x))
        return "(%s %s [%s])" % (MULTIS[t], k, "; ".join(ks)), pos + n
    raise DumpError("unknown token %r" % t)


def roles_of(dom, dump, hbname=lambda h: h):
    """(role, token) sequence of any dump (miniscript, descriptor or policy domain)."""
    tok = dump.split()
    roles = []
    try:
        if base(dom) in MS_DOMS:
            _, pos = parse_ms(tok, 0, roles, hbname)
        elif base(dom) == "desc":
            roles.append(("desc-kind", tok[0]))
            if tok[0] in ("pkh", "wpkh", "sh-wpkh"):
                roles.append(("key", tok[1]))
            elif tok[0] == "tr":
                roles.append(("key", tok[1]))
                roles.append(("tr-leaves", tok[2]))
                pos = 3
                for _ in range(int(tok[2])):
                    roles.append(("tr-depth", tok[pos + 1]))
                    _, pos = parse_ms(tok, pos + 2, roles, hbname)
            else:
                parse_ms(tok, 1, roles, hbname)
        else:
            roles = [("policy", t) for t in tok]
    except (DumpError, IndexError, ValueError):
        roles = [("unparsed", t) for t in tok]
    return roles


def first_diff_role(dom, da, db):
    ra, rb = roles_of(dom, da), roles_of(dom, db)
    for x, y in zip(ra, rb):
        if x != y:
            return x[0] if x[0] == y[0] else "tag"
    return "length" if len(ra) != len(rb) else None


THRESH_ROLES = ("thresh-k", "thresh-n")
NARY_N_ROLES = ("thresh-n", "multi-n")


def parse_output(text):
    out = {"K": {}, "HB": {}, "V": {}, "M": {}, "H": {}, "C": {}, "P": {}, "S": {}, "W": {}, "WV": {}, "HW": {}, "HC": {}}
    for line in text.splitlines():
        f = line.split(" ")
        k = f[0]
        if k == "K":
            out["K"][f[1]] = [int(x) for x in f[2:]]
        elif k == "HB":
            out["HB"][f[2]] = f[1]
        elif k == "V":
            out["V"].setdefault(f[1], {})[int(f[2])] = (f[3] == "1", " ".join(f[4:]))
        elif k == "M":
            out["M"].setdefault(f[1], {})[int(f[2])] = f[3]
        elif k in ("H", "HW", "HC"):
            out[k].setdefault(f[1], {})[int(f[2])] = f[3:]
        elif k == "C":
            out["C"].setdefault(f[1], {})[int(f[2])] = tuple(f[3:6])
        elif k == "P":
            out["P"].setdefault(f[1], {})[(int(f[2]), int(f[3]))] = (f[4], f[5], f[6], f[7])
        elif k == "W":
            out["W"].setdefault(f[1], []).append((int(f[2]), int(f[3]), f[4], f[5], f[6], f[7]))
        elif k == "WV":
            out["WV"].setdefault(f[1], {})[int(f[2])] = tuple(f[3:10])
        elif k == "S":
            out["S"].setdefault(f[1], []).append((int(f[2]), int(f[3]), int(f[4]), f[5], f[6], [int(x) for x in f[7].split(",")]))
    return out


OPP = {"L": "G", "G": "L", "E": "E"}


def oracle(rep, o, seed):
    """Judge the implementation's own answers with the structural-equality oracle and the order laws."""
    stats = {"pairs": 0, "eq_true": 0, "cmp_equal": 0, "panics": 0, "triples": 0, "sets": 0, "clones": 0, "by_key": {}}
    flagged = set()

    def viol(key, what, dom, ids, extra=None, found=True):
        stats["by_key"][key] = stats["by_key"].get(key, 0) + 1
        r = {"property": PID, "seed": seed, "domain": dom, "key": key, "what": what,
             "values": {str(i): o["V"][dom][i][1] for i in ids}}
        if extra:
            r.update(extra)
        for i in ids:
            for j in ids:
                flagged.add((dom, i, j))
        rep.violation(key, "%s [%s] %s" % (what, dom, " | ".join(o["V"][dom][i][1] for i in ids))[:1500], r, found)

    for dom, pairs in sorted(o["P"].items()):
        vals = o["V"][dom]
        role_cache = {}

        def role(i, j):
            if (i, j) not in role_cache:
                role_cache[(i, j)] = first_diff_role(dom, vals[i][1], vals[j][1])
            return role_cache[(i, j)]

        for (i, j), (eq, cmp_, hs, rs) in sorted(pairs.items()):
            stats["pairs"] += 1
            same = (i == j)
            obs = {"observed": {"eq": eq, "cmp": cmp_, "siphash_equal": hs, "hash_stream_equal": rs}, "pair": [i, j]}
            if eq == "1":
                stats["eq_true"] += 1
            if cmp_ == "E":
                stats["cmp_equal"] += 1
            if eq == "P":
                viol("eq-panic", "`==` panics", dom, [i, j], obs)
            elif (eq == "1") != same:
                if eq == "1":
                    r = role(i, j)
                    key = "eq-thresh-k-n-ignored" if r in THRESH_ROLES else "eq-coarse:%s" % r
                    viol(key, "`a == b` although the values differ structurally (first difference: %s)" % r, dom, [i, j], obs)
                else:
                    viol("eq-too-fine", "`a != b` although the values are structurally identical", dom, [i, j], obs)
            if cmp_ == "P":
                stats["panics"] += 1
                r = role(i, j)
                key = "cmp-unreachable-panic" if r in NARY_N_ROLES else "cmp-panic:%s" % r
                viol(key, "`a.cmp(b)` panics (first difference: %s)" % r, dom, [i, j], obs)
            elif (cmp_ == "E") != same:
                if cmp_ == "E":
                    r = role(i, j)
                    key = "cmp-nary-arity-ignored" if r in NARY_N_ROLES else "cmp-equal-on-different:%s" % r
                    viol(key, "`a.cmp(b) == Equal` although the values differ structurally (first difference: %s)" % r, dom, [i, j], obs)
                else:
                    viol("cmp-nonequal-on-identical", "`a.cmp(b) != Equal` for structurally identical values", dom, [i, j], obs)
            # equal values hash equally (Hash/Eq contract and plain determinism)
            if same and (hs != "1" or rs != "1"):
                viol("hash-inconsistent", "structurally identical values hash differently", dom, [i, j], obs)
            if eq == "1" and not same and hs != "1":
                r = role(i, j)
                if r not in THRESH_ROLES:
                    viol("hash-eq-contract:%s" % r, "`a == b` but the hashes differ", dom, [i, j], obs)
            if hs != rs:
                viol("tie:hash-recorder", "SipHash equality and recorded-stream equality disagree", dom, [i, j], obs, found=False)
            # symmetry / antisymmetry
            if (j, i) in pairs and i < j:
                eq2, cmp2 = pairs[(j, i)][0], pairs[(j, i)][1]
                if eq != eq2:
                    viol("eq-asymmetric", "`a == b` and `b == a` differ", dom, [i, j], obs)
                if cmp_ != "P" and cmp2 != "P" and OPP[cmp_] != cmp2:
                    viol("cmp-antisymmetry", "`a.cmp(b)` is not the reverse of `b.cmp(a)`", dom, [i, j], obs)
                if (cmp_ == "P") != (cmp2 == "P"):
                    viol("cmp-panic-asymmetric", "only one of a.cmp(b), b.cmp(a) panics", dom, [i, j], obs)
        # triples: every (a,b,c) all of whose ordered pairs were observed
        ids = sorted({i for (i, _) in pairs})
        adj = {}
        for (i, j) in pairs:
            adj.setdefault(i, set()).add(j)
        for a in ids:
            na = adj.get(a, ())
            for b in na:
                if b == a:
                    continue
                for c in adj.get(b, ()):
                    if c == a or c == b or c not in na:
                        continue
                    stats["triples"] += 1
                    ab, bc, ac = pairs[(a, b)], pairs[(b, c)], pairs[(a, c)]
                    rs_ = {role(a, b), role(b, c), role(a, c)}
                    if ab[0] == "1" and bc[0] == "1" and ac[0] == "0":
                        key = "eq-thresh-k-n-ignored" if rs_ & set(THRESH_ROLES) else "eq-intransitive"
                        viol(key, "`==` is not transitive: a == b, b == c, a != c", dom, [a, b, c])
                    if "P" in (ab[1], bc[1], ac[1]):
                        continue
                    if ab[1] in "LE" and bc[1] in "LE":
                        want = "E" if (ab[1] == "E" and bc[1] == "E") else "L"
                        if ac[1] != want:
                            key = "cmp-nary-arity-ignored" if rs_ & set(NARY_N_ROLES) else "cmp-intransitive"
                            viol(key, "`cmp` is not transitive: cmp(a,b)=%s, cmp(b,c)=%s, cmp(a,c)=%s" % (ab[1], bc[1], ac[1]), dom, [a, b, c])
        # clone
        for i, (ceq, cdump, chash) in sorted(o["C"].get(dom, {}).items()):
            stats["clones"] += 1
            if ceq != "1" or cdump != "1" or chash != "1":
                viol("clone-unequal", "clone() is not equal to the original (==:%s dump:%s hash:%s)" % (ceq, cdump, chash), dom, [i])
        # sets
        for (g, n, distinct, bt, hs_, gids) in o["S"].get(dom, []):
            stats["sets"] += 1
            if bt != str(distinct) or hs_ != str(distinct):
                rs_ = set()
                for x in gids:
                    for y in gids:
                        if x < y:
                            rs_.add(role(x, y))
                ex = {"group": gids, "distinct_values": distinct, "btreeset_len": bt, "hashset_len": hs_}
                if bt == "P":
                    key = "cmp-unreachable-panic" if rs_ & set(NARY_N_ROLES) else "btreeset-panic"
                    viol(key, "inserting %d distinct values into a BTreeSet panics" % distinct, dom, gids[:6], ex)
                elif bt != str(distinct):
                    key = "cmp-nary-arity-ignored" if rs_ & set(NARY_N_ROLES) else "btreeset-cardinality"
                    viol(key, "BTreeSet of %d distinct values has %s elements" % (distinct, bt), dom, gids[:6], ex)
                if hs_ != str(distinct):
                    key = "eq-thresh-k-n-ignored" if rs_ & set(THRESH_ROLES) else "hashset-cardinality"
                    viol(key, "HashSet of %d distinct values has %s elements" % (distinct, hs_), dom, gids[:6], ex)
    return stats, flagged


HISTORY = {"LW": "left operand had its spend-info cache filled (script_pubkey()/spend_info()) before the comparison, right operand fresh",
           "RW": "right operand had its spend-info cache filled before the comparison, left operand fresh",
           "BW": "both operands had their spend-info caches filled before the comparison",
           "CB": "both operands are clones of values whose spend-info cache had been filled",
           "CF": "left operand is a clone of a value whose spend-info cache had been filled, right operand fresh"}
WARM = {"LW": (True, False), "RW": (False, True), "BW": (True, True), "CB": (True, True), "CF": (True, False)}


def history_oracle(rep, o, seed, stats):
    """==, cmp, Hash of descriptors must not depend on the cache history and must agree with the structural oracle."""
    n = 0
    for dom, rows in sorted(o["W"].items()):
        vals, pairs = o["V"][dom], o["P"].get(dom, {})
        for (i, j, state, eq, cmp_, hs) in rows:
            n += 1
            same = (i == j)
            base = pairs.get((i, j))
            obs = {"history": {"state": state, "meaning": HISTORY[state],
                               "how": "each operand is a separate instance re-parsed from the string form; warmed = script_pubkey() (and spend_info() for tr) called on it first"},
                   "observed": {"eq": eq, "cmp": cmp_, "siphash_equal": hs},
                   "observed_without_history": None if base is None else {"eq": base[0], "cmp": base[1], "siphash_equal": base[2]},
                   "values": {str(i): vals[i][1], str(j): vals[j][1]}, "property": PID, "seed": seed, "domain": dom}
            bad = []
            if eq == "P" or cmp_ == "P":
                bad.append(("history-panic", "`==`/`cmp` panics"))
            if eq in "01" and (eq == "1") != same:
                bad.append(("history-eq", "`a == b` is %s although the values are structurally %s" % (eq == "1", "identical" if same else "different")))
            if cmp_ in "LEG" and (cmp_ == "E") != same:
                bad.append(("history-cmp", "`a.cmp(b)` is %s although the values are structurally %s" % (cmp_, "identical" if same else "different")))
            if same and hs != "1":
                bad.append(("history-hash", "structurally identical values hash differently"))
            if eq == "1" and hs != "1":
                bad.append(("history-hash-eq-contract", "`a == b` but the hashes differ"))
            if base is not None and (eq, cmp_, hs) != (base[0], base[1], base[2]):
                bad.append(("history-dependence", "the answers differ from those on fresh values (==,cmp,hash-equal) = %s vs %s" % ((eq, cmp_, hs), base[:3])))
            for key, what in bad[:1]:
                stats["by_key"][key] = stats["by_key"].get(key, 0) + 1
                rep.violation(key, "%s under the history: %s [%s] %s | %s" % (what, HISTORY[state], dom, vals[i][1], vals[j][1]), obs, True)
        for i, f in sorted(o["WV"].get(dom, {}).items()):
            n += 1
            if f != ("1", "E", "1", "1", "1", "1", "1"):
                stats["by_key"]["history-self"] = stats["by_key"].get("history-self", 0) + 1
                rep.violation("history-self", "a warmed value / a clone of it is not equal (==, cmp, hash, dump) to a fresh parse of the same string: %s [%s] %s" %
                              (f, dom, vals[i][1]),
                              {"property": PID, "seed": seed, "domain": dom, "values": {str(i): vals[i][1]},
                               "history": "warm==fresh, cmp(warm,fresh), hash same, clone(warm)==fresh, clone(warm)==warm, dump(clone(warm)) same, hash(clone(warm)) same",
                               "observed": list(f)}, True)
    stats["history_cases"] = n


def pol_term(tok, pos, hbname):
    """Gallina term (type cpol of EqOrdPolModel.v) of a policy dump (concrete or semantic)."""
    t = tok[pos]
    pos += 1
    if t == "unsat":
        return "QUnsat", pos
    if t == "triv":
        return "QTriv", pos
    if t in ("key", "after", "older"):
        return "(%s %s)" % ({"key": "QKey", "after": "QAfter", "older": "QOlder"}[t], tok[pos]), pos + 1
    if t in ("sha256", "hash256", "ripemd160", "hash160"):
        return "(%s %s)" % ({"sha256": "QSha256", "hash256": "QHash256", "ripemd160": "QRipemd160", "hash160": "QHash160"}[t], hbname(tok[pos])), pos + 1
    if t == "and":
        n = int(tok[pos]); pos += 1
        xs = []
        for _ in range(n):
            x, pos = pol_term(tok, pos, hbname)
            xs.append(x)
        return "(QAnd [%s])" % "; ".join(xs), pos
    if t == "or":
        n = int(tok[pos]); pos += 1
        xs = []
        for _ in range(n):
            odds = tok[pos]
            if not odds.endswith("@"):
                raise DumpError("odds expected in %r" % tok)
            x, pos = pol_term(tok, pos + 1, hbname)
            xs.append("(%s, %s)" % (odds[:-1], x))
        return "(QOr [%s])" % "; ".join(xs), pos
    if t == "thresh":
        k, n = tok[pos], int(tok[pos + 1]); pos += 2
        xs = []
        for _ in range(n):
            x, pos = pol_term(tok, pos, hbname)
            xs.append(x)
        return "(QThresh %s [%s])" % (k, "; ".join(xs)), pos
    raise DumpError("unknown policy token %r" % t)


def desc_term(dump, hbname):
    """Gallina term (type `desc` of TranslateModel.v) of a descriptor dump."""
    tok = dump.split()
    k = tok[0]
    if k in ("pkh", "wpkh", "sh-wpkh"):
        return "(%s %s)" % ({"pkh": "DPkh", "wpkh": "DWpkh", "sh-wpkh": "DShWpkh"}[k], tok[1])
    if k == "tr":
        n, pos, leaves = int(tok[2]), 3, []
        for _ in range(n):
            depth = tok[pos + 1]
            t, pos = parse_ms(tok, pos + 2, [], hbname)
            leaves.append("(%s, %s)" % (depth, t))
        return "(DTr %s [%s])" % (tok[1], "; ".join(leaves))
    t, pos = parse_ms(tok, 1, [], hbname)
    if pos != len(tok):
        raise DumpError("trailing tokens in %r" % dump)
    return "(%s %s)" % ({"bare": "DBare", "wsh": "DWsh", "sh-wsh": "DShWsh", "sh": "DSh"}[k], t)


EQC = {"0": 0, "1": 1, "P": 2}
CMPC = {"L": 0, "E": 1, "G": 2, "P": 3}


def chunks(l, n):
    return [l[i:i + n] for i in range(0, len(l), n)] or [[]]


def raw_words(tokens, hbname):
    """Gallina list of rawword for a recorded sequence of Hasher calls."""
    ws = []
    for tk in tokens:
        k, v = tk[0], tk[1:]
        if k == "i":
            ws.append("RI %s" % v)
        elif k == "u":
            ws.append("RU %s" % v)
        elif k == "w":
            ws.append("RW %s" % v)
        elif k == "k":
            ws.append("RK %s" % v)
        elif k == "c":
            ws.append("RC %s" % v)
        elif k == "b":
            try:
                ws.append("RB %s" % hbname(v))
            except DumpError:
                ws.append("RB [%s]" % "; ".join(str(int(v[i:i + 2], 16)) for i in range(0, len(v), 2)))
        else:
            ws.append("RU 4294967295")   # a call the model has no word for: forces a mismatch
    return "[%s]" % "; ".join(ws)


def gen_coq(o):
    """Tables/EqOrdCasesGen.v: this run's values, pair observations and hash streams, per key type."""
    hb = o["HB"]                      # hex -> name
    used = {}

    def hbname(h):
        if h not in hb:
            raise DumpError("byte string %s not announced by the harness" % h)
        used[h] = "hb_" + hb[h]
        return used[h]

    body = []

    def chunked(name, ty, rows, size, sep="; "):
        cn = []
        for c, ch in enumerate(chunks(rows, size)):
            body.append("Definition %s_%d : list %s := [%s]." % (name, c, ty, sep.join(ch)))
            cn.append("%s_%d" % (name, c))
        body.append("Definition %s : list %s := %s." % (name, ty, " ++ ".join(cn)))

    names = []
    for dom in doms_of(o, MS_DOMS):
        idn = ident(dom)
        vals = o["V"].get(dom, {})
        n = len(vals)
        terms = []
        for i in range(n):
            roles = []
            t, pos = parse_ms(vals[i][1].split(), 0, roles, hbname)
            if pos != len(vals[i][1].split()):
                raise DumpError("trailing tokens in dump %r" % vals[i][1])
            terms.append(t)
        body.append("Definition ranks_%s : list N := [%s]." % (idn, "; ".join(str(x) for x in o["K"][dom])))
        chunked("vals_%s" % idn, "ms", terms, 300, ";\n  ")
        chunked("pairs_%s" % idn, "pcase", ["(%d, %d, (%d, %d, %s))" % (i, j, EQC[e], CMPC[c], r)
                                            for (i, j), (e, c, h, r) in sorted(o["P"].get(dom, {}).items())], 1500)
        hs = o["H"].get(dom, {})      # no recorded streams for String keys (the hash types feed themselves as strings)
        chunked("streams_%s" % idn, "(N * list rawword)", ["(%d, %s)" % (i, raw_words(hs[i], hbname)) for i in sorted(hs)], 200, ";\n  ")
        body.append("Definition dom_%s : dom := mkDom ranks_%s vals_%s pairs_%s streams_%s." % (idn, idn, idn, idn, idn))
        names.append("dom_%s" % idn)
    # descriptors: ==, cmp against desc_eq / desc_cmp (full keys ranked as in segv0, x-only keys as in tap)
    dnames, pnames, hnames = [], [], []
    for dom in doms_of(o, ["desc"]):
        x = ident(sfx_of(dom))
        dv = o["V"].get(dom, {})
        chunked("dvals%s" % x, "desc", [desc_term(dv[i][1], hbname) for i in range(len(dv))], 200, ";\n  ")
        chunked("dpairs%s" % x, "dpcase", ["(%d, %d, (%d, %d))" % (i, j, EQC[e], CMPC[c])
                                           for (i, j), (e, c, h, r) in sorted(o["P"].get(dom, {}).items())], 1500)
        chunked("dwpairs%s" % x, "dwcase", ["(%d, %d, %s, %s, (%d, %d))" % (i, j, "true" if WARM[st][0] else "false",
                                                                              "true" if WARM[st][1] else "false", EQC[e], CMPC[c])
                                            for (i, j, st, e, c, h) in o["W"].get(dom, [])], 1500)
        body.append("Definition ddom_eq%s : deqdom := mkDEqDom ranks_segv0%s ranks_tap%s dvals%s dpairs%s dwpairs%s." % (x, x, x, x, x, x))
        dnames.append("ddom_eq%s" % x)
    body.append("Definition ddoms : list deqdom := [%s]." % "; ".join(dnames))
    # policies: ==, cmp against cpol_eqb / cpol_cmp (full keys)
    for dom in doms_of(o, ["conc", "sem"]):
        idn, x = ident(dom), ident(sfx_of(dom))
        pv = o["V"].get(dom, {})
        terms = []
        for i in range(len(pv)):
            tok = pv[i][1].split()
            t, pos = pol_term(tok, 0, hbname)
            if pos != len(tok):
                raise DumpError("trailing tokens in %r" % pv[i][1])
            terms.append(t)
        chunked("pvals_%s" % idn, "cpol", terms, 300, ";\n  ")
        chunked("ppairs_%s" % idn, "ppcase", ["(%d, %d, (%d, %d))" % (i, j, EQC[e], CMPC[c])
                                              for (i, j), (e, c, h, r) in sorted(o["P"].get(dom, {}).items())], 1500)
        body.append("Definition poldom_%s : poldom := mkPolDom %s ranks_segv0%s pvals_%s ppairs_%s." %
                    (idn, "true" if base(dom) == "sem" else "false", x, idn, idn))
        pnames.append("poldom_%s" % idn)
    body.append("Definition poldoms : list poldom := [%s]." % "; ".join(pnames))
    # Hash of descriptors and concrete policies: recorded Hasher calls against desc_feed / cpol_feed
    for dom in doms_of(o, ["desc"]):
        sx = sfx_of(dom)
        x = ident(sx)
        conc = "conc" + sx

        def streams(keys, d):
            return ["(%d, %s)" % (i, raw_words(t, hbname)) for k in keys for i, t in sorted(o[k].get(d, {}).items())]

        def hpairs(d):
            return ["(%d, %d, %s)" % (i, j, "true" if r == "1" else "false") for (i, j), (e, c, h, r) in sorted(o["P"].get(d, {}).items())]

        chunked("dstreams%s" % x, "(N * list rawword)", streams(["H"], dom), 200, ";\n  ")
        chunked("dwstreams%s" % x, "(N * list rawword)", streams(["HW", "HC"], dom), 200, ";\n  ")
        chunked("dhpairs%s" % x, "(N * N * bool)", hpairs(dom), 1500)
        chunked("pstreams%s" % x, "(N * list rawword)", streams(["H"], conc), 200, ";\n  ")
        chunked("phpairs%s" % x, "(N * N * bool)", hpairs(conc), 1500)
        body.append("Definition hdom%s : hashdom := mkHashDom dvals%s dstreams%s dwstreams%s dhpairs%s pvals_%s pstreams%s phpairs%s." %
                    (x, x, x, x, x, ident(conc), x, x))
        hnames.append("hdom%s" % x)
    body.append("Definition hashdoms : list hashdom := [%s]." % "; ".join(hnames))
    head = ["(* generated by tools/props/c19.py from the output of `verif-harness eqord`; do not edit *)",
            "From Verif Require Import EqOrdRun EqOrdDescRun EqOrdPolRun EqOrdHashModel.", "Local Open Scope N_scope."]
    for h, nm in sorted(used.items(), key=lambda x: x[1]):
        bs = [str(int(h[i:i + 2], 16)) for i in range(0, len(h), 2)]
        head.append("Definition %s : bytes := [%s]." % (nm, "; ".join(bs)))
    return "\n".join(head + body + ["Definition doms : list dom := [%s]." % "; ".join(names)]) + "\n"


def coq_value(text):
    """Parse the value printed by `Eval vm_compute` (lists / tuples of numbers and booleans)."""
    m = re.search(r"=\s*(.*?)\n\s*:\s", text, flags=re.S)
    if not m:
        return None
    s = m.group(1)
    s = re.sub(r"%N", "", s).replace(";", ",").replace("true", "True").replace("false", "False")
    s = re.sub(r"\s+", " ", s)
    return pyast.literal_eval(s)


def coq_tie(rep, o, flagged, seed):
    """Compare the observations with the model inside Coq. Returns (ok, n_diff)."""
    tdir = os.path.join(vlib.COQ, "Tables")
    try:
        src = gen_coq(o)
    except DumpError as e:
        rep.violation("tie:dump", "cannot convert a dump into a model term: %s" % e,
                      {"property": PID, "broken_tie": "dump -> Coq term conversion", "error": str(e)}, False)
        return False, 0
    open(os.path.join(tdir, "EqOrdCasesGen.v"), "w").write(src)
    c1 = vlib.coqc("Tables/EqOrdCasesGen.v")
    if c1.returncode != 0:
        raise RuntimeError("generated EqOrdCasesGen.v does not compile: " + (c1.stderr or c1.stdout)[-2000:])
    c2 = vlib.coqc("Tables/EqOrdCasesCheck.v")
    if c2.returncode == 0:
        return True, 0
    # on-break protocol: locate the differing cases; the oracle has already judged each pair
    c3 = vlib.coqc("Tables/EqOrdCasesDiag.v")
    val = coq_value(c3.stdout) if c3.returncode == 0 else None
    if val is None:
        rep.violation("tie:diag", "cases_match_model fails and the diagnosis did not run: " + (c3.stderr or c2.stderr)[-800:],
                      {"property": PID, "broken_tie": "Tables/EqOrdCasesCheck.v"}, False)
        return False, 0
    pair_diag, stream_diag, spec_diag, desc_diags, wdiags, pol_diag, hash_diags = val
    msd, dd, pd = doms_of(o, MS_DOMS), doms_of(o, ["desc"]), doms_of(o, ["conc", "sem"])
    n = 0
    for ddom, hash_diag in zip(dd, hash_diags):
        hd_s, hd_w, hd_p, hp_s, hp_p = hash_diag
        cdom = "conc" + sfx_of(ddom)
        for dom, what, ids, src in ((ddom, "a fresh descriptor", hd_s, "H"), (ddom, "a warmed descriptor / a clone of it", hd_w, "HW"),
                                    (cdom, "a concrete policy", hp_s, "H")):
            for i in ids:
                n += 1
                rep.violation("tie:hash-stream-%s" % base(dom), "the calls Hash::hash makes for %s [%s] %s differ from the model's feed: %s" %
                              (what, dom, o["V"][dom][i][1], " ".join(o[src][dom][i])[:600]),
                              {"property": PID, "seed": seed, "domain": dom, "broken_tie": "desc_policy_hash_streams_match_model",
                               "value": o["V"][dom][i][1], "recorded_stream": o[src][dom][i]}, False)
        for dom, prs in ((ddom, hd_p), (cdom, hp_p)):
            for (i, j) in prs:
                n += 1
                if (dom, i, j) in flagged:
                    continue
                rep.violation("tie:hash-pair-%s" % base(dom), "equality of the recorded Hasher streams of [%s] %s | %s disagrees with the model's feeds" %
                              (dom, o["V"][dom][i][1], o["V"][dom][j][1]),
                              {"property": PID, "seed": seed, "domain": dom, "broken_tie": "desc_policy_hash_streams_match_model",
                               "values": {str(i): o["V"][dom][i][1], str(j): o["V"][dom][j][1]}}, False)
    for dom, rows in zip(pd, pol_diag):
        for (i, j, impl, model) in rows:
            n += 1
            if (dom, i, j) in flagged:
                continue
            rep.violation("tie:policy", "implementation and model disagree on ==/cmp of the policies [%s] %s | %s: impl %s model %s" %
                          (dom, o["V"][dom][i][1], o["V"][dom][j][1], list(impl), list(model)),
                          {"property": PID, "seed": seed, "domain": dom, "broken_tie": "policy_cases_match_model",
                           "values": {str(i): o["V"][dom][i][1], str(j): o["V"][dom][j][1]},
                           "implementation": list(impl), "model": list(model)}, False)
    for dom, wdiag in zip(dd, wdiags):
        for (i, j, wl_, wr_) in wdiag:
            n += 1
            rep.violation("tie:desc-history", "implementation and model disagree on ==/cmp of the descriptors %s | %s with left warmed=%s right warmed=%s" %
                          (o["V"][dom][i][1], o["V"][dom][j][1], wl_, wr_),
                          {"property": PID, "seed": seed, "domain": dom, "broken_tie": "cases_match_model (descriptors under a cache history)",
                           "values": {str(i): o["V"][dom][i][1], str(j): o["V"][dom][j][1]}, "left_warmed": wl_, "right_warmed": wr_}, False)
    for dom, desc_diag in zip(dd, desc_diags):
        for (i, j, impl, coded) in desc_diag:
            n += 1
            if (dom, i, j) in flagged:
                continue
            rep.violation("tie:desc", "implementation and model disagree on ==/cmp of the descriptors [%s] %s | %s: impl %s model %s" %
                          (dom, o["V"][dom][i][1], o["V"][dom][j][1], list(impl), list(coded)),
                          {"property": PID, "seed": seed, "domain": dom, "broken_tie": "cases_match_model (descriptors)",
                           "values": {str(i): o["V"][dom][i][1], str(j): o["V"][dom][j][1]},
                           "implementation": list(impl), "model": list(coded)}, False)
    comp = ["==", "cmp", "hash"]
    cmpn = ["Less", "Equal", "Greater", "panic"]
    for dom, rows in zip(msd, pair_diag):
        for (i, j, impl, coded, same) in rows:
            n += 1
            which = [comp[k] for k in range(3) if impl[k] != coded[k]]
            key = "tie:" + "+".join(which)
            if (dom, i, j) in flagged:
                continue       # the property itself fails on this pair; reported with the pair as replay
            rep.violation(key, "implementation and model disagree on %s of [%s] %s | %s: impl (==,cmp,hash-equal)=(%d,%s,%d) model=(%d,%s,%d); "
                          "the oracle finds no property violation on this pair" %
                          ("/".join(which), dom, o["V"][dom][i][1], o["V"][dom][j][1], impl[0], cmpn[impl[1]], impl[2],
                           coded[0], cmpn[coded[1]], coded[2]),
                          {"property": PID, "seed": seed, "domain": dom, "broken_tie": "cases_match_model (Tables/EqOrdCasesCheck.v)",
                           "a": o["V"][dom][i][1], "b": o["V"][dom][j][1], "implementation": list(impl), "model": list(coded),
                           "structurally_equal": same}, False)
    for dom, ids in zip(msd, stream_diag):
        for i in ids:
            n += 1
            rep.violation("tie:hash-stream", "the calls Hash::hash makes for [%s] %s differ from the model's hash_raw: %s" %
                          (dom, o["V"][dom][i][1], " ".join(o["H"][dom][i])),
                          {"property": PID, "seed": seed, "domain": dom, "broken_tie": "hash_streams_match_model",
                           "value": o["V"][dom][i][1], "recorded_stream": o["H"][dom][i]}, False)
    for dom, ps in zip(msd, spec_diag):
        for (i, j) in ps:
            n += 1
            rep.violation("tie:dump-identity", "dump identity and model term identity disagree for [%s] %s | %s" %
                          (dom, o["V"][dom][i][1], o["V"][dom][j][1]),
                          {"property": PID, "domain": dom, "broken_tie": "dumps_distinct_in_model"}, False)
    if n == 0:
        rep.violation("tie:unknown", "EqOrdCasesCheck.v fails: " + (c2.stderr or c2.stdout)[-800:],
                      {"property": PID, "broken_tie": "Tables/EqOrdCasesCheck.v"}, False)
    return False, n


def run(rep, tier, seed, replay):
    hbin = vlib.build_harness()
    ok, thms = vlib.proof_gates(rep, PID)
    args = [hbin, "eqord", str(seed)]
    if replay:
        r = json.load(open(replay))
        if r.get("domain") in MS_DOMS and r.get("values"):
            dumps = list(r["values"].values())
            args = [hbin, "eqord", "values", r["domain"]] + [" ".join(dumps[0].split())]
            for d in dumps[1:]:
                args += ["--", d]
        elif r.get("domain") in MS_DOMS and r.get("a"):
            args = [hbin, "eqord", "values", r["domain"], r["a"], "--", r["b"]]
        else:
            seed = int(r.get("seed", seed))
            args = [hbin, "eqord", str(seed)]
    p = vlib.sh(args, env={"VERIF_TIER": tier}, timeout=1800)
    if p.returncode != 0:
        raise RuntimeError("eqord engine failed: " + p.stderr[-2000:])
    o = parse_output(p.stdout)
    stats, flagged = oracle(rep, o, seed)
    history_oracle(rep, o, seed, stats)
    tie_ok, ndiff = coq_tie(rep, o, flagged, seed)

    kinds, obs_hist, dom_hist = {}, {}, {}
    for dom in o["M"]:
        dom_hist[dom] = len(o["V"][dom])
        for k in o["M"][dom].values():
            kinds[k] = kinds.get(k, 0) + 1
    for dom in o["P"]:
        for v in o["P"][dom].values():
            k = "==:%s cmp:%s hash-equal:%s" % (v[0], v[1], v[2])
            obs_hist[k] = obs_hist.get(k, 0) + 1
    samples = []
    all_doms = doms_of(o, MS_DOMS + ["desc", "conc", "sem"])
    for dom in all_doms:
        ps = sorted(o["P"].get(dom, {}).items())
        for (i, j), v in ps[3:400:97][:3]:
            samples.append({"domain": dom, "a": o["V"][dom][i][1][:300], "b": o["V"][dom][j][1][:300],
                            "eq": v[0], "cmp": v[1], "hash_equal": v[2]})
    tie_obl = 5
    rep.coverage.update({
        "obligations": len(thms) + tie_obl,
        "discharged": (len(thms) if ok else 0) + (tie_obl if tie_ok else 0),
        "checker_cmd": "make -C coq ; coqc Properties/C19.v ; verif-harness eqord <seed> | tools/props/c19.py -> "
                       "coqc Tables/EqOrdCasesGen.v Tables/EqOrdCasesCheck.v",
        "trusted_base": vlib.TRUSTED_BASE_COMMON + [
            "the canonical dump (harness/src/ast.rs dump_str and the descriptor/policy dumps of eqord.rs) as the structural-equality oracle",
            "Ord/Eq/Hash of the key types DefiniteDescriptorKey, DescriptorPublicKey, String (supplied to the model as rank tables; a total order in the theorems)",
            "a value of the second key types is identified with its dump by translating it back with translate_pk (C20 checks translate_pk)"],
        "evaluations": stats["pairs"] + stats["triples"] + stats["sets"] + stats["clones"] + stats.get("history_cases", 0),
        "history_cases": stats.get("history_cases", 0),
        "distinct_nontrivial": sum(len(v) for v in o["V"].values()),
        "pairs": stats["pairs"], "triples": stats["triples"], "set_groups": stats["sets"], "clones": stats["clones"],
        "pairs_compared_in_coq": sum(len(o["P"].get(d, {})) for d in all_doms) + len(o["W"].get("desc", [])),
        "second_key_types": {d: len(o["V"][d]) for d in all_doms if ":" in d},
        "hash_streams_compared_in_coq": sum(len(v) for v in o["H"].values()) + len(o["HW"].get("desc", {})) + len(o["HC"].get("desc", {})),
        "hash_pairs_compared_in_coq": sum(len(o["P"].get(d, {})) for d in all_doms if base(d) != "sem"),
        "differing_cases": ndiff,
        "rule": "generated miniscripts (type-directed, 4 contexts, all base types) + every single-step neighbour kind "
                "(k+-1, child/key added/removed, regrouping, leaf key/hash/time changed, sugar variants, children swapped, wrapper/"
                "combinator kind changed) + descriptors of every type incl. tr with trees + concrete/semantic policies with their neighbours; "
                "pairs = value x neighbour (both orders), cliques for the triple laws, random cross pairs",
        "values_per_domain": dom_hist,
        "derivation_histogram": dict(sorted(kinds.items())),
        "observation_histogram": dict(sorted(obs_hist.items())),
        "violation_classes_seen": stats["by_key"],
        "samples": samples,
    })
    rep.assumptions = [
        "two values are structurally identical iff their canonical dumps are equal (the dump visits every field that Display prints)",
        "a key feeds itself to the Hasher as one opaque atom (its own Hash impl is not modelled); policy::Semantic has no Hash impl",
        "the spend-info cache of Tr is modelled as run-time state that ==/cmp do not read; that the compiled code's answers do not depend "
        "on it (fresh / warmed / cloned operands) is observed per run on every tr pair, in Coq against the model and by the oracle",
        "keys are atoms: the key type's own Eq/Ord/Hash are assumed lawful (total_order hypothesis)"]
