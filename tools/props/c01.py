"""C01 — every satisfaction the library returns actually spends the output (DESIGN 5/C01).
Proof side: Properties/C01.v. Tie: model of the satisfier (coq/Ms/Sat.v, extracted) compared
with the implementation on every run of the `sat` engine. Oracle: every (scriptSig, witness)
the implementation returns is executed by the extracted Coq Script semantics
(coq/Script/{Exec,Ser,Spend}.v: verify_spend) on the implementation's own script bytes, with
real signatures over the real sighash."""
import vlib, satrun

LEVEL = "proof"


def run(rep, tier, seed, replay):
    ok, thms = vlib.proof_gates(rep, "C01")
    n = satrun.sizes(tier)
    r = satrun.run(seed, n)
    s = r["summary"]
    for b in r["bad"].get("C01", []):
        rep.violation("c01:%s:%s" % (b.get("kind"), b.get("mode")),
                      "returned satisfaction rejected by the Script semantics: %s" % b.get("desc"),
                      dict(b, property="C01", engine="sat", seed=seed, n=n,
                           failed_clause="verify_spend(spk, scriptSig, witness) = false under consensus+standardness rules"), True)
    for d in r["diff"]:
        rep.violation("tie:satisfier-model", "model of the satisfier and implementation disagree: %s" % d.get("line", "")[:300],
                      dict(d, property="C01", broken_tie="correspondence Sat.v (satisfy) vs Descriptor::get_satisfaction*", seed=seed, n=n), False)
    for p in r["panic"]:
        rep.violation("panic:satisfier", "library panicked while satisfying: %s" % p.get("desc"),
                      dict(p, property="C01", seed=seed, n=n, failed_clause="get_satisfaction panicked"), True)
    tie_ok = not r["diff"]
    rep.coverage.update({
        "obligations": len(thms) + 1, "discharged": (len(thms) if ok else 0) + (1 if tie_ok else 0),
        "checker_cmd": "make -C coq; coqc Properties/C01.v; verif-harness sat %d %d | ocaml/driver (extracted from coq/Extract/Extract.v)" % (seed, n),
        "trusted_base": vlib.TRUSTED_BASE_COMMON + [
            "Coq extraction to OCaml (ExtrOcamlBasic only) and ocaml/driver.ml (text parsing, table lookups)",
            "Script semantics coq/Script/*.v is a hand-written specification of consensus+standardness rules",
            "taproot control-block commitment check is done by rust-bitcoin in the harness (TAPOK), modelled under C15"],
        "evaluations": s.get("ok", 0) + s.get("err", 0), "distinct_nontrivial": s.get("ok", 0),
        "rule": "seeded type-directed generator of well-typed miniscripts (2/3 sane) in wsh, sh(wsh), sh, bare, tr(1-3 leaves); per descriptor 1-4 (nLockTime,nSequence) environments; all key subsets (<=4 keys) or 16 random; 2-3 preimage subsets; both modes; non-trivial = the implementation returned a satisfaction, which is then executed",
        "witnesses_executed": s.get("ok", 0), "witnesses_rejected": s.get("bad", 0),
        "model_runs_equal": s.get("model_eq", 0), "model_runs_different": s.get("model_diff", 0),
        "cases": s.get("cases", 0), "histogram": r["hist"],
        "samples": [{"note": "see histogram for output-type/mode/fragment distribution", "summary": s}],
    })
    rep.assumptions = ["signatures are real (secp256k1) over the real sighash computed by rust-bitcoin; hash functions by bitcoin_hashes",
                       "pkh/wpkh/sh(wpkh) outputs and plans are covered by C17/C16 engines"]
