#!/usr/bin/env python3
"""Mutation experiments for C19 / C20 (never touches /repo: works in a scratch git worktree).

usage: python3 tools/props/c19_c20_mutations.py <C19|C20> <mutation|revert-32d9f676|all> [--keep]

Each mutation is a textual replacement in a scratch worktree of /repo (at /repo's HEAD); the check is
run with VERIF_REPO pointing at it and must report a VIOLATION (exit 1). `revert-32d9f676` (C19) reverse-applies
notes/fixes/C19-terminal-eq-ord.diff, i.e. restores the Eq/Ord defects that /repo commit 32d9f676 repaired.
"""
import glob
import os
import subprocess
import sys

VERIF = os.path.dirname(os.path.dirname(os.path.dirname(os.path.abspath(__file__))))
SCRATCH = "/tmp/verif-mut-c19c20"

MUT = {
    "C19": {
        "eq-after": ("src/miniscript/decode.rs",
                     "                (Self::After(t1), Self::After(t2)) if t1 != t2 => return false,\n", ""),
        "eq-multi-k": ("src/miniscript/decode.rs",
                       "(Self::Multi(th1), Self::Multi(th2)) if th1 != th2 => return false,",
                       "(Self::Multi(th1), Self::Multi(th2)) if th1.data() != th2.data() => return false,"),
        "hash-multi-k": ("src/miniscript/decode.rs",
                         "Self::Multi(th) | Self::SortedMulti(th) => th.hash(hasher),",
                         "Self::Multi(th) | Self::SortedMulti(th) => th.data().hash(hasher),"),
        "hash-older": ("src/miniscript/decode.rs", "                Self::Older(t) => t.hash(hasher),\n", ""),
        "cmp-ignore-k": ("src/miniscript/display.rs",
                         "(DisplayNode::ThresholdK(me), DisplayNode::ThresholdK(you)) => me.cmp(&you),",
                         "(DisplayNode::ThresholdK(_me), DisplayNode::ThresholdK(_you)) => cmp::Ordering::Equal,"),
        "cmp-after-reversed": ("src/miniscript/display.rs",
                               "(DisplayNode::After(me), DisplayNode::After(you)) => {\n                            me.cmp_by_consensus(*you)",
                               "(DisplayNode::After(me), DisplayNode::After(you)) => {\n                            you.cmp_by_consensus(*me)"),
        "cmp-key-vs-hash": ("src/miniscript/display.rs",
                            "(DisplayNode::Sha256(me), DisplayNode::Sha256(you)) => me.cmp(you),",
                            "(DisplayNode::Sha256(_me), DisplayNode::Sha256(_you)) => cmp::Ordering::Less,"),
        "clone-andor": ("src/miniscript/mod.rs",
                        """                    Terminal::AndOr(..) => Terminal::AndOr(
                        stack.pop().unwrap(),
                        stack.pop().unwrap(),
                        stack.pop().unwrap(),
                    ),
                    Terminal::OrB(..) => Terminal::OrB(stack.pop().unwrap(), stack.pop().unwrap()),""",
                        """                    Terminal::AndOr(..) => {
                        let (a, b, c) = (stack.pop().unwrap(), stack.pop().unwrap(), stack.pop().unwrap());
                        Terminal::AndOr(a, c, b)
                    }
                    Terminal::OrB(..) => Terminal::OrB(stack.pop().unwrap(), stack.pop().unwrap()),"""),
        "tr-eq-ignores-tree": ("src/descriptor/tr/mod.rs",
                               "self.internal_key == other.internal_key && self.tree == other.tree",
                               "self.internal_key == other.internal_key"),
        "policy-ord-older": ("src/policy/concrete.rs",
                             "(Self::Older(a), Self::Older(b)) => a.cmp_by_consensus(*b),",
                             "(Self::Older(_a), Self::Older(_b)) => cmp::Ordering::Equal,"),
    },
    "C20": {
        "translate-andor-swap": ("src/miniscript/mod.rs",
                                 """                Terminal::AndOr(..) => Terminal::AndOr(
                    translated.pop().unwrap(),
                    translated.pop().unwrap(),
                    translated.pop().unwrap(),
                ),""",
                                 """                Terminal::AndOr(..) => {
                    let (a, b, c) = (translated.pop().unwrap(), translated.pop().unwrap(), translated.pop().unwrap());
                    Terminal::AndOr(a, c, b)
                }"""),
        "translate-orb-swap": ("src/miniscript/mod.rs",
                               """                Terminal::OrB(..) => {
                    Terminal::OrB(translated.pop().unwrap(), translated.pop().unwrap())
                }""",
                               """                Terminal::OrB(..) => {
                    let (a, b) = (translated.pop().unwrap(), translated.pop().unwrap());
                    Terminal::OrB(b, a)
                }"""),
        "translate-no-recheck": ("src/miniscript/mod.rs",
                                 "            let new_ms = Miniscript::from_ast(new_term).map_err(TranslateErr::OuterError)?;\n",
                                 "            let new_ms = Miniscript::from_components_unchecked(new_term, data.node.ty, data.node.ext);\n"),
        "for-each-key-skips-pkh": ("src/miniscript/mod.rs",
                                   """                Terminal::PkH(ref p) if !pred(p) => {
                    return false;
                }
""", ""),
        "for-each-key-multi-any": ("src/miniscript/mod.rs",
                                   """                Terminal::Multi(ref thresh) | Terminal::SortedMulti(ref thresh)
                    if !thresh.iter().all(&mut pred) =>""",
                                   """                Terminal::Multi(ref thresh) | Terminal::SortedMulti(ref thresh)
                    if !thresh.iter().any(&mut pred) =>"""),
        "iter-pk-skips-last-multi-key": ("src/miniscript/iter.rs",
                                         "(Terminal::Multi(thresh), _) => thresh.data().get(n).cloned(),",
                                         "(Terminal::Multi(thresh), _) => if n + 1 < thresh.n() { thresh.data().get(n).cloned() } else { None },"),
        "tr-translate-drops-recheck": ("src/descriptor/tr/mod.rs",
                                       "Tr::new(translate.pk(&self.internal_key)?, tree).map_err(TranslateErr::OuterError)?;",
                                       "Tr { internal_key: translate.pk(&self.internal_key)?, tree, spend_info: Mutex::new(None) };"),
        "policy-translate-or-order": ("src/policy/concrete.rs",
                                      """                Or(ref subs) => Or(subs
                    .iter()
                    .map(|(prob, _)| (*prob, translated.pop().unwrap()))
                    .collect()),""",
                                      """                Or(ref subs) => Or(subs
                    .iter()
                    .rev()
                    .map(|(prob, _)| (*prob, translated.pop().unwrap()))
                    .collect()),"""),
        "thresh-translate-rev": ("src/miniscript/mod.rs",
                                 """                Terminal::Thresh(ref thresh) => {
                    Terminal::Thresh(thresh.map_ref(|_| translated.pop().unwrap()))
                }
                Terminal::Multi(ref thresh) => Terminal::Multi(""",
                                 """                Terminal::Thresh(ref thresh) => {
                    let mut v: Vec<_> = (0..thresh.n()).map(|_| translated.pop().unwrap()).collect();
                    let last = v.len() - 1;
                    v.swap(0, last);
                    Terminal::Thresh(crate::Threshold::new(thresh.k(), v).unwrap())
                }
                Terminal::Multi(ref thresh) => Terminal::Multi("""),
    },
}


def sh(cmd, **kw):
    return subprocess.run(cmd, shell=isinstance(cmd, str), stdout=subprocess.PIPE, stderr=subprocess.STDOUT, text=True, **kw)


def scratch():
    if os.path.exists(SCRATCH):
        sh(["git", "-C", "/repo", "worktree", "remove", "--force", SCRATCH])
    r = sh(["git", "-C", "/repo", "worktree", "add", "--detach", SCRATCH, "HEAD"])
    if r.returncode != 0:
        raise SystemExit(r.stdout)


def cleanup():
    sh(["git", "-C", "/repo", "worktree", "remove", "--force", SCRATCH])
    import hashlib
    import shutil
    t = os.path.join(VERIF, "harness", "target-" + hashlib.sha256(SCRATCH.encode()).hexdigest()[:8])
    shutil.rmtree(t, ignore_errors=True)


def run_check(pid):
    env = dict(os.environ, VERIF_REPO=SCRATCH)
    r = subprocess.run(["python3", os.path.join(VERIF, "tools", "check.py"), pid], cwd=VERIF, env=env,
                       stdout=subprocess.PIPE, stderr=subprocess.PIPE, text=True)
    return r


def main():
    pid, which = sys.argv[1], sys.argv[2]
    keep = "--keep" in sys.argv
    names = (list(MUT[pid]) + (["revert-32d9f676"] if pid == "C19" else [])) if which == "all" else [which]
    results = []
    for name in names:
        sh(["git", "-C", SCRATCH, "checkout", "."]) if os.path.exists(SCRATCH) else scratch()
        if name == "revert-32d9f676":
            for d in sorted(glob.glob(os.path.join(VERIF, "notes", "fixes", pid + "-*.diff"))):
                r = sh(["git", "-C", SCRATCH, "apply", "-R", d])
                if r.returncode != 0:
                    raise SystemExit("the repair does not reverse-apply: " + r.stdout)
        else:
            path, old, new = MUT[pid][name]
            p = os.path.join(SCRATCH, path)
            s = open(p).read()
            if old not in s:
                raise SystemExit("mutation %s: anchor text not found in %s" % (name, path))
            open(p, "w").write(s.replace(old, new, 1))
        r = run_check(pid)
        viol = [l for l in r.stdout.splitlines() if l.startswith("VIOLATION")]
        known = [l for l in r.stdout.splitlines() if l.startswith("KNOWN-FINDING")]
        keys = [l.strip() for l in r.stderr.splitlines() if l.strip().startswith("[")]
        print("== %s %s: exit %d, %d VIOLATION line(s), %d KNOWN-FINDING line(s)" % (pid, name, r.returncode, len(viol), len(known)))
        for l in viol:
            print("   " + l)
        for k in keys[:8]:
            print("   " + k[:300])
        if r.returncode not in (0, 1) or (not viol and r.returncode == 1):
            print(r.stdout[-1500:], r.stderr[-3000:])
        results.append((name, r.returncode, len(viol), len(known)))
    if not keep:
        cleanup()
    bad = [x for x in results if x[1] != 1 or x[2] == 0]
    sys.exit(1 if bad else 0)


if __name__ == "__main__":
    main()
