"""C04 — script encoding and decoding are inverse and canonical; predicted size exact (DESIGN 5/C04).

Proof side: coq/Properties/C04.v (ser_parse / parse_ser, script_size_ok, lex_enc, decode_total,
decode_enc via the decoder normal form, decode_canonical via lexer canonicity + parser soundness).
Tie: the `codec` engine runs the real encoder / lexer / raw parser / three decoders on generated
ASTs (four contexts), on systematically edited encodings, cross-context scripts, opcode soups and
random bytes; ocaml/driver_codec (extracted from the Coq models) recomputes every observation;
a sample of the same observations is compared with the model INSIDE Coq (Tables/CodecCases*.v).
Oracle (independent of the model, on the implementation's own outputs): whatever a decoder
accepts must re-encode to exactly the bytes offered, with script_size() = length; every
generated miniscript valid under the context's consensus parameters must decode back from its
encoding with identical bytes and identical type."""
import collections, hashlib, json, os, re
import vlib

LEVEL = "proof"
OCAML = os.path.join(vlib.VERIF, "ocaml")
DRIVER = os.path.join(OCAML, "driver_codec")

SIZES = {"quick": (900, 9, 1500), "thorough": (9000, 10, 15000)}   # ASTs per context, sampled edits per AST, soups+random per context


# ------------------------------------------------------------------ plumbing
def refresh_makefile():
    """coq_makefile is re-run when _CoqProject is newer than the Makefile (vlib only creates it once)."""
    mk, cp = os.path.join(vlib.COQ, "Makefile"), os.path.join(vlib.COQ, "_CoqProject")
    with vlib.Lock("coq"):
        if os.path.exists(mk) and os.path.getmtime(cp) > os.path.getmtime(mk):
            os.remove(mk)


def build_driver():
    with vlib.Lock("ocaml-codec"):
        p = vlib.sh(["./build_codec.sh"], cwd=OCAML, timeout=1200, stack_unlimited=True)
        if p.returncode != 0 or not os.path.exists(DRIVER):
            raise RuntimeError("extraction / codec driver build failed: " + (p.stderr or p.stdout)[-3000:])


def _h(path):
    return hashlib.sha256(open(path, "rb").read()).hexdigest()[:16]


def blen(h):
    return 0 if h == "-" else len(h) // 2


def unhex(h):
    return b"" if h == "-" else bytes.fromhex(h)


def parse_cases(text):
    world, cur, out = {}, None, []
    for line in text.splitlines():
        if line.startswith("W "):
            p = line.split(" ")
            world[int(p[1])] = {"full": p[2], "h_full": p[3], "xonly": p[4], "h_x": p[5], "comp": p[6]}
        elif line.startswith("C "):
            p = line.split(" ")
            cur = {"id": p[1], "ctx": p[2], "kind": p[3], "hex": p[4], "D": {}, "K": {}}
        elif cur is None:
            continue
        elif line.startswith("S "):
            cur["src"] = line[2:]
        elif line.startswith("E "):
            cur["enc"] = line[2:].split(" ")
        elif line.startswith("K "):
            for kv in line[2:].split(" "):
                if "=" in kv:
                    h, v = kv.split("=")
                    cur["K"][h] = v == "1"
        elif line.startswith("X "):
            cur["X"] = line[2:]
        elif line.startswith("L "):
            cur["L"] = line[2:]
        elif line.startswith("P "):
            cur["P"] = line[2:]
        elif line.startswith("D "):
            p = line.split(" ", 3)
            if p[2] == "ok":
                head, dump = p[3].split(" | ")
                ty, sz, pc, re_ = head.split(" ")
                cur["D"][p[1]] = ("ok", ty, int(sz), int(pc), re_, dump)
            else:
                cur["D"][p[1]] = (p[2], p[3] if len(p) > 3 else "")
        elif line == ".":
            out.append(cur)
            cur = None
    return world, out


# ------------------------------------------------------------------ instruction view (oracle side, no library code)
def instrs(b):
    """permissive split of a script into ('push', data) / ('op', byte); None if truncated"""
    out, i = [], 0
    while i < len(b):
        c = b[i]; i += 1
        if c <= 75:
            n = c
        elif c == 76:
            if i + 1 > len(b): return None
            n = b[i]; i += 1
        elif c == 77:
            if i + 2 > len(b): return None
            n = b[i] | b[i + 1] << 8; i += 2
        elif c == 78:
            if i + 4 > len(b): return None
            n = int.from_bytes(b[i:i + 4], "little"); i += 4
        else:
            out.append(("op", c)); continue
        if i + n > len(b): return None
        out.append(("push", bytes(b[i:i + n]))); i += n
    return out


def ser(ins):
    out = bytearray()
    for k, v in ins:
        if k == "op":
            out.append(v)
        else:
            n = len(v)
            if n <= 75: out.append(n)
            elif n <= 255: out += bytes([76, n])
            elif n <= 65535: out += bytes([77, n & 255, n >> 8])
            else: out += bytes([78]) + n.to_bytes(4, "little")
            out += v
    return bytes(out)


def is_numequal_split(inp_hex, re_hex):
    """input = re-encoding with some OP_NUMEQUALVERIFY written as OP_NUMEQUAL OP_VERIFY, nothing else"""
    ins = instrs(unhex(inp_hex))
    if ins is None:
        return False
    out, i, n = [], 0, 0
    while i < len(ins):
        if ins[i] == ("op", 0x9c) and i + 1 < len(ins) and ins[i + 1] == ("op", 0x69):
            out.append(("op", 0x9d)); i += 2; n += 1
        else:
            out.append(ins[i]); i += 1
    return n > 0 and ser(out) == unhex(re_hex) and ser(ins) == unhex(inp_hex)


def script_num_size(n):
    return 1 if n <= 16 else 2 if n < 0x80 else 3 if n < 0x8000 else 4 if n < 0x800000 else 5 if n < 0x80000000 else 6


def dump_stats(ctx, dump):
    """(uncompressed pk_k pushes, pk_cost surplus of multi_a nodes, all uncompressed key pushes) of a prefix
    dump: the quantities the documented defects are functions of"""
    toks = dump.split(" ")
    unc, surplus, unc_all, i = 0, 0, 0, 0

    def is_unc(t):
        if ctx == "tap":
            return False
        return t in ("6", "7") or (t.startswith("x") and len(t) == 131)
    while i < len(toks):
        t = toks[i]
        if t == "pk_k":
            unc_all += is_unc(toks[i + 1]); i += 2     # pk_cost of pk_k is right since /repo 4c5160f8
        elif t in ("multi", "sortedmulti", "multi_a", "sortedmulti_a"):
            k, n = int(toks[i + 1]), int(toks[i + 2])
            ks = toks[i + 3:i + 3 + n]
            if not t.endswith("_a"):     # pk_cost of multi_a is right since /repo c854851b
                unc_all += sum(is_unc(x) for x in ks)   # pk_cost of multi is right since /repo 5d25865d
            i += 3 + n
        else:
            i += 1
    return unc, surplus, unc_all


ARITY1 = {"a", "s", "c", "d", "v", "j", "n"}
ARITY2 = {"and_v", "and_b", "or_b", "or_d", "or_c", "or_i"}


def dump_height(dump):
    """ExtData::tree_height of a prefix dump (iterative: the dumps of interest are 400 deep)"""
    toks = dump.split(" ")
    # parse into a post-order list of (arity) then fold heights with a stack
    out, i = [], 0
    while i < len(toks):
        t = toks[i]
        if t in ARITY1: out.append(1); i += 1
        elif t in ARITY2: out.append(2); i += 1
        elif t == "andor": out.append(3); i += 1
        elif t == "thresh": out.append(int(toks[i + 2])); i += 3
        elif t in ("multi", "sortedmulti", "multi_a", "sortedmulti_a"): out.append(0); i += 3 + int(toks[i + 2])
        elif t in ("0", "1"): out.append(0); i += 1
        else: out.append(0); i += 2
    stack = []
    for ar in reversed(out):
        if ar == 0:
            stack.append(0)
        else:
            kids = [stack.pop() for _ in range(ar)]
            stack.append(1 + max(kids))
    return stack[-1] if stack else 0


# ------------------------------------------------------------------ the oracle
def replay_obj(c, **kw):
    o = {"property": "C04", "engine": "codec", "ctx": c["ctx"], "hex": c["hex"], "kind": c["kind"], "case": c["id"]}
    if c.get("src") and c["kind"] in ("gen", "replay"):
        o["src"] = c["src"]
    if c.get("src") and c["kind"].startswith("edit"):
        o["derived_from"] = c["src"]
    o.update(kw)
    return o


def judge(c):
    """[(key, what, replay_obj)] — clauses of the property that fail on the implementation's own outputs"""
    out = []
    if "X" in c:
        out.append(("panic:encode", "encode()/script_size() panicked on %s" % c.get("src"), replay_obj(c, failed_clause="encode panicked")))
        return out
    for where in ("L", "P"):
        if c.get(where, "").startswith("panic"):
            out.append(("panic:%s" % {"L": "lex", "P": "parse"}[where], "%s panicked on %s" % ({"L": "lex", "P": "decode::decode"}[where], c["hex"][:200]),
                        replay_obj(c, failed_clause="decoder panicked")))
    for tag, d in sorted(c["D"].items()):
        if d[0] in ("panic", "okpanic"):
            out.append(("panic:decode", "decoder (%s) panicked on %s" % (tag, c["hex"][:200]), replay_obj(c, mode=tag, failed_clause="decoder panicked")))
            continue
        if d[0] != "ok":
            continue
        _, ty, sz, pc, re_, dump = d
        if re_ != c["hex"]:
            if is_numequal_split(c["hex"], re_):
                key = "numequal-verify-split"
            else:
                key = "noncanonical-accept:%s" % c["kind"].replace("edit:", "")
            out.append((key, "%s decoder (%s) accepts %s as `%s` whose encoding is %s" % (c["ctx"], tag, c["hex"][:300], dump[:200], re_[:300]),
                        replay_obj(c, mode=tag, decoded=dump, reencoded=re_, failed_clause="accepted bytes are not the canonical encoding of the returned miniscript")))
        unc, surplus, unc_all = dump_stats(c["ctx"], dump)
        if sz != blen(re_):
            if c["ctx"] == "segwitv0" and unc_all > 0 and sz == blen(re_) - 32 * unc_all:
                key = "size-uncompressed-key-segwitv0"
            else:
                key = "script-size:%s" % dump.split(" ")[0]
            out.append((key, "%s script_size() = %d but encode() has %d bytes for `%s` (decoded with %s)" % (c["ctx"], sz, blen(re_), dump[:200], tag),
                        replay_obj(c, mode=tag, decoded=dump, script_size=sz, encoded_len=blen(re_), failed_clause="script_size() != len(encode())")))
        if pc != blen(re_):
            out += pkcost_violation(c, tag, dump, pc, blen(re_), unc, surplus)
    dm, dc, ds = c["D"].get("max"), c["D"].get("cons"), c["D"].get("sane")
    if dc and dc[0] == "ok" and not (dm and dm[0] == "ok" and dm[5] == dc[5]):
        out.append(("decoders-inconsistent", "decode_consensus accepts %s but decode_with_validation_params(MAX) answers differently" % c["hex"][:200],
                    replay_obj(c, failed_clause="consensus decoder accepts, MAX decoder differs")))
    if ds and ds[0] == "ok" and not (dc and dc[0] == "ok" and dc[5] == ds[5]):
        out.append(("decoders-inconsistent", "decode (sane) accepts %s but decode_consensus answers differently" % c["hex"][:200],
                    replay_obj(c, failed_clause="sane decoder accepts, consensus decoder differs")))
    if c["kind"] in ("gen", "replay") and "enc" in c:
        e = c["enc"]
        ehex, sz, pc, ty, cons_ok = e[0], int(e[1]), int(e[2]), e[4], e[5] == "1"
        unc, surplus, _ = dump_stats(c["ctx"], c["src"])
        if sz != blen(ehex):
            out.append(("script-size:%s" % c["src"].split(" ")[0], "%s script_size() = %d but encode() has %d bytes for `%s`" % (c["ctx"], sz, blen(ehex), c["src"][:200]),
                        replay_obj(c, script_size=sz, encoded_len=blen(ehex), failed_clause="script_size() != len(encode())")))
        if pc != blen(ehex):
            out += pkcost_violation(c, "source", c["src"], pc, blen(ehex), unc, surplus)
        base = ty.split(".")[0]
        # the property's domain: valid under the context's consensus parameters -> decode_consensus must invert encode
        checks = []
        if cons_ok:
            checks.append(("cons", "decode_consensus"))
        if base != "W":
            checks.append(("max", "decode_with_validation_params(MAX)"))
        for tag, name in checks:
            d = c["D"].get(tag)
            if d is None or d[0] != "ok":
                cls = d[1] if d else "missing"
                if cls == "MaxRecursiveDepthExceeded" and dump_height(c["src"]) == 402:
                    cls = "depth-402-reassociation"
                out.append(("roundtrip-reject:%s" % cls,
                            "%s: %s rejects encode(`%s`) with %s" % (c["ctx"], name, c["src"][:300], d[1] if d else "?"),
                            replay_obj(c, mode=tag, failed_clause="decode(encode(m)) fails", error=d[1] if d else None)))
            else:
                if d[4] != ehex:
                    out.append(("roundtrip-bytes", "%s: %s(encode(m)) re-encodes differently for `%s`" % (c["ctx"], name, c["src"][:300]),
                                replay_obj(c, mode=tag, decoded=d[5], reencoded=d[4], failed_clause="decode(encode(m)).encode() != encode(m)")))
                if d[1] != ty:
                    out.append(("roundtrip-type", "%s: %s(encode(m)) has type %s, m has %s for `%s` -> `%s`" % (c["ctx"], name, d[1], ty, c["src"][:200], d[5][:200]),
                                replay_obj(c, mode=tag, decoded=d[5], type_decoded=d[1], type_source=ty, failed_clause="decode(encode(m)).ty != m.ty")))
    return out


def pkcost_violation(c, tag, dump, pc, real, unc, surplus):
    if pc == real - unc + surplus and (unc or surplus):
        keys = (["pkcost-uncompressed-key"] if unc else []) + (["pkcost-multi_a-numcost"] if surplus else [])
    else:
        keys = ["pk-cost:%s" % dump.split(" ")[0]]
    return [(k, "%s ext.pk_cost = %d but the encoding has %d bytes for `%s` (%s)" % (c["ctx"], pc, real, dump[:200], tag),
             replay_obj(c, mode=tag, decoded=dump, pk_cost=pc, encoded_len=real, failed_clause="ext.pk_cost != len(encode())")) for k in keys]


# ------------------------------------------------------------------ the sample compared inside Coq
TOKMAP = {"BoolAnd": "TkBoolAnd", "BoolOr": "TkBoolOr", "Add": "TkAdd", "Equal": "TkEqual", "NumEqual": "TkNumEqual",
          "CheckSig": "TkCheckSig", "CheckSigAdd": "TkCheckSigAdd", "CheckMultiSig": "TkCheckMultiSig",
          "CheckSequenceVerify": "TkCheckSequenceVerify", "CheckLockTimeVerify": "TkCheckLockTimeVerify",
          "FromAltStack": "TkFromAltStack", "ToAltStack": "TkToAltStack", "Drop": "TkDrop", "Dup": "TkDup", "If": "TkIf",
          "IfDup": "TkIfDup", "NotIf": "TkNotIf", "Else": "TkElse", "EndIf": "TkEndIf", "ZeroNotEqual": "TkZeroNotEqual",
          "Size": "TkSize", "Swap": "TkSwap", "Verify": "TkVerify", "Ripemd160": "TkRipemd160", "Hash160": "TkHash160",
          "Sha256": "TkSha256", "Hash256": "TkHash256"}
ERRCODE = {"ScriptLexer:Script:EarlyEndOfScript": 1, "ScriptLexer:Script:NonMinimalPush": 2, "ScriptLexer:InvalidInt": 3,
           "ScriptLexer:NegativeInt": 4, "ScriptLexer:InvalidOpcode": 5, "ScriptLexer:NonMinimalVerify": 6,
           "UnexpectedStart": 10, "Unexpected": 11, "Trailing": 12, "TypeCheck": 13, "MaxRecursiveDepthExceeded": 14,
           "PubKeyCtxError": 15, "AbsoluteLockTime": 16, "RelativeLockTime": 17, "Threshold": 18,
           "ContextError:UncompressedKeysNotAllowed": 30, "ContextError:MultiANotAllowed": 31,
           "ContextError:TaprootMultiDisabled": 32, "ContextError:MaxWitnessScriptSizeExceeded": 33,
           "ContextError:MaxRedeemScriptSizeExceeded": 34, "ContextError:MaxBareScriptSizeExceeded": 35}
CTXCOQ = {"bare": "Bare", "legacy": "Legacy", "segwitv0": "Segwitv0", "tap": "Tap"}


def coq_bytes(h):
    return "[" + ";".join(str(x) for x in unhex(h)) + "]"


class KeyTab:
    def __init__(self, world, ctx):
        self.tap = ctx == "tap"
        self.by_hex = {(w["xonly"] if self.tap else w["full"]): i for i, w in world.items()}
        self.extra = {}

    def idx(self, t):
        if t.startswith("x"):
            h = t[1:]
            if h in self.by_hex:
                return self.by_hex[h]
            if h not in self.extra:
                self.extra[h] = 100 + len(self.extra)
            return self.extra[h]
        return int(t)

    def idx_of_hex(self, h):
        return self.idx("x" + h)


def coq_ms(toks, kt):
    pos = [0]

    def nxt():
        t = toks[pos[0]]; pos[0] += 1
        return t

    def go():
        t = nxt()
        if t == "1": return "MTrue"
        if t == "0": return "MFalse"
        if t == "pk_k": return "(MPkK %d)" % kt.idx(nxt())
        if t == "pk_h": return "(MPkH %d)" % kt.idx(nxt())
        if t == "raw_pk_h": return "(MRawPkH %s)" % coq_bytes(nxt())
        if t in ("after", "older"): return "(%s %s)" % ("MAfter" if t == "after" else "MOlder", nxt())
        if t in ("sha256", "hash256", "ripemd160", "hash160"):
            return "(%s %s)" % ({"sha256": "MSha256", "hash256": "MHash256", "ripemd160": "MRipemd160", "hash160": "MHash160"}[t], coq_bytes(nxt()))
        un = {"a": "MAlt", "s": "MSwap", "c": "MCheck", "d": "MDupIf", "v": "MVerify", "j": "MNonZero", "n": "MZeroNotEqual"}
        if t in un: return "(%s %s)" % (un[t], go())
        bi = {"and_v": "MAndV", "and_b": "MAndB", "or_b": "MOrB", "or_d": "MOrD", "or_c": "MOrC", "or_i": "MOrI"}
        if t in bi:
            x = go(); y = go()
            return "(%s %s %s)" % (bi[t], x, y)
        if t == "andor":
            x = go(); y = go(); z = go()
            return "(MAndOr %s %s %s)" % (x, y, z)
        if t == "thresh":
            k = nxt(); n = int(nxt())
            return "(MThresh %s [%s])" % (k, ";".join(go() for _ in range(n)))
        mu = {"multi": "MMulti", "sortedmulti": "MSortedMulti", "multi_a": "MMultiA", "sortedmulti_a": "MSortedMultiA"}
        if t in mu:
            k = nxt(); n = int(nxt())
            return "(%s %s [%s])" % (mu[t], k, ";".join(str(kt.idx(nxt())) for _ in range(n)))
        raise ValueError("dump token " + t)
    r = go()
    if pos[0] != len(toks):
        raise ValueError("trailing dump tokens")
    return r


def coq_tok(t):
    if ":" in t:
        k, v = t.split(":")
        if k == "Num": return "(TkNum %s)" % v
        return "(Tk%s %s)" % (k, coq_bytes(v))
    return TOKMAP[t]


def coq_case(n, c, world):
    kt = KeyTab(world, c["ctx"])
    L = c.get("L", "")
    if L.startswith("ok"):
        lex, lexerr = "(Some [%s])" % ";".join(coq_tok(t) for t in L.split(" ")[1:] if t), 0
    elif L.startswith("err "):
        lex, lexerr = "None", ERRCODE.get(L[4:], 98)
    else:
        return None
    d = c["D"].get("max")
    if d is None:
        return None
    if d[0] == "ok":
        dec = "(CAccept %s %d %d %s)" % (coq_ms(d[5].split(" "), kt), d[2], d[3], coq_bytes(d[4]))
    elif d[0] == "err":
        dec = "(CReject %d)" % ERRCODE.get(d[1], 98)
    else:
        dec = "CPanic"
    src = "None"
    if c["kind"] in ("gen", "replay") and "enc" in c:
        e = c["enc"]
        src = "(Some (%s, %s, %s, %s))" % (coq_ms(c["src"].split(" "), kt), e[1], e[2], "true" if e[3] == "1" else "false")
    keys = []
    for h, valid in c["K"].items():
        if valid:
            keys.append("(%s, %d)" % (coq_bytes(h), kt.idx_of_hex(h)))
    for h, i in kt.extra.items():
        s = "(%s, %d)" % (coq_bytes(h), i)
        if s not in keys and c["K"].get(h):
            keys.append(s)
    return "Definition cc%d : ccase := mkCase %d %s %s [%s] %s %d %s %s." % (
        n, n, CTXCOQ[c["ctx"]], coq_bytes(c["hex"]), ";".join(keys), lex, lexerr, dec, src)


def coq_sample(world, cases, limit):
    """write Tables/CodecCasesGen.v with a stratified sample; returns the list of sampled cases"""
    picked, per = [], collections.Counter()
    quota = max(4, limit // 40)
    for c in cases:
        if blen(c["hex"]) > 360 or "X" in c:
            continue
        cls = (c["ctx"], c["kind"].split(":")[0], (c["D"].get("max") or ("?", "?"))[0:2] if (c["D"].get("max") or ("?",))[0] != "ok" else "ok")
        if per[cls] >= quota:
            continue
        per[cls] += 1
        picked.append(c)
        if len(picked) >= limit:
            break
    lines = ["(* generated by tools/props/c04.py from this run's harness output; do not edit *)",
             "From Verif Require Import CodecCasesDefs.", "Local Open Scope N_scope."]
    for ctx in ("bare", "legacy", "segwitv0", "tap"):
        rows = []
        for i, w in sorted(world.items()):
            tap = ctx == "tap"
            rows.append("(%d, (%s, %s, %s))" % (i, coq_bytes(w["xonly"] if tap else w["full"]), coq_bytes(w["h_x"] if tap else w["h_full"]),
                                               coq_bytes(w["xonly"] if tap else w["comp"])))
        lines.append("Definition world_%s : world := [%s]." % (ctx, ";".join(rows)))
    lines.append("Definition codec_world (c : ctx) : world := match c with Bare => world_bare | Legacy => world_legacy | Segwitv0 => world_segwitv0 | Tap => world_tap end.")
    names, kept = [], []
    for n, c in enumerate(picked):
        try:
            s = coq_case(n, c, world)
        except (ValueError, KeyError, IndexError):
            s = None
        if s:
            lines.append(s); names.append("cc%d" % n); kept.append(c)
    chunks = [names[i:i + 500] for i in range(0, len(names), 500)]
    for j, ch in enumerate(chunks):
        lines.append("Definition codec_cases_%d : list ccase := [%s]." % (j, ";".join(ch)))
    lines.append("Definition codec_cases : list ccase := %s." % (" ++ ".join("codec_cases_%d" % j for j in range(len(chunks))) or "[]"))
    open(os.path.join(vlib.COQ, "Tables", "CodecCasesGen.v"), "w").write("\n".join(lines) + "\n")
    return kept


# ------------------------------------------------------------------ run
def harness_output(hbin, args, cache_key=None):
    os.makedirs(vlib.WORK, exist_ok=True)
    path = os.path.join(vlib.WORK, "codec-%s.txt" % (cache_key or "replay"))
    if cache_key and os.path.exists(path) and os.path.getsize(path) > 0 and open(path, "rb").read()[-4:] == b"EOF\n":
        return path
    with open(path + ".tmp", "w") as f:
        import subprocess
        p = subprocess.run([hbin, "codec"] + [str(a) for a in args], stdout=f, stderr=subprocess.PIPE, text=True, timeout=3000)
    if p.returncode != 0:
        raise RuntimeError("codec engine failed: " + p.stderr[-2000:])
    os.replace(path + ".tmp", path)
    return path


def run_driver(path):
    p = vlib.sh("%s < %s" % (DRIVER, path), timeout=3000)
    if p.returncode != 0:
        raise RuntimeError("codec driver failed: " + p.stderr[-2000:])
    res = {"diff": [], "hist": {}, "summary": {}}
    for line in p.stdout.splitlines():
        if line.startswith("DIFF "):
            d = {"line": line[:3000]}
            for m in re.finditer(r"(kind|id|ctx|hex)=(\S+)", line):
                d[m.group(1)] = m.group(2)
            m = re.search(r"impl=\[(.*?)\] model=\[(.*)\]$", line)
            if m:
                d["impl"], d["model"] = m.group(1)[:1500], m.group(2)[:1500]
            res["diff"].append(d)
        elif line.startswith("HIST "):
            _, k, v = line.split(" ")
            res["hist"][k] = int(v)
        elif line.startswith("SUMMARY"):
            res["summary"] = {k: int(v) for k, v in re.findall(r"(\w+)=(\d+)", line)}
    if not res["summary"]:
        raise RuntimeError("codec driver produced no summary: " + p.stdout[-1500:] + p.stderr[-1500:])
    return res


def run(rep, tier, seed, replay):
    hbin = vlib.build_harness()
    refresh_makefile()
    ok, thms = vlib.proof_gates(rep, "C04")
    build_driver()
    n_ast, n_edit, n_rand = SIZES[tier]
    if replay:
        r = json.load(open(replay))
        if r.get("stage") == "decparams":      # a replay written by the decode-params stage: that stage alone
            from props import c04_decparams
            o, d = c04_decparams.stage(rep, tier, seed, hbin, replay=r)
            rep.coverage.update({"obligations": len(thms) + o, "discharged": (len(thms) if ok else 0) + d, "evaluations": 1,
                                 "distinct_nontrivial": 1, "checker_cmd": "verif-harness decparams replay %s %s" % (r["ctx"], r["hex"]),
                                 "trusted_base": vlib.TRUSTED_BASE_COMMON, "rule": "replay of one byte string", "samples": [r], "histogram": {}})
            return
        if r.get("src") and r.get("kind") in ("gen", "replay"):
            path = harness_output(hbin, ["replay-ast", r["ctx"]] + r["src"].split(" "))
        elif "hex" in r and "ctx" in r:
            path = harness_output(hbin, ["replay", r["ctx"], r["hex"]])
        else:
            raise RuntimeError("replay file names a broken proof obligation / tie, not an input: re-run the check itself")
    else:
        path = harness_output(hbin, [seed, n_ast, n_edit, n_rand], "%s-%d-%d-%d-%d" % (_h(hbin), seed, n_ast, n_edit, n_rand))
    world, cases = parse_cases(open(path).read())
    drv = run_driver(path)

    # ---- oracle on the implementation's own outputs
    by_id = {}
    nviol = collections.Counter()
    known_keys = {k["key"] for k in rep.known}
    for c in cases:
        v = judge(c)
        fresh = [x for x in v if x[0] not in known_keys]
        if fresh:
            by_id[c["id"]] = fresh
        for key, what, robj in v:
            nviol[key] += 1
            rep.violation(key, what, robj, True)

    # ---- tie: extracted model vs implementation, on-break protocol
    for d in drv["diff"]:
        cid = d.get("id", "?")
        root = re.sub(r"-e\d+$", "", cid)
        near = by_id.get(cid) or next((by_id[i] for i in by_id if i == root or i.startswith(root + "-e")), None)
        what = "model and implementation disagree (%s) on %s %s: impl=[%s] model=[%s]" % (
            d.get("kind"), d.get("ctx"), d.get("hex", "")[:200], d.get("impl", "")[:300], d.get("model", "")[:300])
        if near:
            key, w2, robj = near[0]
            rep.violation("tie:%s" % d.get("kind"), what + " ; property failure found nearby: " + w2[:400],
                          dict(robj, broken_tie="correspondence %s (model vs implementation)" % d.get("kind"), disagreement=d), True)
        else:
            rep.violation("tie:%s" % d.get("kind"), what,
                          {"property": "C04", "broken_tie": "correspondence %s: Coq model (extracted) vs implementation" % d.get("kind"),
                           "ctx": d.get("ctx"), "hex": d.get("hex"), "case": cid, "impl": d.get("impl"), "model": d.get("model"),
                           "note": "the oracle found no failing clause of the property on this input or its neighbours"}, False)

    # ---- a sample of the same observations compared inside Coq
    sample = coq_sample(world, cases, 300 if tier == "quick" else 1200)
    coq_ok, coq_note = True, ""
    for f in ("Tables/CodecCasesDefs.v", "Tables/CodecCasesGen.v"):
        p = vlib.coqc(f)
        if p.returncode != 0:
            raise RuntimeError("%s does not compile: %s" % (f, (p.stderr or p.stdout)[-2000:]))
    p = vlib.coqc("Tables/CodecCasesCheck.v")
    flat = re.sub(r"\s+", " ", p.stdout)
    if p.returncode != 0 or "= [] : list" not in flat:
        coq_ok = False
        pd = vlib.coqc("Tables/CodecCasesDiag.v")
        coq_note = (pd.stdout or pd.stderr or p.stderr)[-3000:]
        ids = [int(x) for x in re.findall(r"\((\d+)%N, \[", flat)][:5]
        bad = [sample[i] for i in ids if i < len(sample)]
        found = next((by_id[c["id"]] for c in bad if c["id"] in by_id), None)
        if found:
            key, w2, robj = found[0]
            rep.violation("tie:in-coq", "in-Coq comparison fails on sampled cases %s; property failure on one of them: %s" % (ids, w2[:400]),
                          dict(robj, broken_tie="Tables/CodecCasesCheck.v", diag=coq_note), True)
        else:
            rep.violation("tie:in-coq", "Tables/CodecCasesCheck.v: sampled implementation observations differ from the model: " + flat[-600:],
                          {"property": "C04", "broken_tie": "Tables/CodecCasesCheck.v (failing codec_world codec_cases = [])",
                           "cases": [{"id": c["id"], "ctx": c["ctx"], "hex": c["hex"]} for c in bad], "diag": coq_note}, False)

    # ---- evidence
    kinds = collections.Counter(c["kind"] for c in cases)
    acc = collections.Counter()
    for c in cases:
        for tag, d in c["D"].items():
            acc["%s:%s" % (tag, "accept" if d[0] == "ok" else "reject" if d[0] == "err" else "panic")] += 1
    rej = collections.Counter((c["D"].get("max") or ("?", "?"))[1] for c in cases if (c["D"].get("max") or ("ok",))[0] == "err")
    s = drv["summary"]
    tie_ok = not drv["diff"]
    nontriv = sum(1 for c in cases if any(d[0] == "ok" for d in c["D"].values()))
    samples = []
    for c in cases:
        if c["kind"].startswith("edit:split-numequal") and c["D"].get("max", ("",))[0] == "ok":
            samples.append({"ctx": c["ctx"], "kind": c["kind"], "bytes": c["hex"], "decoded": c["D"]["max"][5], "reencoded": c["D"]["max"][4]})
            break
    for c in cases[:2000:400] + cases[-2000::500]:
        d = c["D"].get("max") or ("?",)
        samples.append({"ctx": c["ctx"], "kind": c["kind"], "bytes": c["hex"][:160], "lex": c.get("L", "")[:120],
                        "decode_max": d[0] if d[0] != "ok" else "ok " + d[5][:120], "class": d[1] if d[0] == "err" else None})
    rep.coverage.update({
        "obligations": len(thms) + 2, "discharged": (len(thms) if ok else 0) + (1 if tie_ok else 0) + (1 if coq_ok else 0),
        "checker_cmd": "make -C coq; coqc Properties/C04.v; verif-harness codec %d %d %d %d | ocaml/driver_codec (extracted from coq/Extract/ExtractCodec.v); coqc Tables/CodecCasesGen.v Tables/CodecCasesCheck.v" % (seed, n_ast, n_edit, n_rand),
        "trusted_base": vlib.TRUSTED_BASE_COMMON + [
            "Coq extraction to OCaml (ExtrOcamlBasic only) and ocaml/driver_codec.ml (text parsing, key tables, printing); cross-checked on a sample by vm_compute inside Coq",
            "key validity (from_slice) and BIP67 order come from rust-bitcoin/secp256k1 via the harness",
            "the oracle's notion of 'same bytes / same length / same type' is plain equality on the implementation's own outputs"],
        "evaluations": len(cases), "distinct_nontrivial": nontriv,
        "rule": "per context (Segwitv0, Tap, Legacy, Bare): ~130 directed ASTs (number-size break points, multi/multi_a/thresh sizes, and_v associations, wrappers over and_v, pk_h, sortedmulti) + seeded type-directed random ASTs of base B/V/K/W, depth 0-4; every *VERIFY split/join of each encoding + a stratified sample of 60 edit kinds (push forms, number forms, key/hash lengths, drop/dup/swap, truncations, prefixes/suffixes, opcode swaps); scripts of other contexts; hand-made byte strings at the lock-time / depth / size / threshold limits; opcode soups; random bytes. non-trivial = some decoder accepted",
        "histogram": {"kind": dict(kinds), "fragments": {k[5:]: v for k, v in drv["hist"].items() if k.startswith("frag/")},
                      "context": {k[4:]: v for k, v in drv["hist"].items() if k.startswith("ctx/")},
                      "accept_reject": dict(acc), "reject_class_max": dict(rej),
                      "lexer_outcome": {k[4:]: v for k, v in drv["hist"].items() if k.startswith("lex/")}},
        "model_comparisons": s, "model_differences": len(drv["diff"]),
        "in_coq_sample_cases": len(sample), "in_coq_sample_equal": coq_ok,
        "oracle_failures_by_key": dict(nviol),
        "samples": samples[:12],
    })
    rep.assumptions = [
        "keys are abstract: a key table (kb, d_key) with d_key (kb k) = Some k stands for Ctx::Key::from_slice / serialisation",
        "decode_canonical is PROVED for the model of this tree (C04_decode_canonical: every accepted byte string is the encoding of the result), under denv_ok (the key table inverts key serialisation; key/hash lengths as the Rust types fix them); the former NUMEQUAL VERIFY counter-example is a regression theorem and its class (numequal-verify-split) stays in the oracle",
        "ValidationParams beyond MAX (consensus / sane switches, satisfaction-size limits) are modelled under C12; here the consensus and sane decoders are judged by the oracle only",
        "identical spending semantics is taken as identical script bytes (the Script semantics of C01 is a function of the bytes)"]

    # ---- stage decode-params (C04 x C12): decode_with_validation_params under many parameter sets vs
    #      Ms/DecodeParamsModel.decode_with, statements in Properties/C04DecodeParams.v
    if not replay:
        from props import c04_decparams
        o, d = c04_decparams.stage(rep, tier, seed, hbin)
        rep.coverage["obligations"] += o
        rep.coverage["discharged"] += d
