"""C13 -- the transaction interpreter agrees with real script execution (DESIGN 5/C13).

Proof side: coq/Properties/C13.v (model: coq/Ms/InterpModel.v; proofs: coq/Proofs/Interp*.v).
Tie: the `interp` harness engine runs Interpreter::from_txdata + iter (real signature
verification) on library satisfactions and their mutations under many (version, nLockTime,
nSequence) environments; ocaml/driver_interp runs the EXTRACTED model (InterpModel.interp /
interp_pk) on the miniscript the implementation decoded, the same stack and environment, and
compares verdict class and ordered constraint list; a sample of the same comparison is repeated
inside Coq by vm_compute (Tables/InterpCasesCheck.v) against the implementation's observations.
from_txdata (src/interpreter/inner.rs) is modelled in coq/Ms/InterpTxdataModel.v; the extracted model is run on
every spend (incl. the directed malformed stream `ftx-*` of harness/src/interp_ftx.rs) and compared with the real
outcome: fine error class, or output kind + key / chosen script (through the decoded text) + stack + script code.
Oracle (independent of the model): the same spend judged by the extracted Script specification
(verify_spend_ext) with the valid (key, signature) table of that transaction:
  * interpreter accepts  =>  specification accepts            (else: false accept, the replay)
  * library satisfaction of a sane descriptor that the specification accepts  =>  interpreter accepts
  * MUTATED spend the specification accepts, of a script that decode_consensus accepts in the output's
    context  =>  interpreter accepts   (interp_complete against the Script semantics; else: false reject, keyed
    by cause: base-sigversion-nonminimal-selector when the acceptance disappears once MINIMALIF is switched on
    for the same script and stack, else unexplained-reject:<kind>:<mutation>).  Scripts that are miniscripts
    only with the context's restrictions lifted (or_i / d: before segwit -- Coq's hypothesis [isel]) are refused
    by from_txdata whatever the stack: counted (out_of_language), and the model run on the permissively decoded
    miniscript must reject the non-minimal selectors as interp_complete_base_selector_refuted says.
  * reported constraints  =  checks of the executed path (extracted exec_tr/checks on the real script)
  * reported constraints satisfy the lifted policy (Descriptor::lift evaluated on the reported set)
False accepts are keyed by their cause (smallest counterfactual that makes the specification accept):
after-final-sequence, older-tx-version-1, sig-parse-laxity, noncanonical-script-reencoded,
script-elem-01-as-op1, nested-segwit-scriptsig-extra-push (accepted once the scriptSig is the single redeem
push), native-segwit-scriptsig-nonempty (accepted once the scriptSig is empty), sig-hashtype-byte-not-committed (accepted
once the signatures that are valid up to their hash-type byte count as valid); anything else is
`unexplained:<kind>:<mutation>`."""
import hashlib, json, os, re
import vlib

LEVEL = "proof"
DRIVER = os.path.join(vlib.VERIF, "ocaml", "driver_interp")


def build_driver():
    with vlib.Lock("ocaml-interp"):
        p = vlib.sh(["./build_interp.sh"], cwd=os.path.join(vlib.VERIF, "ocaml"), timeout=1200, stack_unlimited=True)
        if p.returncode != 0 or not os.path.exists(DRIVER):
            raise RuntimeError("extraction / driver_interp build failed: " + (p.stderr or p.stdout)[-3000:])


def _h(path):
    return hashlib.sha256(open(path, "rb").read()).hexdigest()[:16]


def sizes(tier):
    # (random descriptors, mutation budget per base spend); ~60 directed descriptors always run
    return (5000, 40) if tier == "thorough" else (220, 24)


def kv(line):
    d = {"line": line[:6000]}
    for m in re.finditer(r"(\w+)=(\S+)", line):
        d.setdefault(m.group(1), m.group(2)[:4000])
    return d


def run_engine(seed, n, budget, coq_samples=0):
    hbin = vlib.build_harness()
    build_driver()
    key = "%s-%s-%d-%d-%d-%d" % (_h(hbin), _h(DRIVER), seed, n, budget, coq_samples)
    cache = os.path.join(vlib.WORK, "interprun-%s.json" % key)
    if os.path.exists(cache):
        return json.load(open(cache))
    cmd = "%s interp %d %d %d 2>/dev/null | VERIF_COQ_SAMPLES=%d %s" % (hbin, seed, n, budget, coq_samples, DRIVER)
    p = vlib.sh(cmd, timeout=3000)
    if p.returncode != 0:
        raise RuntimeError("interp run failed: " + p.stderr[-2000:])
    res = {"bad": [], "diff": [], "summary": {}, "hist": {}, "samples": [], "coqcases": []}
    for line in p.stdout.splitlines():
        if line.startswith("BAD "):
            d = kv(line)
            d["what"] = line.split()[1]
            res["bad"].append(d)
        elif line.startswith("DIFF "):
            res["diff"].append(kv(line))
        elif line.startswith("SUMMARY"):
            res["summary"] = {k: int(v) for k, v in re.findall(r"(\w+)=(\d+)", line)}
        elif line.startswith("HIST "):
            _, k, v = line.split()
            res["hist"][k] = int(v)
        elif line.startswith("SAMPLE "):
            res["samples"].append(line[7:1500])
        elif line.startswith("COQCASE "):
            res["coqcases"].append(line[8:])
    if not res["summary"]:
        raise RuntimeError("driver_interp produced no summary: " + p.stdout[-2000:] + p.stderr[-2000:])
    os.makedirs(vlib.WORK, exist_ok=True)
    json.dump(res, open(cache, "w"))
    return res


def coq_sample_check(rep, cases):
    """Evaluate the sampled (ms, stack, env, implementation's observation) cases inside Coq."""
    tdir = os.path.join(vlib.COQ, "Tables")
    chunks = [cases[i:i + 200] for i in range(0, len(cases), 200)]
    with open(os.path.join(tdir, "InterpCasesGen.v"), "w") as f:
        f.write("(* generated by tools/props/c13.py from this run's observations of the implementation *)\n")
        f.write("From Verif Require Import InterpCasesDefs.\nLocal Open Scope N_scope.\n")
        for i, ch in enumerate(chunks):
            f.write("Definition icases_%d : list icase := [\n%s\n].\n" % (i, ";\n".join(ch)))
        f.write("Definition icases : list icase := %s.\n" % (" ++ ".join("icases_%d" % i for i in range(len(chunks))) or "[]"))
    with vlib.Lock("coq"):
        for f in ("Tables/InterpCasesDefs.v", "Tables/InterpCasesGen.v"):
            c = vlib.coqc(f)
            if c.returncode != 0:
                raise RuntimeError("%s does not compile: %s" % (f, (c.stderr or c.stdout)[-2000:]))
        c = vlib.coqc("Tables/InterpCasesCheck.v")
    out = re.sub(r"\s+", " ", c.stdout)
    ok = c.returncode == 0 and "= []" in out
    failing = []
    if not ok:
        m = re.search(r"= \[([^\]]*)\]", out)
        if m:
            failing = [x.strip() for x in m.group(1).split(";") if x.strip()]
    return ok, failing, (c.stderr or "")[-800:]


def report(rep, r, seed, n, budget, only_sid=None):
    for b in r["bad"]:
        if only_sid is not None and b.get("sid") != only_sid:
            continue
        what = b["what"]
        base = dict(b, property="C13", engine="interp", harness_args=[seed, n, budget])
        if what == "false-accept":
            for cause in b.get("cause", "unexplained").split("+"):
                rep.violation(cause, "interpreter accepts a spend real execution rejects (%s): %s mk=%s txv=%s lock=%s seq=%s" %
                              (cause, b.get("desc"), b.get("mk"), b.get("txv"), b.get("lock"), b.get("seq")),
                              dict(base, failed_clause="Interpreter accepts => verify_spend accepts", cause=cause), True)
        elif what == "false-reject":
            cause = b.get("cause", "unexplained-reject")
            rep.violation(cause, "interpreter rejects (%s) a mutated spend real execution accepts (%s): %s mk=%s ssig=%s wit=%s" %
                          (b.get("verdict"), cause, b.get("desc"), b.get("mk"), b.get("ssig"), b.get("wit")),
                          dict(base, failed_clause="verify_spend accepts => Interpreter accepts (interp_complete beyond the satisfier's outputs)", cause=cause), True)
        elif what == "complete":
            rep.violation("complete:%s:%s" % (b.get("kind"), b.get("verdict")),
                          "library satisfaction of a sane descriptor rejected by the interpreter (%s): %s" % (b.get("verdict"), b.get("desc")),
                          dict(base, failed_clause="get_satisfaction output (valid per the Script specification) => Interpreter accepts"), True)
        elif what == "constraints":
            rep.violation("constraints:%s" % b.get("kind"),
                          "reported constraints differ from the checks of the executed path: %s reported=%s executed=%s" %
                          (b.get("desc"), b.get("reported"), b.get("executed")),
                          dict(base, failed_clause="reported constraints = checks(exec_tr) on the real script"), True)
        elif what == "policy":
            rep.violation("policy:%s" % b.get("kind"), "reported constraints do not satisfy the lifted policy: %s cons=%s" % (b.get("desc"), b.get("cons")),
                          dict(base, failed_clause="lift(descriptor) evaluated on the reported set = true"), True)
        elif what == "panic":
            rep.violation("panic:interpreter", "the interpreter panicked: %s" % b.get("desc", b["line"][:200]),
                          dict(base, failed_clause="Interpreter::from_txdata / iter panicked"), True)
        else:
            rep.violation("driver:%s" % what, b["line"][:300], dict(base, broken_tie="ocaml/driver_interp"), False)
    if only_sid is None:
        for d in r["diff"]:
            if d.get("line", "").startswith("DIFF ftx"):
                rep.violation("tie:from_txdata-model", "model of Interpreter::from_txdata and implementation disagree: %s" % d.get("line", "")[:500],
                              dict(d, property="C13", harness_args=[seed, n, budget],
                                   broken_tie="correspondence Ms/InterpTxdataModel.v (from_txdata) vs src/interpreter/inner.rs: error class / "
                                              "output kind + key or chosen script / stack / script code; the spend itself was judged by the oracle"), False)
                continue
            rep.violation("tie:interp-model", "model of the interpreter and implementation disagree: %s" % d.get("line", "")[:400],
                          dict(d, property="C13", harness_args=[seed, n, budget],
                               broken_tie="correspondence InterpModel.v (interp / interp_pk) vs Interpreter::iter; "
                                          "the disagreeing spend was judged by the oracle: no property failure on it "
                                          "(a false accept / incompleteness would be reported separately)"), False)


def run(rep, tier, seed, replay):
    ok, thms = vlib.proof_gates(rep, "C13")
    n, budget = sizes(tier)
    if replay:
        rj = json.load(open(replay))
        a = rj.get("harness_args") or [seed, n, budget]
        r = run_engine(int(a[0]), int(a[1]), int(a[2]))
        report(rep, r, int(a[0]), int(a[1]), int(a[2]), only_sid=rj.get("sid"))
        rep.coverage.update({"obligations": 1, "discharged": 0 if rep.violations else 1, "evaluations": 1, "distinct_nontrivial": 1,
                             "checker_cmd": "replay of spend sid=%s with harness args %s" % (rj.get("sid"), a),
                             "trusted_base": vlib.TRUSTED_BASE_COMMON, "rule": "replay", "samples": [rj.get("line", "")[:500]]})
        return
    nsamp = 400 if tier == "thorough" else 120
    r = run_engine(seed, n, budget, nsamp)
    s = r["summary"]
    report(rep, r, seed, n, budget)
    coq_ok, failing, err = coq_sample_check(rep, r["coqcases"])
    if not coq_ok:
        rep.violation("tie:interp-model-coq", "in-Coq evaluation of the model on sampled cases differs from the implementation's observations "
                      "(failing sample indices: %s) %s" % (failing[:10], err[:300]),
                      {"property": "C13", "broken_tie": "Tables/InterpCasesCheck.v: model vs implementation on sampled spends (vm_compute)",
                       "failing": failing, "harness_args": [seed, n, budget]}, False)
    tie_ok = not r["diff"]
    hist = r["hist"]
    sub = lambda p: {k[len(p):]: v for k, v in sorted(hist.items()) if k.startswith(p)}
    rep.coverage.update({
        "obligations": len(thms) + 2, "discharged": (len(thms) if ok else 0) + (1 if tie_ok else 0) + (1 if coq_ok else 0),
        "checker_cmd": "make -C coq; coqc Properties/C13.v; verif-harness interp %d %d %d | ocaml/driver_interp (extracted by coq/Extract/ExtractInterp.v); "
                       "coqc Tables/InterpCasesGen.v Tables/InterpCasesCheck.v" % (seed, n, budget),
        "trusted_base": vlib.TRUSTED_BASE_COMMON + [
            "Coq extraction to OCaml (ExtrOcamlBasic only) and ocaml/driver_interp.ml (text parsing, table lookups); cross-checked on a sample by vm_compute",
            "Script semantics coq/Script/{Exec,ExecTrace,Ser,Spend,SpendWpkh}.v is a hand-written specification of consensus+standardness rules",
            "validity of (key, signature) pairs: secp256k1 + rust-bitcoin sighash in the harness (own parsing rules: strict DER, low S, standard hash types, BIP341 hash-type byte)",
            "taproot control-block commitment check by rust-bitcoin in the harness (TAPOK), modelled under C15",
            "the miniscript the interpreter runs is obtained with Miniscript::decode_consensus on the spend's script element (same call as inner.rs)"],
        "evaluations": s.get("spends", 0),
        "distinct_nontrivial": s.get("both_accept", 0) + s.get("false_accept", 0),
        "rule": "directed descriptor templates (all output types incl. pk/pkh/wpkh/sh(wpkh)/tr key path) + seeded type-directed generator "
                "(4/5 sane) in wsh, sh(wsh), sh, bare, tr(1-3 leaves); per descriptor the (version, nLockTime, nSequence) environments around each "
                "time lock (t-1, t, t+1, other unit, final 0xffffffff, disable bit, extra bits, version 1); per environment real signatures, the library's "
                "satisfactions (honest, malleable, optimistic about locks; key/preimage subsets) and seeded single + double mutations of witness and scriptSig, "
                "deterministic scriptSig-shape mutants (extra push in front / behind, non-empty scriptSig for native segwit) and non-minimal selectors; "
                "non-trivial = accepted by the interpreter (then judged by the Script specification, constraints and policy checked)",
        "cases": s.get("cases", 0), "summary": s,
        "mutation_kind_histogram": sub("mutation/"), "verdict_histogram": sub("verdict/"),
        "oracle_vs_impl": sub("oracle/"), "output_type_histogram": sub("kind/"), "environment_histogram": sub("env/"),
        "fragment_histogram": sub("frag/"),
        # mutated spends of scripts outside the context's language (or_i / d: before segwit) that real execution
        # accepts and from_txdata refuses to decode; on those with a non-minimal IF selector the extracted model,
        # run on the permissively decoded miniscript, rejects too: coq's interp_complete_base_selector_refuted
        "out_of_language_histogram": sub("lang/"), "refutation_reproduced": s.get("refutation_reproduced", 0),
        "from_txdata_model_equal": s.get("ftx_eq", 0), "from_txdata_model_different": s.get("ftx_diff", 0),
        "from_txdata_stack_equal": s.get("ftx_stack_eq", 0), "from_txdata_script_stack_code_equal_spec": s.get("ftx_inner_eq", 0),
        "from_txdata_outcome_histogram": sub("ftx/"),
        "model_runs_equal": s.get("model_eq", 0), "model_runs_different": s.get("model_diff", 0),
        "coq_sample_cases": len(r["coqcases"]), "coq_sample_ok": coq_ok,
        "samples": r["samples"][:12],
    })
    rep.assumptions = [
        "signatures are real (secp256k1) over the real sighash computed by rust-bitcoin; hash functions by bitcoin_hashes",
        "the specification side applies Bitcoin Core's standardness rules in addition to consensus (DESIGN App. A)",
        "iter_assume_sigs / iter_custom are exercised only through iter (real verification closure)"]
