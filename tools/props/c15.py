"""C15 — Taproot outputs commit to exactly the described script tree (DESIGN 5/C15).
Proof: Properties/C15.v (model Ms/TapTreeModel.v, proofs Proofs/TapTreeProofs.v).
Tie: the `tap` engine drives the compiled library over every tree shape with <= 8 (quick) / 9
(thorough) leaves, chains of every depth 1..129, random shapes; the implementation's results are
written as tables (Tables/TapCasesGen.v) and the MODEL's iterative algorithms are run on the same
shapes inside Coq and compared exactly (Tables/TapCasesCheck.v: tap_cases_match_model).
Oracle: every root / output key / control block / leaf order the implementation reports is judged
in the harness against BIP341's recursive definition computed with bitcoin::taproot primitives on
the harness's own tree datatype; a disagreement is a property violation with the tree as replay."""
import ast, json, os, re
import vlib

LEVEL = "proof"
COMPONENTS = ["merkle root", "spend-info items (leaf, depth, merkle path)", "TapTree::combine depth list",
              "parsed depth list (TapTreeBuilder)", "printed brace tokens (fmt_helper)", "translate_pk depth list", "to_tap_tree depth list",
              "case stream well-formed"]


def coq_val(text):
    """Parse the value printed by `Eval vm_compute in <tuple of lists of N>`."""
    m = re.search(r"=\s*(\(.*?\))\s*:\s*list", text, flags=re.S)
    if not m:
        return None
    s = m.group(1)
    s = re.sub(r"%N|%nat", "", s).replace(";", ",")
    s = re.sub(r"\s+", " ", s)
    try:
        return ast.literal_eval(s)
    except Exception:
        return None


def replay_obj(case, key, what):
    return {"property": "C15", "violated": key, "what": what, "case": case,
            "case_format": "ik=<internal key index>;kt=<c|x key type>;shape=<pre-order N/L string>;leaves=<kind:k1:k2:n per leaf>",
            "replay": "python3 tools/check.py C15 --replay <this file>  (runs `verif-harness tap <seed> <report> --case <case>`)"}


def run(rep, tier, seed, replay):
    hbin = vlib.build_harness()
    ok, thms = vlib.proof_gates(rep, "C15")
    os.makedirs(vlib.WORK, exist_ok=True)
    report_path = os.path.join(vlib.WORK, "tap_report_%d.json" % os.getpid())
    cmd = [hbin, "tap", str(seed), report_path]
    replay_case = None
    if replay:
        try:
            replay_case = json.load(open(replay)).get("case")
        except Exception:
            replay_case = None
        if replay_case and replay_case.startswith("ik="):
            cmd += ["--case", replay_case]
    with vlib.Lock("coq-tap"):
        p = vlib.sh(cmd, env={"VERIF_TIER": tier}, timeout=3000)
        if p.returncode != 0:
            raise RuntimeError("tap engine failed: " + p.stderr[-2000:])
        r = json.load(open(report_path))
        os.remove(report_path)
        open(os.path.join(vlib.COQ, "Tables", "TapCasesGen.v"), "w").write(p.stdout)
        c1 = vlib.coqc("Tables/TapCasesGen.v")
        if c1.returncode != 0:
            raise RuntimeError("generated case file does not compile: " + (c1.stderr or c1.stdout)[-2000:])
        c2 = vlib.coqc("Tables/TapCasesDefs.v")
        if c2.returncode != 0:
            raise RuntimeError("TapCasesDefs.v does not compile (model changed?): " + (c2.stderr or c2.stdout)[-2000:])
        c3 = vlib.coqc("Tables/TapCasesCheck.v")
        tie_ok = c3.returncode == 0
        diag = None
        if not tie_ok:
            c4 = vlib.coqc("Tables/TapCasesDiag.v")
            diag = coq_val(c4.stdout) if c4.returncode == 0 else None
            diag_err = (c4.stderr or c3.stderr)[-800:]

    # ---- thorough tier: the independent checker re-verifies the compiled proofs
    chk = None
    if tier == "thorough" and ok:
        pc = vlib.sh(["timeout", "1500", "coqchk", "-silent"] + vlib.COQ_Q + ["Verif.C15"], cwd=vlib.COQ, timeout=1600,
                     stack_unlimited=True)
        chk = pc.returncode == 0
        if not chk:
            rep.violation("coqchk", "coqchk rejects Properties/C15.vo: " + (pc.stderr or pc.stdout)[-800:],
                          {"property": "C15", "broken_tie": "coqchk Verif.C15"}, found_input=False)

    # ---- oracle: the implementation's own outputs judged against BIP341 (property violations)
    for v in r["violations"]:
        n = r["violation_counts"].get(v["key"], 1)
        rep.violation(v["key"], "%s  [%d such observation(s) this run]" % (v["what"], n),
                      replay_obj(v["case"], v["key"], v["what"]), found_input=True)

    # ---- tie: model vs implementation inside Coq
    n_diff = 0
    if not tie_ok:
        if diag is None:
            rep.violation("tie:diag", "tap_cases_match_model fails and the diagnosis did not run: " + diag_err,
                          {"property": "C15", "broken_tie": "Tables/TapCasesCheck.v: tap_cases_match_model"}, found_input=False)
        else:
            d_ok, d_rej, d_bad, m_ok, m_rej, m_bad = diag
            for idx, bits in d_ok:
                n_diff += 1
                case = r["coq_ok_specs"][idx] if idx < len(r["coq_ok_specs"]) else "?"
                comps = [COMPONENTS[i] for i, b in enumerate(bits) if not b and i < len(COMPONENTS)]
                if idx in r["flagged_ok"]:
                    continue   # already reported as a property violation (the oracle rejects the implementation's outputs for this tree)
                rep.violation("tie:" + ",".join(c.split(" ")[0] for c in comps),
                              "model and implementation differ on %s for a tree the BIP341 oracle accepts (case %s)" % (comps, case[:200]),
                              {"property": "C15", "broken_tie": "tap_cases_match_model (Tables/TapCasesCheck.v)", "components": comps,
                               "case": case, "oracle_verdict": "the implementation's outputs for this tree satisfy the BIP341 oracle"},
                              found_input=False)
            for idx, bits in d_rej:
                n_diff += 1
                case = r["coq_rej_specs"][idx] if idx < len(r["coq_rej_specs"]) else "?"
                if idx in r["flagged_rej"]:
                    continue
                rep.violation("tie:reject-class", "model and implementation give different outcomes for a tree above depth 128 (case %s)" % case[:200],
                              {"property": "C15", "broken_tie": "tap_cases_match_model", "case": case, "model_classes": str(m_rej)}, found_input=False)
            for idx, bits in d_bad:
                n_diff += 1
                case = r["coq_bad_specs"][idx] if idx < len(r["coq_bad_specs"]) else "?"
                if idx in r["flagged_bad"]:
                    continue
                rep.violation("tie:malformed-class", "model and implementation classify a malformed brace string differently: %s" % case[:300],
                              {"property": "C15", "broken_tie": "tap_cases_match_model", "text": case, "model_classes": str(m_bad)}, found_input=False)
            if not d_ok and not d_rej and not d_bad:
                rep.violation("tie:unknown", "tap_cases_match_model fails: " + (c3.stderr or c3.stdout)[-800:],
                              {"property": "C15", "broken_tie": "tap_cases_match_model"}, found_input=False)

    oracle_ok = not r["violations"]
    obligations = len(thms) + 2 + (1 if chk is not None else 0)
    discharged = (len(thms) if ok else 0) + (1 if tie_ok else 0) + (1 if oracle_ok else 0) + (1 if chk else 0)
    rep.coverage.update({
        "obligations": obligations, "discharged": discharged,
        "checker_cmd": "make -C coq (coqc 8.16.1) ; coqc Properties/C15.v ; verif-harness tap <seed> <report> > Tables/TapCasesGen.v ; "
                       "coqc Tables/TapCasesGen.v Tables/TapCasesDefs.v Tables/TapCasesCheck.v",
        "trusted_base": vlib.TRUSTED_BASE_COMMON + [
            "BIP341 oracle in harness/src/tap.rs (own tree type, TapLeafHash::from_script, TapNodeHash::from_node_hashes, tap_tweak, verify_taproot_commitment)",
            "Uint63 primitive integers (case packing only, evaluated by vm_compute; no axioms used)"],
        "evaluations": r["variants_observed"], "distinct_nontrivial": r["distinct_shapes"],
        "cases": r["cases"], "leaves_judged_by_oracle": r["leaves_judged"], "rejected_cases_above_128": r["rejected_cases"],
        "cases_compared_in_coq": {"accepted": r["coq_ok"], "depth_rejected": r["coq_rej"], "malformed": r["coq_bad"]},
        "differing_cases_in_coq": n_diff, "coqchk": chk,
        "rule": "every binary tree shape with <= %d leaves; left/right/zig-zag chains of every depth 1..128 and 129 (rejection); chains ending in "
                "full subtrees at depth 127..129; seeded random shapes up to 64 leaves; random deep spines around the limit; each built through "
                "TapTree::combine and through the parser, re-parsed from Display, translated with an injective key map (same key type and from named keys); "
                "every shape with 2..6 leaves (and random larger ones) built through the API with ONE Arc<Miniscript> shared by several leaf "
                "positions (each adjacent pair, distance-2 pairs, all, alternating, disjoint pairs, random runs), translated and also instantiated "
                "over wildcard xpub keys and derived with derive_at_index / derived_descriptor (expected keys by bitcoin::bip32); on every variant also "
                "Tr::address / Descriptor::address on all five networks (= address of OP_1 <oracle output key>) and TrSpendInfo::to_tap_tree "
                "(no panic, leaf multiset with merkle branches = BIP341 paths, root); PSBT output update (tap_internal_key, tap_tree) on derived descriptors"
                % (9 if tier == "thorough" else 8),
        "families": r["families"], "leaves_hist": r["leaves_hist"], "height_hist": r["height_hist"],
        "leaf_kind_hist": r["leaf_kind_hist"], "key_type_hist": r["key_type_hist"],
        "oracle_violation_counts": r["violation_counts"],
        "samples": r["samples"] or ["-"],
        "replayed_case": replay_case,
    })
    rep.assumptions = [
        "branchH is commutative (rust-bitcoin's TapNodeHash::from_node_hashes sorts its arguments) — hypothesis of the theorems, exercised by the oracle",
        "tweak law: tweak_check accepts the (output key, parity) that tweak produced (secp256k1 tap_tweak / tweak_add_check, not modelled)",
        "leaf script bytes of the five leaf templates are written by hand in the oracle (encoding in general is C04's subject)",
        "model arithmetic assumes overflow-checks (the harness profile): shift/add overflows are panics",
    ]
