"""C18 — policy transformations preserve meaning (DESIGN 5/C18).

Proof:  Properties/C18.v (theorems about the Gallina model Ms/PolSemantic.v, Ms/PolConcrete.v
        against the truth-table specification Ms/PolTruth.v).
Tie:    `verif-harness policy gen` runs the real Semantic/Concrete API on exhaustive families of
        small policies plus seeded random ones; the observations are written to
        Tables/PolicyCasesGen.v and Coq (vm_compute, Tables/PolicyCasesCheck.v) compares every
        output with the model's EXACTLY and also judges the implementation's own outputs with the
        truth-table oracle (so a mutation not mirrored by the model still fails as a property
        violation with a concrete policy + assignment)."""
import ast, collections, json, os, re
import vlib

LEVEL = "proof"
PID = "C18"

KEYS = "ABCDEFGHIJ"
FUNCS = {1: "normalized", 2: "sorted", 3: "n_keys", 4: "minimum_n_keys", 5: "at_age", 6: "at_lock_time",
         7: "entails", 8: "check_timelocks", 9: "lift"}
KNOWN_KEYS = {34: "minkeys-duplicate-keys"}


# ------------------------------------------------------------------ token <-> text
def dec_pol(t, i):
    """decode one policy from tokens t at i -> (nested tuple, next i)"""
    x = t[i]
    if x in (0, 1):
        return (x,), i + 1
    if 2 <= x <= 8:
        return (x, t[i + 1]), i + 2
    if x == 9:
        k, n = t[i + 1], t[i + 2]
        i += 3
        subs = []
        for _ in range(n):
            s, i = dec_pol(t, i)
            subs.append(s)
        return (9, k, subs), i
    if x in (10, 11):
        n = t[i + 1]
        i += 2
        subs = []
        for _ in range(n):
            s, i = dec_pol(t, i)
            subs.append(s)
        return (x, subs), i
    if x == 12:
        n = t[i + 1]
        i += 2
        subs = []
        for _ in range(n):
            w = t[i]
            c, i = dec_pol(t, i + 1)
            subs.append((w, c))
        return (12, subs), i
    raise ValueError("bad token %r" % x)


def kids(p):
    """children of a node (odds stripped)"""
    if p[0] == 9: return p[2]
    if p[0] in (10, 11): return p[1]
    if p[0] == 12: return [c for _, c in p[1]]
    return []


def show(p):
    x = p[0]
    if x == 0: return "UNSATISFIABLE"
    if x == 1: return "TRIVIAL"
    if x == 2: return "pk(%s)" % KEYS[p[1]]
    if x == 3: return "after(%d)" % p[1]
    if x == 4: return "older(%d)" % p[1]
    if x == 5: return "sha256(h%d)" % p[1]
    if x == 6: return "hash256(h%d)" % p[1]
    if x == 7: return "ripemd160(h%d)" % p[1]
    if x == 8: return "hash160(h%d)" % p[1]
    if x == 9: return "thresh(%d,%s)" % (p[1], ",".join(show(s) for s in p[2]))
    if x == 10: return "and(%s)" % ",".join(show(s) for s in p[1])
    if x == 11: return "or(%s)" % ",".join(show(s) for s in p[1])
    if x == 12: return "or(%s)" % ",".join("%d@%s" % (w, show(s)) for w, s in p[1])
    return "?"


def size_depth(p):
    subs = kids(p)
    if not subs:
        return 1, 1
    sd = [size_depth(s) for s in subs]
    return 1 + sum(a for a, _ in sd), 1 + max(b for _, b in sd)


def atoms(p, acc):
    if p[0] in (9, 10, 11, 12):
        for s in kids(p): atoms(s, acc)
    elif p[0] >= 2:
        acc.add(p)
    return acc


def has_const(p):
    if p[0] in (0, 1): return True
    return any(has_const(s) for s in kids(p))


def rpol(t, i):
    if t[i] == 99:
        return "PANIC", i + 1
    p, i = dec_pol(t, i)
    return show(p), i


def describe(t):
    """human-readable form of one observation line"""
    kind = t[0]
    if kind == 1:
        p, i = dec_pol(t, 1)
        d = {"kind": "semantic", "policy": show(p)}
        d["normalized"], i = rpol(t, i)
        d["normalized_idempotent"] = t[i]; i += 1
        d["sorted"], i = rpol(t, i)
        if t[i] == 1: d["n_keys"] = t[i + 1]; i += 2
        else: d["n_keys"] = "PANIC"; i += 1
        if t[i] == 0: d["minimum_n_keys"] = None; i += 1
        elif t[i] == 1: d["minimum_n_keys"] = t[i + 1]; i += 2
        else: d["minimum_n_keys"] = "PANIC"; i += 1
        na = t[i]; i += 1
        d["at_age"] = []
        for _ in range(na):
            u, v = t[i], t[i + 1]
            r, i = rpol(t, i + 2)
            d["at_age"].append({"age": ("%d blocks" % v) if u == 0 else ("%d*512s" % v), "result": r})
        nl = t[i]; i += 1
        d["at_lock_time"] = []
        for _ in range(nl):
            u, v = t[i], t[i + 1]
            r, i = rpol(t, i + 2)
            d["at_lock_time"].append({"lock_time": v, "unit": "height" if u == 0 else "seconds", "result": r})
        return d, p
    if kind == 2:
        p, i = dec_pol(t, 1)
        q, i = dec_pol(t, i)
        return {"kind": "entails", "policy": show(p), "other": show(q),
                "entails": {0: None, 1: False, 2: True, 99: "PANIC"}[t[i]]}, p
    if kind == 3:
        c, i = dec_pol(t, 1)
        d = {"kind": "concrete", "policy": show(c),
             "check_timelocks": {0: "Err(HeightTimelockCombination)", 1: "Ok", 99: "PANIC"}[t[i]]}
        l = t[i + 1]
        if l == 0:
            s, _ = dec_pol(t, i + 2)
            d["lift"] = show(s)
        else:
            d["lift"] = {1: "Err(HeightTimelockCombination)", 2: "Err(other)", 99: "PANIC"}[l]
        return d, c
    return {"kind": "?"}, None


def input_tokens(t):
    """the input part of an observation line, in the format of `verif-harness policy eval`"""
    kind = t[0]
    if kind == 1:
        _, i = dec_pol(t, 1)
        out = t[:i]
        j = i
        _, j = _skip_rpol(t, j); j += 1
        _, j = _skip_rpol(t, j)
        j += 2 if t[j] == 1 else 1
        j += 2 if t[j] == 1 else 1
        na = t[j]; j += 1
        ages = []
        for _ in range(na):
            ages += [t[j], t[j + 1]]
            _, j = _skip_rpol(t, j + 2)
        nl = t[j]; j += 1
        locks = []
        for _ in range(nl):
            locks += [t[j], t[j + 1]]
            _, j = _skip_rpol(t, j + 2)
        return out + [na] + ages + [nl] + locks
    if kind == 2:
        _, i = dec_pol(t, 1)
        _, i = dec_pol(t, i)
        return t[:i]
    _, i = dec_pol(t, 1)
    return t[:i]


def _skip_rpol(t, i):
    if t[i] == 99:
        return None, i + 1
    return dec_pol(t, i)


# ------------------------------------------------------------------ packing for Coq
def pack_line(tokens):
    slots = []

    def varint(v):
        while True:
            d = v & 31
            v >>= 5
            if v:
                slots.append(d | 32)
            else:
                slots.append(d)
                break
    varint(len(tokens))
    for t in tokens:
        varint(t)
    words = []
    for i in range(0, len(slots), 10):
        w = 0
        for j, sl in enumerate(slots[i:i + 10]):
            w |= sl << (6 * j)
        words.append(w)
    return words


def write_gen(lines, path, chunk=1000):
    out = ["(* generated by tools/props/c18.py from `verif-harness policy gen`; do not edit *)",
           "From Coq Require Import List Uint63.", "Import ListNotations.", "Open Scope uint63_scope."]
    names = []
    for i in range(0, len(lines), chunk):
        nm = "cases_w%d" % (i // chunk)
        names.append(nm)
        out.append("Definition %s : list (list int) := [%s]." % (
            nm, ";".join("[" + ";".join(map(str, pack_line(l))) + "]" for l in lines[i:i + chunk])))
    out.append("Definition cases_w : list (list int) := %s." % (" ++ ".join(names) if names else "[]"))
    with open(path, "w") as f:
        f.write("\n".join(out) + "\n")


def coq_value(text):
    """parse the value printed by `Eval vm_compute in ...` (nested lists/pairs of numbers)"""
    m = re.search(r"=\s*(.*?)\s*:\s*list", text, flags=re.S)
    if not m:
        return None
    s = re.sub(r"%N|%nat", "", m.group(1))
    s = re.sub(r"\bSome\b", "", s)
    s = s.replace(";", ",")
    s = re.sub(r"\s+", " ", s)
    return ast.literal_eval(s)




# ------------------------------------------------------------------ judging inside Coq (sharded, parallel)
def coqc_shard(sdir, src, out=None, timeout=3000):
    """compile <src> (relative to coq/) with the shard directory as an extra root of Verif"""
    cmd = ["timeout", str(timeout), "coqc", "-noglob"] + vlib.COQ_Q + ["-Q", sdir, "Verif"] + vlib.COQ_W
    if out:
        cmd += ["-o", out]
    return vlib.sh(cmd + [src], cwd=vlib.COQ, timeout=timeout + 60, stack_unlimited=True)


def judge_shard(sdir, lines, diag_only):
    os.makedirs(sdir, exist_ok=True)
    for f in os.listdir(sdir):
        os.remove(os.path.join(sdir, f))
    write_gen(lines, os.path.join(sdir, "PolicyCasesGen.v"))
    c1 = coqc_shard(sdir, os.path.join(sdir, "PolicyCasesGen.v"))
    if c1.returncode != 0:
        return None, False, "generated case file does not compile: " + c1.stderr[-1500:]
    ok = False
    if not diag_only:
        c2 = coqc_shard(sdir, "Tables/PolicyCasesCheck.v", os.path.join(sdir, "PolicyCasesCheck.vo"))
        v = coq_value(c2.stdout) if c2.stdout else None
        if c2.returncode == 0 and v is not None:
            return v, True, ""
    # on-break protocol: the diagnosis file evaluates the same judgement without the theorem and adds
    # a counter-assignment found by the oracle
    c3 = coqc_shard(sdir, "Tables/PolicyCasesDiag.v", os.path.join(sdir, "PolicyCasesDiag.vo"))
    v = coq_value(c3.stdout) if c3.returncode == 0 else None
    if v is None:
        return None, False, "cases_ok fails and the diagnosis did not run: " + (c3.stderr or c3.stdout)[-1500:]
    return v, ok, ""


def judge(lines, tag, diag_only=False):
    """-> (verdict entries with global indices, cases_ok proved on every shard, error text)"""
    import concurrent.futures
    stale = os.path.join(vlib.COQ, "Tables")
    for f in ("PolicyCasesGen.v", "PolicyCasesGen.vo", "PolicyCasesCheck.vo", "PolicyCasesDiag.vo"):
        if os.path.exists(os.path.join(stale, f)):
            os.remove(os.path.join(stale, f))
    c15 = vlib.coqc("Tables/PolicyCasesDefs.v")
    if c15.returncode != 0:
        raise RuntimeError("PolicyCasesDefs.v does not compile: " + c15.stderr[-2000:])
    k = max(1, min(12, (len(lines) + 3999) // 4000))
    shards = [lines[i::k] for i in range(k)]
    base = os.path.join(vlib.WORK, "c18-%s" % tag)
    with concurrent.futures.ThreadPoolExecutor(max_workers=k) as ex:
        res = list(ex.map(lambda i: judge_shard(os.path.join(base, "s%d" % i), shards[i], diag_only), range(k)))
    verdicts, all_ok, errs = [], True, []
    for i, (v, ok, err) in enumerate(res):
        all_ok = all_ok and ok
        if v is None:
            errs.append(err)
            continue
        for entry in v:
            verdicts.append((i + k * entry[0],) + tuple(entry[1:]))
    verdicts.sort(key=lambda e: e[0])
    return verdicts, all_ok, "; ".join(errs)

# ------------------------------------------------------------------ directed search (on-break protocol)
def enc_pol(p):
    x = p[0]
    if x in (0, 1): return [x]
    if 2 <= x <= 8: return [x, p[1]]
    if x == 9:
        out = [9, p[1], len(p[2])]
        for s in p[2]: out += enc_pol(s)
        return out
    if x == 12:
        out = [12, len(p[1])]
        for w, s in p[1]: out += [w] + enc_pol(s)
        return out
    out = [x, len(p[1])]
    for s in p[1]: out += enc_pol(s)
    return out


def variants(p, concrete):
    """policies near p: one leaf replaced, one threshold changed, p wrapped"""
    repl = [(0,), (1,), (2, 0), (2, 1), (4, 5), (4, 4194309), (3, 100), (3, 500000001)]
    out = []

    def rec(q, rebuild):
        x = q[0]
        if x == 9:
            k, subs = q[1], q[2]
            for k2 in (k - 1, k + 1):
                if 1 <= k2 <= len(subs):
                    out.append(rebuild((9, k2, subs)))
            if concrete:
                out.append(rebuild((10, subs)))
                out.append(rebuild((11, subs)))
            for i, s in enumerate(subs):
                rec(s, lambda n, i=i: rebuild((9, k, subs[:i] + [n] + subs[i + 1:])))
        elif x in (10, 11):
            subs = q[1]
            out.append(rebuild((21 - x, subs)))
            if subs:
                out.append(rebuild((12, [(0 if i == 0 else 1, c) for i, c in enumerate(subs)])))
            if subs:
                out.append(rebuild((9, len(subs), subs)))
            for i, s in enumerate(subs):
                rec(s, lambda n, i=i: rebuild((x, subs[:i] + [n] + subs[i + 1:])))
        elif x == 12:
            ws = q[1]
            out.append(rebuild((11, [c for _, c in ws])))
            out.append(rebuild((12, [(0, c) for _, c in ws])))
            out.append(rebuild((12, [(1 if w == 0 else 0, c) for w, c in ws])))
            for i, (w, c) in enumerate(ws):
                rec(c, lambda n, i=i, w=w: rebuild((12, ws[:i] + [(w, n)] + ws[i + 1:])))
        else:
            for r in repl:
                if r != q:
                    out.append(rebuild(r))
    rec(p, lambda n: n)
    for extra in repl:
        out.append((9, 1, [p, extra]))
        out.append((9, 2, [p, extra]))
        out.append((9, 2, [extra, p, (2, 2)]))
        if concrete:
            out.append((10, [p, extra]))
            out.append((10, [extra, p, (2, 2)]))
    return out[:400]


def neighbours(toks):
    kind = toks[0]
    res = []
    if kind == 1:
        p, i = dec_pol(toks, 1)
        tail = [6, 0, 0, 0, 4, 0, 5, 0, 10, 1, 5, 1, 10, 6, 0, 0, 0, 99, 0, 100, 0, 200, 1, 500000000, 1, 500000100]
        for v in variants(p, False):
            res.append([1] + enc_pol(v) + tail)
    elif kind == 2:
        p, i = dec_pol(toks, 1)
        q, i = dec_pol(toks, i)
        vs = variants(p, False)[:120]
        for v in vs:
            res.append([2] + enc_pol(v) + enc_pol(q))
            res.append([2] + enc_pol(q) + enc_pol(v))
        for v in variants(q, False)[:120]:
            res.append([2] + enc_pol(p) + enc_pol(v))
    else:
        c, i = dec_pol(toks, 1)
        for v in variants(c, True):
            res.append([3] + enc_pol(v))
    return res


def directed_search(hbin, tier, tdir, seeds):
    """run the implementation on inputs near the mismatching ones and let the oracle judge them"""
    inputs = []
    for t in seeds[:6]:
        inputs += neighbours(t)
    if not inputs:
        return [], []
    inp = os.path.join(vlib.WORK, "c18-directed-input.txt")
    with open(inp, "w") as f:
        for t in inputs:
            f.write(" ".join(map(str, t)) + "\n")
    lines = run_engine(hbin, ["eval", inp], tier)
    v, _, _ = judge(lines, "directed", diag_only=True)
    return v, lines

# ------------------------------------------------------------------ evidence helpers
def histogram(lines):
    h = collections.OrderedDict()
    kinds = collections.Counter()
    sizes = collections.Counter()
    depths = collections.Counter()
    natoms = collections.Counter()
    with_const = 0
    ent = collections.Counter()
    mink = collections.Counter()
    ct = collections.Counter()
    lift = collections.Counter()
    norm_root = collections.Counter()
    for t in lines:
        d, p = describe(t)
        kinds[d["kind"]] += 1
        s, dp = size_depth(p)
        sizes["%d-%d" % (1 + 5 * ((s - 1) // 5), 5 + 5 * ((s - 1) // 5))] += 1
        depths[dp] += 1
        natoms[len(atoms(p, set()))] += 1
        with_const += has_const(p)
        if d["kind"] == "entails":
            ent[str(d["entails"])] += 1
        elif d["kind"] == "semantic":
            mink["None" if d["minimum_n_keys"] is None else "Some"] += 1
            n = d["normalized"]
            norm_root["UNSATISFIABLE" if n == "UNSATISFIABLE" else "TRIVIAL" if n == "TRIVIAL" else
                      "thresh" if n.startswith("thresh") else "leaf"] += 1
        else:
            ct[d["check_timelocks"]] += 1
            lift["Ok" if not d["lift"].startswith(("Err", "PANIC")) else d["lift"]] += 1
    def zero_odds(q):
        return (q[0] == 12 and any(w == 0 for w, _ in q[1])) or any(zero_odds(c) for c in kids(q))

    def has_odds(q):
        return q[0] == 12 or any(has_odds(c) for c in kids(q))
    conc = [describe(t)[1] for t in lines if t[0] == 3]
    h["concrete_or_with_explicit_odds"] = sum(1 for c in conc if has_odds(c))
    h["concrete_or_with_a_zero_odds_branch"] = sum(1 for c in conc if zero_odds(c))
    h["by_kind"] = dict(kinds)
    h["by_size_nodes"] = dict(sorted(sizes.items(), key=lambda kv: int(kv[0].split("-")[0])))
    h["by_depth"] = dict(sorted(depths.items()))
    h["by_distinct_atoms"] = dict(sorted(natoms.items()))
    h["with_trivial_or_unsatisfiable_leaf"] = with_const
    h["entails_answers"] = dict(ent)
    h["minimum_n_keys_answers"] = dict(mink)
    h["normalized_root"] = dict(norm_root)
    h["check_timelocks_answers"] = dict(ct)
    h["lift_answers"] = dict(lift)
    return h


def run_engine(hbin, args, tier):
    p = vlib.sh([hbin, "policy"] + args, env={"VERIF_TIER": tier}, timeout=1800)
    if p.returncode != 0:
        raise RuntimeError("policy engine failed: " + p.stderr[-2000:])
    return [[int(x) for x in l.split()] for l in p.stdout.splitlines() if l.strip()]


def what_failed(code, d):
    f = FUNCS.get(code % 10, "?")
    if d["kind"] == "entails":
        return "%s.entails(%s) = %s" % (d["policy"], d["other"], d["entails"])
    if d["kind"] == "concrete":
        return "%s: check_timelocks = %s, lift = %s" % (d["policy"], d["check_timelocks"], d["lift"])
    v = d.get(f)
    return "%s(%s) = %s" % (f, d["policy"], json.dumps(v))


def run(rep, tier, seed, replay):
    hbin = vlib.build_harness()
    ok, thms = vlib.proof_gates(rep, PID)
    tdir = os.path.join(vlib.COQ, "Tables")
    os.makedirs(vlib.WORK, exist_ok=True)

    if replay:
        r = json.load(open(replay))
        toks = r.get("input_tokens")
        if not toks:
            raise RuntimeError("replay file has no input_tokens (it names a broken proof/tie, not an input)")
        inp = os.path.join(vlib.WORK, "c18-replay-input.txt")
        open(inp, "w").write(" ".join(map(str, toks)) + "\n")
        lines = run_engine(hbin, ["eval", inp], tier)
    else:
        lines = run_engine(hbin, ["gen", str(seed), tier], tier)

    verdicts, tie_ok, err = judge(lines, "replay" if replay else "main")
    if err:
        rep.violation("cases-diag", err, {"property": PID, "broken_tie": "Tables/PolicyCasesCheck.v: cases_ok", "log": err},
                      found_input=False)

    n_known = collections.Counter()
    mismatches = []
    for entry in verdicts:
        idx, codes = entry[0], entry[1]
        cex = entry[2] if len(entry) > 2 else None
        t = lines[idx]
        d, _ = describe(t)
        for code in codes:
            robj = dict(d)
            robj.update({"property": PID, "case_index": idx, "input_tokens": input_tokens(t), "code": code,
                         "function": FUNCS.get(code % 10, "decode"), "seed": seed, "tier": tier})
            if cex is not None:
                robj["counter_assignment_true_leaves"] = [show(dec_pol(c, 0)[0]) for c in cex]
            if code >= 30:
                n_known[code] += 1
                robj["judgement"] = "specification violated on this input (known class)"
                rep.violation(KNOWN_KEYS[code], what_failed(code, d), robj, True)
            elif code >= 20:
                robj["judgement"] = "the implementation's output violates the truth-table specification"
                rep.violation("spec:%s" % FUNCS[code % 10], what_failed(code, d), robj, True)
            else:
                mismatches.append((idx, code, robj))
    # model mismatches: a property failure on the same case was reported above with the input;
    # a mismatch alone is a broken correspondence
    spec_failed_cases = {e[0] for e in verdicts if any(20 <= c < 30 for c in e[1])}
    searched = 0
    if mismatches and not spec_failed_cases and not replay:
        # correspondence broken but every observed output still meets the specification:
        # look for a property failure on inputs near the mismatching ones
        seeds_in = []
        for idx, code, robj in mismatches:
            if robj["input_tokens"] not in seeds_in:
                seeds_in.append(robj["input_tokens"])
        dv, dlines = directed_search(hbin, tier, tdir, seeds_in)
        searched = len(dlines)
        for entry in dv:
            idx, codes, cex = entry[0], entry[1], (entry[2] if len(entry) > 2 else None)
            for code in codes:
                if 20 <= code < 30:
                    d2, _ = describe(dlines[idx])
                    robj = dict(d2)
                    robj.update({"property": PID, "input_tokens": input_tokens(dlines[idx]), "code": code,
                                 "function": FUNCS.get(code % 10), "seed": seed, "tier": tier,
                                 "found_by": "directed search around a case on which the implementation differs from the model",
                                 "judgement": "the implementation's output violates the truth-table specification"})
                    if cex is not None:
                        robj["counter_assignment_true_leaves"] = [show(dec_pol(c, 0)[0]) for c in cex]
                    rep.violation("spec:%s" % FUNCS[code % 10], what_failed(code, d2), robj, True)
                    spec_failed_cases.add(-1)
    for idx, code, robj in mismatches:
        if spec_failed_cases:
            break       # the broken correspondence is explained by a property failure reported with its input
        robj["directed_search_inputs_tried"] = searched
        robj["broken_tie"] = "model/code correspondence (Tables/PolicyCasesCheck.v: cases_ok), function %s" % robj["function"]
        robj["judgement"] = "implementation differs from the model; its output still satisfies the specification on this case"
        rep.violation("tie:%s" % robj["function"], "implementation differs from the model on " + what_failed(code, robj),
                      robj, False)

    n_cases = len(lines)
    per_case_checks = 0
    for t in lines:
        if t[0] == 1:
            d = describe(t)[0]
            per_case_checks += 4 + len(d["at_age"]) + len(d["at_lock_time"])
        elif t[0] == 2:
            per_case_checks += 1
        else:
            per_case_checks += 2
    obligations = len(thms) + 1
    discharged = (len(thms) if ok else 0) + (1 if tie_ok else 0)
    samples = []
    for i in list(range(0, min(n_cases, 24), 6)) + list(range(24, n_cases, max(1, n_cases // 12))):
        samples.append(describe(lines[i])[0])
    rep.coverage.update({
        "obligations": obligations, "discharged": discharged,
        "checker_cmd": "make -C coq ; coqc Properties/C18.v ; verif-harness policy gen %d %s | tools/props/c18.py -> "
                       "work/c18-main/s*/PolicyCasesGen.v ; coqc Tables/PolicyCasesCheck.v per shard (parallel)" % (seed, tier),
        "trusted_base": vlib.TRUSTED_BASE_COMMON + [
            "Uint63 primitive integers (unpacking of the observation words only; no axioms used)",
            "harness/src/policy.rs: construction of policies through the public constructors and read-back of results"],
        "evaluations": per_case_checks, "distinct_nontrivial": n_cases,
        "cases": n_cases, "cases_with_failed_check": len(verdicts),
        "known_class_hits": {KNOWN_KEYS[k]: v for k, v in sorted(n_known.items())},
        "rule": "exhaustive: every semantic policy <= %d nodes over {UNSAT,TRIVIAL,pk(A),pk(B),older(5),after(100)}, every "
                "semantic policy of 6..%d nodes over {UNSAT,TRIVIAL,pk(A)} (arity <= 3), entails on all ordered pairs of policies <= 3 x <= %d nodes "
                "over 5 leaves and on policies with 8..25 terminals over 2..5 atoms, "
                "every concrete policy <= 4 nodes (and/or/thresh arity 0..3; every or also with odds 0 on the first / last / all branches, a huge and equal odds) over 7 leaves (thorough: + all of 5 nodes over 5 leaves); + seeded random semantic / entailment / "
                "concrete cases up to 30 nodes and 8 distinct atoms; every output compared with the model and judged by the "
                "truth table over all assignments" % ((6, 8, 4) if tier == "thorough" else (5, 7, 3)),
        "input_distribution": histogram(lines),
        "samples": samples,
    })
    rep.assumptions = [
        "PolTruth.v is the intended truth-table reading of policies (thresholds count true children; older/after "
        "compare value within the same unit, BIP 68/112/65)",
        "entailment is specified over independent atoms (older(10) and older(5) are unrelated atoms), as DESIGN 5/C18 fixes",
        "keys and hashes are opaque atoms; String keys A..J are ordered like their indices",
    ]
