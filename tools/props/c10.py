"""C10 — text forms round-trip and the descriptor checksum detects corruption (DESIGN 5/C10).

Part A (proof): Properties/C10.v — checksum model (ChecksumModel.v) with linearity, printed =
  accepted, one/two-substitution rejection, BIP-380 equivalence.  Tie: the compiled engine is
  tabulated on ALL single characters, ALL two-character strings and seeded random strings /
  verify_checksum cases; the table is compared with the model inside Coq
  (Tables/ChecksumTablesCheck.v).  Oracle: substitution campaign against the real
  Descriptor::from_str (every accepted edit is a violation with the string as replay).
Part B (proof): expression-tree parser model (ExprTreeModel.v), tree_rt / tree_total; tie:
  parser observations on generated and edited strings compared with the model inside Coq.
Part C (correspondence/oracle only — the printers/parsers of descriptors, policies and keys are NOT
  modelled in Coq): differential round trips on the real code with an independent structural dump.
Part D (proof): miniscript text layer — model MsTextModel.v of Display for Terminal (to_tree) and of
  FromTree for Miniscript (from_tree), theorems C10_ms_print_parse / C10_ms_print_fixpoint /
  C10_ms_parse_valid / C10_ms_alias_meaning, composed with Part B: C10_ms_text_roundtrip / C10_ms_text_fixpoint; tie: Tree::from_str + Miniscript::from_tree + Display in the
  four contexts on generated (three spellings), exhaustive wrapper-prefix, directed malformed and edited
  texts, compared with the model inside Coq (Tables/MsTextCasesCheck.v)."""
import json, os, re
import vlib

LEVEL = "proof"
PID = "C10"


def _run_engine(hbin, args, tier, timeout=3000):
    p = vlib.sh([hbin, "text"] + args, env={"VERIF_TIER": tier}, timeout=timeout)
    if p.returncode != 0:
        raise RuntimeError("text engine %s failed: %s" % (args, p.stderr[-2000:]))
    return p


def coq_list_value(text):
    """Parse the value printed by `Eval vm_compute in ck_diag` (nested tuples/lists of N and nat)."""
    m = re.search(r"=\s*(\(.*\))\s*:\s", text, flags=re.S)
    if not m:
        return None
    s = m.group(1)
    s = re.sub(r"%(N|nat)", "", s).replace(";", ",")
    s = re.sub(r"\s+", " ", s)
    import ast
    try:
        return ast.literal_eval(s)
    except Exception:
        return None


def _bytes_str(bs):
    return "".join(chr(b) if 32 <= b < 127 else "\\x%02x" % b for b in bs)


def _decode_obs(code, engine):
    cls, val = code % 8, code // 8
    if cls == 0:
        if engine:
            return "Ok(" + "".join(chr((val >> (7 * i)) & 0x7f) for i in range(8)) + ")"
        return "Ok(payload_len=%d)" % val
    return {1: "InvalidCharacter(pos=%d)" % val, 2: "InvalidChecksumLength(actual=%d)" % val,
            3: "InvalidChecksum", 4: "panic"}.get(cls, "class%d(%d)" % (cls, val))


# ------------------------------------------------------------------------------------------
def part_a(rep, hbin, tier, seed, cov):
    """Checksum: table tie + substitution campaign.  Returns (obligations, discharged)."""
    tdir = os.path.join(vlib.COQ, "Tables")
    p = _run_engine(hbin, ["cktab", str(seed), tier], tier)
    open(os.path.join(tdir, "ChecksumTablesGen.v"), "w").write(p.stdout)
    m = re.search(r"CKTAB singles=(\d+) pairs=(\d+) random=(\d+) verify=(\d+) len_hist=(\[.*?\]) verify_class_hist=(\[.*?\])", p.stderr)
    tab = {"single_chars": int(m.group(1)), "two_char_strings": int(m.group(2)), "random_strings": int(m.group(3)),
           "verify_cases": int(m.group(4)),
           "random_length_hist[0,1-3,4-39,40-159,160-479,480-559,560+]": json.loads(m.group(5)),
           "verify_class_hist[ok,badchar,badlen,badsum,panic,inconsistent]": json.loads(m.group(6))} if m else {}
    cov["checksum_tables"] = tab
    samples = re.findall(r"CKSAMPLE (.*)", p.stderr)
    for f in ("Tables/ChecksumTablesGen.v", "Tables/ChecksumTablesDefs.v"):
        c = vlib.coqc(f)
        if c.returncode != 0:
            raise RuntimeError("%s does not compile: %s" % (f, (c.stderr or c.stdout)[-1500:]))
    c2 = vlib.coqc("Tables/ChecksumTablesCheck.v")
    tables_ok = c2.returncode == 0
    tie_broken = []
    if not tables_ok:
        c3 = vlib.coqc("Tables/ChecksumTablesDiag.v")
        val = coq_list_value(c3.stdout) if c3.returncode == 0 else None
        names = ["engine/single-char", "engine/two-char", "engine/random", "verify_checksum"]
        if val is None:
            tie_broken.append({"table": "?", "detail": (c3.stderr or c2.stderr)[-600:]})
        else:
            for name, rows in zip(names, val):
                for (i, bs, impl, model) in rows:
                    tie_broken.append({"table": name, "index": i, "input": _bytes_str(bs),
                                       "implementation": _decode_obs(impl, name != "verify_checksum"),
                                       "model": _decode_obs(model, name != "verify_checksum")})
    # substitution campaign on the real parser (runs always; it is also the directed search of
    # the on-break protocol: every accepted edit is a concrete failing input)
    q = _run_engine(hbin, ["cksub", str(seed), tier], tier)
    summ = re.search(r"SUMMARY descriptors=(\d+) sub1=(\d+) sub2=(\d+) sub4g0=(\d+) collision_checksums=(\d+) bad=(\d+)", q.stdout)
    descs = re.findall(r"^DESC (\d+) len=(\d+) pk=(\w+) (.*)$", q.stdout, flags=re.M)
    cov["substitution_campaign"] = {
        "descriptors": [{"len": int(l), "keys": "DescriptorPublicKey" if pk == "true" else "String", "text": t[:90]} for (_, l, pk, t) in descs],
        "single_substitutions_all_positions_x_all_characters": int(summ.group(2)) if summ else 0,
        "double_substitutions": int(summ.group(3)) if summ else 0,
        "double_mode": "all pairs for strings <= 80 chars + 400k samples each otherwise" if tier == "thorough" else "60k samples + all neighbour pairs per descriptor",
        "in_group0_3or4_substitutions": int(summ.group(4)) if summ else 0,
        "collision_sweep_checksums": int(summ.group(5)) if summ else 0,
    }
    found = False
    for m2 in re.finditer(r"^ACCEPTED kind=(\S+) desc=(\d+) pk=(\w+) (.*)$", q.stdout, flags=re.M):
        kind, di, pk, s = m2.groups()
        orig = descs[int(di)][3] if int(di) < len(descs) else "?"
        found = True
        rep.violation("ck-accepted:%s" % kind,
                      "a checksummed descriptor with %s substituted characters is accepted: %s" % (kind, s),
                      {"property": PID, "part": "checksum", "kind": kind, "original": orig, "edited": s,
                       "keys": "DescriptorPublicKey" if pk == "true" else "String",
                       "replay_line": "%s %s" % ("pk" if pk == "true" else "str", s)}, True)
    for m2 in re.finditer(r"^COLLISION kind=(\S+) desc=(\d+) confirmed=(\w+) pk=(\w+) (.*)$", q.stdout, flags=re.M):
        kind, di, conf, pk, s = m2.groups()
        orig = descs[int(di)][3] if int(di) < len(descs) else "?"
        if conf == "true":
            found = True
            rep.violation("ck-collision:%s" % kind,
                          "two checksummed descriptors at substitution distance <= 2 are both accepted: %s" % s,
                          {"property": PID, "part": "checksum", "kind": "collision-" + kind, "original": orig, "strings": s.split(" || "),
                           "replay_line": "%s %s" % ("pk" if pk == "true" else "str", s.split(" || ")[-1])}, True)
        else:
            tie_broken.append({"table": "collision sweep", "detail": "checksum collision at distance <= 2 (not a parsable descriptor): " + s})
    # meet-in-the-middle search for <= 4 in-group substitutions over the real engine's checksums
    # (complete for one 260-character key over an 18-character sub-alphabet if the engine is linear;
    # it is the directed search when the tie is broken; candidates are confirmed by Descriptor::from_str)
    mm = _run_engine(hbin, ["ckmitm", str(seed), tier], tier)
    ms = re.search(r"MITMSUMMARY singles=(\d+) pairs=(\d+) confirmed=(\d+)", mm.stdout)
    cov["substitution_campaign"]["mitm_in_group0"] = {"single_syndromes": int(ms.group(1)) if ms else 0,
                                                     "pair_syndromes_sorted": int(ms.group(2)) if ms else 0}
    for m2 in re.finditer(r"^MITM kind=(\S+) confirmed=(\w+) edits=(\d+) base=(\S+) edited=(\S+)$", mm.stdout, flags=re.M):
        kind, conf, ned, base, edited = m2.groups()
        if conf == "true":
            found = True
            rep.violation("ck-accepted:%s" % kind,
                          "a checksummed descriptor with %s in-group substituted characters is accepted: %s" % (ned, edited),
                          {"property": PID, "part": "checksum", "kind": kind, "original": base, "edited": edited,
                           "keys": "String", "replay_line": "str " + edited}, True)
        else:
            tie_broken.append({"table": "mitm", "detail": "engine checksums predict an accepted edit that the parser rejects: " + edited[:80]})
    for m2 in re.finditer(r"^PANIC kind=(\S+) desc=(\d+) pk=(\w+) (.*)$", q.stdout, flags=re.M):
        rep.violation("ck-panic", "Descriptor::from_str panics on an edited string: %s" % m2.group(4),
                      {"property": PID, "part": "checksum", "kind": "panic", "edited": m2.group(4)}, True)
    for m2 in re.finditer(r"^SETUP-FAIL (.*)$", q.stdout, flags=re.M):
        rep.violation("ck-setup", "campaign descriptor no longer parses: " + m2.group(1),
                      {"property": PID, "part": "checksum", "broken_tie": "campaign setup", "detail": m2.group(1)}, False)
    if tie_broken and not found:
        # the model/code correspondence broke and no accepted edit was found
        first = tie_broken[0]
        rep.violation("ck-tie", "checksum model and compiled engine differ: %s" % json.dumps(first)[:400],
                      {"property": PID, "part": "checksum", "broken_tie": "ck_tables_match_model (Tables/ChecksumTablesCheck.v)",
                       "differences": tie_broken[:20]}, False)
    elif tie_broken:
        cov["checksum_tie_differences"] = tie_broken[:20]
    cov.setdefault("samples", []).extend(samples[:6])
    return 1, (1 if tables_ok else 0)


def part_b(rep, hbin, tier, seed, cov):
    """Expression-tree parser: observations of the real parser vs the model, inside Coq."""
    tdir = os.path.join(vlib.COQ, "Tables")
    p = _run_engine(hbin, ["tree", str(seed), tier], tier)
    open(os.path.join(tdir, "ExprTreeTablesGen.v"), "w").write(p.stdout)
    m = re.search(r"TREE cases=(\d+) kinds=(\{.*?\}) outcomes=(\{.*?\})", p.stderr)
    cov["expression_tree"] = {"cases": int(m.group(1)) if m else 0,
                              "kinds": json.loads(m.group(2)) if m else {},
                              "outcomes[ok, errN = ParseTreeError class]": json.loads(m.group(3)) if m else {}}
    cov.setdefault("samples", []).extend(re.findall(r"TREESAMPLE (.*)", p.stderr)[:4])
    panics = (json.loads(m.group(3)).get("panic", 0) + json.loads(m.group(3)).get("inconsistent", 0)) if m else 0
    for f in ("Tables/ExprTreeTablesGen.v", "Tables/ExprTreeTablesDefs.v"):
        c = vlib.coqc(f)
        if c.returncode != 0:
            raise RuntimeError("%s does not compile: %s" % (f, (c.stderr or c.stdout)[-1500:]))
    c2 = vlib.coqc("Tables/ExprTreeTablesCheck.v")
    ok = c2.returncode == 0
    if not ok:
        c3 = vlib.coqc("Tables/ExprTreeTablesDiag.v")
        val = None
        mm = re.search(r"=\s*(\[.*\])\s*:\s*list", c3.stdout, flags=re.S) if c3.returncode == 0 else None
        if mm:
            import ast
            try:
                val = ast.literal_eval(re.sub(r"\s+", " ", re.sub(r"%(N|nat)", "", mm.group(1)).replace(";", ",")))
            except Exception:
                val = None
        diffs = []
        for row in (val or []):
            (i, bs, impl, model) = row
            diffs.append({"index": i, "input": _bytes_str(bs), "implementation_obs": list(impl), "model_obs": list(model)})
        # judge with the specification side: a panic of the real parser is a failing input of the
        # property (C10/C11: no string may crash the parser); so is a tree whose re-printed text differs
        failing = [d for d in diffs if d["implementation_obs"][:1] in ([2], [3])]
        if failing:
            d = failing[0]
            rep.violation("tree-panic", "expression::Tree::from_str panics or returns an inconsistent tree on %r" % d["input"],
                          {"property": PID, "part": "expression-tree", "input": d["input"], "observation": d["implementation_obs"],
                           "model": d["model_obs"]}, True)
        else:
            # accepted-by-one-side cases: the string itself is the witness when the implementation accepts
            # a string that is not the text of any tree (the model's verdict is an error) or vice versa
            wit = None
            for d in diffs:
                if (d["implementation_obs"][:1] == [0]) != (d["model_obs"][:1] == [0]):
                    wit = d
                    break
            if wit is not None:
                rep.violation("tree-accept", "expression::Tree::from_str and the model disagree on acceptance of %r" % wit["input"],
                              {"property": PID, "part": "expression-tree", "input": wit["input"],
                               "implementation": wit["implementation_obs"], "model": wit["model_obs"],
                               "broken_tie": "tree_cases_match_model"}, True)
            else:
                rep.violation("tree-tie", "expression-tree model and parser differ: %s" % json.dumps(diffs[:1])[:400],
                              {"property": PID, "part": "expression-tree", "broken_tie": "tree_cases_match_model (Tables/ExprTreeTablesCheck.v)",
                               "differences": diffs, "log": (c2.stderr or c2.stdout)[-500:] if not diffs else ""}, False)
    return 1, (1 if ok else 0)


def part_d(rep, hbin, tier, seed, cov):
    """Miniscript text layer (Display / FromTree): real parser + printer vs MsTextModel, inside Coq."""
    tdir = os.path.join(vlib.COQ, "Tables")
    p = _run_engine(hbin, ["mstext", str(seed), tier], tier)
    open(os.path.join(tdir, "MsTextCasesGen.v"), "w").write(p.stdout)
    m = re.search(r"MSTEXT cases=(\d+) printed=(\d+) context_only=(\d+) kinds=(\{.*?\}) outcomes=(\{.*?\})", p.stderr)
    outcomes = json.loads(m.group(5)) if m else {}
    cov["miniscript_text_layer"] = {
        "cases": int(m.group(1)) if m else 0,
        "printed_texts_compared_with_model_printer": int(m.group(2)) if m else 0,
        "kinds": json.loads(m.group(4)) if m else {},
        "outcomes[ok, errN = error class of from_tree (50 = expression-tree error, 16 = from_ast)]": outcomes,
        "contexts": "Bare, Legacy, Segwitv0, Tap (a ContextError observation is not compared)"}
    cov.setdefault("samples", []).extend(re.findall(r"MSTEXTSAMPLE (.*)", p.stderr)[:4])
    for f in ("Tables/MsTextCasesGen.v", "Tables/MsTextCasesDefs.v"):
        c = vlib.coqc(f)
        if c.returncode != 0:
            raise RuntimeError("%s does not compile: %s" % (f, (c.stderr or c.stdout)[-1500:]))
    c2 = vlib.coqc("Tables/MsTextCasesCheck.v")
    ok = c2.returncode == 0
    if not ok:
        c3 = vlib.coqc("Tables/MsTextCasesDiag.v")
        diffs = []
        mm = re.search(r"=\s*(\[.*\])\s*:\s*list", c3.stdout, flags=re.S) if c3.returncode == 0 else None
        if mm:
            import ast
            txt = re.sub(r"%(N|nat)", "", mm.group(1)).replace(";", ",")
            txt = re.sub(r"\bSome\b\s*", "", txt).replace("None", "None")
            try:
                val = ast.literal_eval(re.sub(r"\s+", " ", txt))
            except Exception:
                val = []
            for row in val:
                (i, text, impl, model, ipr, mpr) = row
                diffs.append({"index": i, "input": _bytes_str(text), "implementation_obs[bare,legacy,segwitv0,tap]": [list(o) for o in impl],
                              "model_obs": list(model),
                              "implementation_printed": _bytes_str(ipr) if ipr is not None else None,
                              "model_printed": _bytes_str(mpr) if mpr is not None else None})
        # judge with the specification side: the round trip itself, on the real code
        fail = None
        if diffs:
            tmp = os.path.join(vlib.WORK, "c10-mstext-replay.txt")
            os.makedirs(vlib.WORK, exist_ok=True)
            cand = []
            for d in diffs:
                cand.append(d["input"])
                if d["implementation_printed"]:
                    cand.append(d["implementation_printed"])
            open(tmp, "w").write("".join("ms-segwit %s\nms-tap %s\n" % (t, t) for t in cand))
            q = _run_engine(hbin, ["rt", "1", tier, tmp], tier)
            for ri, (kind, res) in enumerate(re.findall(r"^REPLAY kind=(\S+) (.*)$", q.stdout, flags=re.M)):
                bad = ("panic" in res) or ("reparse-error" in res) or ("verdict=FAIL" in res)
                m2 = re.search(r"dump=(.*?) printed=(.*?) redump=(.*?) reprinted=(.*)$", res)
                if m2 and (m2.group(1) != m2.group(3) or m2.group(2) != m2.group(4)):
                    bad = True
                if bad:
                    # lines were written as (ms-segwit t, ms-tap t) per candidate text t
                    fail = (kind, res, cand[ri // 2] if ri // 2 < len(cand) else "")
                    break
            for d in diffs:
                if any(o[:1] == [2] for o in d["implementation_obs[bare,legacy,segwitv0,tap]"]):
                    fail = fail or ("ms-segwit", "from_tree panics on %r" % d["input"], d["input"])
        if fail:
            rep.violation("mstext-rt", "miniscript text round trip fails on the real code: %s" % fail[1][:500],
                          {"property": PID, "part": "round-trip", "key": "mstext-rt", "kind_line": "%s %s" % (fail[0], fail[2]),
                           "differences": diffs, "seed": seed, "tier": tier}, True)
        else:
            rep.violation("mstext-tie", "miniscript text model and parser/printer differ: %s" % json.dumps(diffs[:1])[:500],
                          {"property": PID, "part": "miniscript-text", "broken_tie": "mstext_cases_match_model (Tables/MsTextCasesCheck.v)",
                           "differences": diffs, "log": (c2.stderr or c2.stdout)[-500:] if not diffs else ""}, False)
    return 1, (1 if ok else 0)


def part_e(rep, hbin, tier, seed, cov):
    """Key text (FromStr / Display of DescriptorPublicKey): real parser + printer vs KeyTextModel, inside Coq."""
    tdir = os.path.join(vlib.COQ, "Tables")
    # statements file of this part (registered by the coordinator on merge; gated here the same way)
    t2, b2, pr2, _ = vlib.check_property_file("C10KeyText")
    if pr2:
        rep.violation("property-file", "; ".join(pr2),
                      {"property": PID, "broken_tie": "Properties/C10KeyText.v", "problems": pr2}, found_input=False)
    cov.setdefault("theorems_extra", []).extend(t2)
    cov["key_text_print_assumptions"] = [("closed" if b["closed"] else ",".join(b["axioms"])) for b in b2]
    n_ob = len(t2) + 1
    n_ok = len(t2) if not pr2 else 0
    p = vlib.sh([hbin, "keytext", str(seed), tier], env={"VERIF_TIER": tier}, timeout=3000)
    if p.returncode != 0:
        raise RuntimeError("keytext engine failed: %s" % p.stderr[-2000:])
    open(os.path.join(tdir, "KeyTextCasesGen.v"), "w").write(p.stdout)
    m = re.search(r"KEYTEXT cases=(\d+) accepted=(\d+) reparse_ok=(\d+) kinds=(\{.*?\}) outcomes=(\{.*?\}) shapes=(\{.*?\})", p.stderr)
    cov["key_text_layer"] = {
        "cases": int(m.group(1)) if m else 0,
        "accepted": int(m.group(2)) if m else 0,
        "accepted_whose_printed_text_reparses_equal": int(m.group(3)) if m else 0,
        "kinds": json.loads(m.group(4)) if m else {},
        "outcomes[ok-*, errN = error class of DescriptorPublicKey::from_str as numbered in KeyTextModel.key_err_code]": json.loads(m.group(5)) if m else {},
        "shapes_of_accepted_keys": json.loads(m.group(6)) if m else {},
        "compared": "structure dump (origin, body, path(s), wildcard) or error class; Display text; reparse-equal flag; body validity from the bitcoin crate"}
    cov.setdefault("samples", []).extend(re.findall(r"KEYTEXTSAMPLE (.*)", p.stderr)[:4])
    # keys built as VALUES on the BIP32 depth limit (depth + steps + wildcard = 253..256, xpub depth 0 / 5 / 250,
    # every wildcard, single path and multipath): Display then FromStr must give back an equal value when the
    # total is <= 255 (C10_key_print_parse: these values are wf_dkey); judged on the real code only
    mv = re.search(r"KEYVALUES n=(\d+) within_limit=(\d+) within_limit_roundtrip_ok=(\d+) over_limit=(\d+) over_limit_rejected=(\d+)", p.stderr)
    cov["key_text_layer"]["values_on_the_depth_limit"] = {
        "constructed": int(mv.group(1)) if mv else 0, "total<=255": int(mv.group(2)) if mv else 0,
        "total<=255_printed_then_parsed_equal": int(mv.group(3)) if mv else 0,
        "total=256": int(mv.group(4)) if mv else 0, "total=256_rejected_by_parser": int(mv.group(5)) if mv else 0}
    vfails = re.findall(r"^KEYVALUEFAIL (.*?) :: (.*?) :: (.*)$", p.stderr, flags=re.M)
    if vfails or not mv or int(mv.group(2)) == 0:
        if vfails:
            desc, result, text = vfails[0]
            rep.violation("keytext-value-rt",
                          "a DescriptorPublicKey built as a value within the BIP32 depth limit (%s) prints as %r, which FromStr does not give back: %s (%d such value(s))"
                          % (desc, text[:160] + ("..." if len(text) > 160 else ""), result, len(vfails)),
                          {"property": PID, "part": "round-trip", "key": "keytext-value-rt", "input": text, "value": desc,
                           "result": result, "all": [{"value": a, "result": b, "printed": c} for a, b, c in vfails[:20]],
                           "seed": seed, "tier": tier}, True)
        else:
            rep.violation("keytext-values", "the keytext engine reported no constructed values", {"property": PID, "broken_tie": "verif-harness keytext (KEYVALUES)"}, False)
    if not m or int(m.group(1)) < 1500:
        rep.violation("keytext-volume", "keytext engine produced too few cases: %s" % (p.stderr[-300:],),
                      {"property": PID, "broken_tie": "verif-harness keytext"}, False)
        return n_ob, 0
    for f in ("Tables/KeyTextCasesGen.v", "Tables/KeyTextCasesDefs.v"):
        c = vlib.coqc(f)
        if c.returncode != 0:
            raise RuntimeError("%s does not compile: %s" % (f, (c.stderr or c.stdout)[-1500:]))
    c2 = vlib.coqc("Tables/KeyTextCasesCheck.v")
    ok = c2.returncode == 0
    if not ok:
        c3 = vlib.coqc("Tables/KeyTextCasesDiag.v")
        diffs = []
        mm = re.search(r"=\s*(\[.*\])\s*:\s*list", c3.stdout, flags=re.S) if c3.returncode == 0 else None
        if mm:
            import ast
            txt = re.sub(r"%(N|nat)", "", mm.group(1)).replace(";", ",")
            try:
                val = ast.literal_eval(re.sub(r"\s+", " ", txt))
            except Exception:
                val = []
            for row in val:
                (i, text, impl, model, ipr, mpr) = row
                diffs.append({"index": i, "input": _bytes_str(text), "implementation_obs": list(impl), "model_obs": list(model),
                              "implementation_printed": _bytes_str(ipr[2:]) if ipr[:1] == [1] else None,
                              "implementation_reparse_equal": (ipr[1] == 1) if ipr[:1] == [1] else None,
                              "model_printed": _bytes_str(mpr[2:]) if mpr[:1] == [1] else None})
        # judge with the specification side: the round trip itself, on the real code
        fail = None
        for d in diffs:
            if d["implementation_obs"][:1] == [2]:
                fail = (d["input"], "DescriptorPublicKey::from_str panics")
                break
            if d["implementation_reparse_equal"] is False:
                fail = (d["input"], "accepted, printed as %r, which does not parse back to an equal key" % d["implementation_printed"])
                break
        if fail is None and diffs:
            # replay the differing texts and their printed forms through the real parser/printer once more
            tmp = os.path.join(vlib.WORK, "c10-keytext-replay.txt")
            os.makedirs(vlib.WORK, exist_ok=True)
            cand = []
            for d in diffs:
                cand.append(d["input"])
                if d["implementation_printed"]:
                    cand.append(d["implementation_printed"])
            open(tmp, "w").write("".join(t + "\n" for t in cand))
            q = vlib.sh([hbin, "keytext", "1", tier, tmp], timeout=600)
            for (idx, acc, pr, re_eq, pan) in re.findall(r"^KEYOBS (\d+) accepted=(\d) printed=(.*?) reparse_equal=(\S+) panic=(\d)$", q.stderr, flags=re.M):
                if pan == "1" or (acc == "1" and re_eq == "0"):
                    fail = (cand[int(idx)] if int(idx) < len(cand) else "", "round trip fails: printed=%s reparse_equal=%s panic=%s" % (pr, re_eq, pan))
                    break
                # the printed form must be a fixed point: printing the reparse gives the same text
                if acc == "1" and pr != "-" and int(idx) < len(cand) and cand[int(idx)] in [d["implementation_printed"] for d in diffs] and pr != cand[int(idx)]:
                    fail = (cand[int(idx)], "printed form is not a fixed point: prints again as %s" % pr)
                    break
        if fail:
            rep.violation("keytext-rt", "key text round trip fails on the real code: %r %s" % (fail[0][:300], fail[1][:300]),
                          {"property": PID, "part": "round-trip", "key": "keytext-rt", "input": fail[0],
                           "differences": diffs, "seed": seed, "tier": tier}, True)
        else:
            rep.violation("keytext-tie", "key text model and DescriptorPublicKey parser/printer differ: %s" % json.dumps(diffs[:1])[:600],
                          {"property": PID, "part": "key-text", "broken_tie": "keytext_cases_match_model (Tables/KeyTextCasesCheck.v)",
                           "differences": diffs, "log": (c2.stderr or c2.stdout)[-500:] if not diffs else ""}, False)
    return n_ob, n_ok + (1 if ok else 0)


RT_REPLAY_KIND = {"miniscript/bare": "ms-bare", "miniscript/legacy": "ms-legacy", "miniscript/segwitv0": "ms-segwit",
                  "miniscript/tap": "ms-tap"}


def part_c(rep, hbin, tier, seed, cov):
    """Differential round trips on the real printers/parsers (not modelled in Coq)."""
    p = _run_engine(hbin, ["rt", str(seed), tier], tier)
    kinds = {}
    for m in re.finditer(r"^RT kind=(\S+) generated=(\d+) accepted=(\d+)$", p.stdout, flags=re.M):
        kinds[m.group(1)] = {"generated": int(m.group(2)), "accepted_by_parser_and_round_tripped": int(m.group(3))}
    hist = {}
    for m in re.finditer(r"^HIST (\S+) (\d+)$", p.stdout, flags=re.M):
        fam, _, key = m.group(1).partition("/")
        hist.setdefault(fam, {})[key] = int(m.group(2))
    cov["round_trips"] = {"objects_per_kind": kinds,
                          "miniscript_fragment_histogram": hist.get("ms-frag", {}),
                          "miniscript_text_length_hist(50s)": hist.get("ms-len", {}),
                          "descriptor_text_length_hist(100s)": hist.get("desc-len", {}),
                          "key_forms": hist.get("key-form", {}),
                          "descriptor_parser_reject_classes": hist.get("desc-reject", {}),
                          "wallet_policy_key_shapes": hist.get("wallet-policy-keys", {}),
                          "deep_taproot_tree_shapes": sorted(hist.get("tr-deep", {}).keys()),
                          "directed_lock_values": sorted(hist.get("lock-value", {}).keys()),
                          "directed_lock_reject_classes": hist.get("lock-reject", {})}
    cov.setdefault("samples", []).extend(re.findall(r"^SAMPLE (.*)$", p.stdout, flags=re.M)[:10])
    n = 0
    for m in re.finditer(r"^FAIL key=(\S+) what=(.*?) input=(.*)$", p.stdout, flags=re.M):
        key, what, inp = m.groups()
        n += 1
        obj = {"property": PID, "part": "round-trip", "key": key, "what": what, "input": inp, "seed": seed, "tier": tier}
        mctx = re.search(r"\((bare|legacy|segwitv0|tap)\)", what)
        mlk = re.search(r"\(miniscript-(bare|legacy|segwitv0|tap)\)", what)
        if key.startswith("rt:lock:") and mlk:
            obj["kind_line"] = "%s %s" % ({"bare": "ms-bare", "legacy": "ms-legacy", "segwitv0": "ms-segwit", "tap": "ms-tap"}[mlk.group(1)], inp)
        if key.startswith("rt:tr-deep:"):
            obj["kind_line"] = "trdeep " + inp
        if key.startswith("rt:ms:") and mctx:
            text = inp.split(" (from ")[0].split(" || ")[0]
            obj["kind_line"] = "%s %s" % ({"bare": "ms-bare", "legacy": "ms-legacy", "segwitv0": "ms-segwit", "tap": "ms-tap"}[mctx.group(1)], text)
        rep.violation(key, "%s :: %s" % (what[:600], inp[:600]), obj, True)
    total = sum(k["generated"] for k in kinds.values())
    return total, n


def replay_file(rep, hbin, tier, path):
    """--replay: re-run the recorded input against the current tree."""
    obj = json.load(open(path))
    part = obj.get("part")
    if part == "checksum" and "replay_line" in obj:
        tmp = os.path.join(vlib.WORK, "c10-replay.txt")
        os.makedirs(vlib.WORK, exist_ok=True)
        open(tmp, "w").write(obj["replay_line"] + "\n")
        q = _run_engine(hbin, ["cksub", "1", tier, tmp], tier)
        for m in re.finditer(r"^REPLAY accepted=(\w+) (.*)$", q.stdout, flags=re.M):
            if m.group(1) == "true":
                rep.violation("ck-accepted:replay", "edited checksummed descriptor is accepted: " + m.group(2), obj, True)
        rep.coverage.update({"obligations": 1, "discharged": 1, "evaluations": 1, "distinct_nontrivial": 1,
                             "rule": "replay of one recorded input", "samples": [obj.get("replay_line")],
                             "checker_cmd": "verif-harness text cksub <replay>", "trusted_base": vlib.TRUSTED_BASE_COMMON})
        return True
    if part == "expression-tree" and "input" in obj:
        # re-observe the recorded string with the real parser and compare with the recorded model verdict
        tmp = os.path.join(vlib.WORK, "c10-replay.txt")
        os.makedirs(vlib.WORK, exist_ok=True)
        open(tmp, "w").write(obj["input"] + "\n")
        q = _run_engine(hbin, ["treeobs", "1", tier, tmp], tier)
        for m in re.finditer(r"^TREEOBS (\[.*?\]) (.*)$", q.stdout, flags=re.M):
            obs = json.loads(m.group(1))
            want = obj.get("model") or obj.get("model_obs")
            if obs[:1] in ([2], [3]) or (want is not None and obs[:len(want)] != want[:len(obs)]):
                rep.violation("tree-replay", "expression::Tree::from_str on %r gives %s, the model %s" % (m.group(2)[:80], obs[:12], want), obj, True)
        rep.coverage.update({"obligations": 1, "discharged": 1, "evaluations": 1, "distinct_nontrivial": 1,
                             "rule": "replay of one recorded input", "samples": [obj["input"][:200]],
                             "checker_cmd": "verif-harness text treeobs <replay>", "trusted_base": vlib.TRUSTED_BASE_COMMON})
        return True
    if part == "round-trip" and obj.get("kind_line"):
        tmp = os.path.join(vlib.WORK, "c10-replay.txt")
        os.makedirs(vlib.WORK, exist_ok=True)
        open(tmp, "w").write(obj["kind_line"] + "\n")
        q = _run_engine(hbin, ["rt", "1", tier, tmp], tier)
        out = re.findall(r"^REPLAY kind=(\S+) (.*)$", q.stdout, flags=re.M)
        for kind, res in out:
            bad = ("panic" in res) or ("reparse-error" in res) or ("verdict=FAIL" in res)
            m = re.search(r"dump=(.*?) printed=(.*?) redump=(.*?) reprinted=(.*)$", res)
            if m and (m.group(1) != m.group(3) or m.group(2) != m.group(4)):
                bad = True
            if bad:
                rep.violation(obj.get("key", "rt:replay"), "round trip fails: %s" % res[:600], obj, True)
        rep.coverage.update({"obligations": 1, "discharged": 1, "evaluations": 1, "distinct_nontrivial": 1,
                             "rule": "replay of one recorded input", "samples": [obj["kind_line"][:200]],
                             "checker_cmd": "verif-harness text rt <replay>", "trusted_base": vlib.TRUSTED_BASE_COMMON})
        return True
    # anything else (decoded scripts, descriptors, keys, policies): the generators are deterministic in the
    # recorded seed, so the full check replays the input
    return False


# ---------------------------------------------------------------- closers (extension round 2)
def _paren_depth(s):
    d = m = 0
    for ch in s:
        if ch == "(":
            d += 1
            m = max(m, d)
        elif ch == ")":
            d -= 1
    return m


def part_closers(rep, hbin, tier, seed, cov):
    """Properties/C10Closers.v (depth hypothesis derived from the accepted input) + its tie on the real code:
    directed deep texts in expanded spellings, printed form must not be deeper and must parse to the same object."""
    thms, blocks, problems, _ = vlib.check_property_file("C10Closers")
    if problems:
        rep.violation("property-file", "; ".join(problems),
                      {"property": PID, "broken_tie": "Properties/C10Closers.v", "problems": problems}, found_input=False)
    cov.setdefault("theorems_closers", thms)
    cov["print_assumptions_closers"] = [("closed" if b["closed"] else ",".join(b["axioms"])) for b in blocks]
    depths = [1, 2, 7, 60, 200, 380, 396, 397, 398, 399, 400, 401, 402] + ([150, 300, 390, 395] if tier == "thorough" else [])
    fams = {
        "or_i(0,X)->l:": lambda d: "or_i(0," * d + "pk(A)" + ")" * d,
        "or_i(X,0)->u:": lambda d: "or_i(" * d + "pk(A)" + ",0)" * d,
        "and_v(X,1)->t:": lambda d: "and_v(" + "v:and_v(" * (d - 1) + "vc:pk_k(A)" + ",1)" * d,
        "c:pk_k->pk under and_v chain": lambda d: "and_v(vc:pk_k(A)," * d + "c:pk_k(B)" + ")" * d,
        "andor(X,Y,0)->and_n": lambda d: "andor(pk(A)," * d + "pk(B)" + ",0)" * d,
        "plain or_d chain": lambda d: "or_d(pk(A)," * d + "pk(B)" + ")" * d,
        "thresh chain": lambda d: "thresh(1," * d + "pk(B)" + ")" * d,
        "sugar l: prefix": lambda d: "l" * min(d, 400) + ":pk(A)",
        "sugar u: prefix": lambda d: "u" * min(d, 400) + ":pk(A)",
        "sugar tv: prefix": lambda d: "tv" * min(d, 199) + ":pk(A)",
        "sugar and_n chain": lambda d: "and_n(pk(A)," * d + "pk(B)" + ")" * d,
        "mixed l:tv:": lambda d: "or_i(0,and_v(v:" * ((d + 1) // 2) + "pk(A)" + ",1))" * ((d + 1) // 2),
    }
    lines, meta = [], []
    for name, f in fams.items():
        for d in depths:
            t = f(d)
            for kind in ("ms-segwit", "ms-tap"):
                lines.append("%s %s" % (kind, t))
                meta.append((name, d, kind, t))
    tmp = os.path.join(vlib.WORK, "c10-closers.txt")
    os.makedirs(vlib.WORK, exist_ok=True)
    open(tmp, "w").write("\n".join(lines) + "\n")
    q = _run_engine(hbin, ["rt", "1", tier, tmp], tier)
    out = re.findall(r"^REPLAY kind=(\S+) (.*)$", q.stdout, flags=re.M)
    accepted = rejected = shallower = same = 0
    maxdepth_accepted = 0
    samples = []
    obligations = 1 + len(meta)
    bad = 0 if not problems else 1
    if len(out) != len(meta):
        rep.violation("closers:engine", "text rt replay returned %d lines for %d texts" % (len(out), len(meta)),
                      {"property": PID, "broken_tie": "text rt (closers stage)"}, found_input=False)
        return obligations, 0
    for (name, d, kind, t), (k2, res) in zip(meta, out):
        din = _paren_depth(t)
        robj = {"property": PID, "part": "round-trip", "key": "closers:depth", "kind_line": "%s %s" % (kind, t),
                "family": name, "nesting": d, "input_depth": din}
        if res.startswith("rejected:"):
            rejected += 1
            continue
        m = re.search(r"dump=(.*?) printed=(.*?) redump=(.*?) reprinted=(.*)$", res)
        if not m:
            bad += 1
            rep.violation("closers:reparse", "accepted text of depth %d (%s): printed form does not parse back: %s" % (din, name, res[:300]), robj, True)
            continue
        accepted += 1
        dout = _paren_depth(m.group(2))
        maxdepth_accepted = max(maxdepth_accepted, din)
        if dout > din or dout > 402:
            bad += 1
            rep.violation("closers:depth", "printed form is deeper than the accepted text (%d > %d, %s)" % (dout, din, name), robj, True)
        elif m.group(1) != m.group(3) or m.group(2) != m.group(4):
            bad += 1
            rep.violation("closers:fixpoint", "printed form parses to a different object (%s, depth %d)" % (name, din), robj, True)
        else:
            if dout < din:
                shallower += 1
            else:
                same += 1
            if len(samples) < 4 and d == 2:
                samples.append("%s -> %s" % (t, m.group(2)))
    if accepted < len(fams) or shallower == 0 or same == 0:
        bad += 1
        rep.violation("closers:vacuous", "directed deep texts: accepted=%d shallower=%d same=%d" % (accepted, shallower, same),
                      {"property": PID, "broken_tie": "closers stage generator"}, found_input=False)
    cov["closers_depth_stage"] = {"texts": len(meta), "accepted": accepted, "rejected": rejected,
                                  "printed_shallower": shallower, "printed_same_depth": same,
                                  "deepest_accepted_input": maxdepth_accepted, "families": sorted(fams)}
    cov.setdefault("samples", []).extend(samples)
    return obligations, obligations - bad


def run(rep, tier, seed, replay):
    hbin = vlib.build_harness()
    from props import c10_poltext
    if replay and c10_poltext._replay_poltext(rep, hbin, replay):
        return
    if replay:
        if replay_file(rep, hbin, tier, replay):
            return
        try:
            obj = json.load(open(replay))
            seed = int(obj.get("seed", seed))
            tier = obj.get("tier", tier)
        except Exception:
            pass
    ok, thms = vlib.proof_gates(rep, PID)
    cov = {}
    obligations, discharged = len(thms), (len(thms) if ok else 0)
    o, d = part_a(rep, hbin, tier, seed, cov)
    obligations += o
    discharged += d
    o, d = part_b(rep, hbin, tier, seed, cov)
    obligations += o
    discharged += d
    o, d = part_d(rep, hbin, tier, seed, cov)
    obligations += o
    discharged += d
    o, d = part_e(rep, hbin, tier, seed, cov)
    obligations += o
    discharged += d
    o, d = part_closers(rep, hbin, tier, seed, cov)
    obligations += o
    discharged += d
    o, d = c10_poltext.part_e(rep, hbin, tier, seed, cov)   # policy text layer (Properties/C10PolText.v)
    obligations += o
    discharged += d
    rt_total, rt_fail = part_c(rep, hbin, tier, seed, cov)
    camp = cov.get("substitution_campaign", {})
    tab = cov.get("checksum_tables", {})
    evaluations = (tab.get("single_chars", 0) + tab.get("two_char_strings", 0) + tab.get("random_strings", 0) + tab.get("verify_cases", 0)
                   + camp.get("single_substitutions_all_positions_x_all_characters", 0) + camp.get("double_substitutions", 0)
                   + camp.get("in_group0_3or4_substitutions", 0) + camp.get("collision_sweep_checksums", 0)
                   + cov.get("expression_tree", {}).get("cases", 0) + cov.get("miniscript_text_layer", {}).get("cases", 0)
                   + cov.get("key_text_layer", {}).get("cases", 0) + rt_total
                   + sum(cov.get("policy_text_layer", {}).get(k, 0) for k in ("text_cases", "concrete_values_built_with_enum_constructors",
                                                                              "semantic_values_built_with_enum_constructors")))
    rep.coverage.update(cov)
    rep.coverage.update({
        "obligations": obligations, "discharged": discharged,
        "checker_cmd": "make -C coq ; coqc Properties/C10.v ; verif-harness text cktab | coqc Tables/ChecksumTables{Gen,Defs,Check}.v ; verif-harness text cksub ; "
                       "verif-harness text mstext | coqc Tables/MsTextCases{Gen,Defs,Check}.v",
        "trusted_base": vlib.TRUSTED_BASE_COMMON + [
            "bech32 0.11.1 primitives::checksum::Engine is modelled (input_fe, mul_by_x_then_add, unpack), tied by the tables",
            "Uint63 primitive integers (table transport only, evaluated by vm_compute; no axioms used)",
            "MiniscriptKey/FromStr of keys and hashes (opaque in the text theorems: hypothesis parse (print x) = Some x); "
            "Tables/MsTextCasesDefs.v instantiates them for String keys (bijective base-256 numeration) and hash160 hex"],
        "evaluations": evaluations, "distinct_nontrivial": evaluations,
        "rule": "checksum: engine on all 95 single characters, all 9025 two-character strings, seeded random strings and "
                "verify_checksum cases, compared with the model in Coq; every 1-substitution (position x character) and sampled "
                "2-/in-group 3-4-substitutions of checksummed descriptors of 12 lengths against Descriptor::from_str; collision sweep; "
                "expression-tree parser on every string over {a ( ) { } ,} up to length 5 (6 thorough) plus generated/edited/deep/wide strings, "
                "compared with the model in Coq; miniscript text layer (from_tree AST or error class, Display text) in four contexts on "
                "generated texts in three spellings, every wrapper prefix of length <= 2 (3 thorough; sampled in quick) over every fragment kind, "
                "directed malformed texts and seeded edits, compared with the model in Coq; print/parse/print of generated miniscripts (4 contexts, every alias spelling), descriptors, "
                "keys, policies, wallet policies with an independent structural dump",
    })
    rep.coverage["levels"] = {"checksum (Part A)": "proof + complete table tie + substitution campaign",
                              "expression tree (Part B)": "proof (see notes/C10.md for what is proved) + tie in Coq",
                              "miniscript text layer: Display / from_tree (Part D)":
                                  "proof (print-parse, fixed point, alias meaning; keys/hashes opaque, from_ast an arbitrary check) + tie in Coq",
                              "printers/parsers of descriptor, key, policy, wallet policy; miniscript context rules (Part C)":
                                  "correspondence/oracle only: differential round trips on the real code, not modelled in Coq"}
    rep.assumptions = [
        "ChecksumModel.v transcribes checksum.rs and the bech32 engine it instantiates (tied on every run by the complete 1-/2-character tables and random strings)",
        "the BIP-380 reference algorithm in ChecksumModel.v (bip380_*) is a transcription of the BIP's Python",
        "MsTextModel.v transcribes display.rs (as_node, fragment_name, conditional_fmt) and Miniscript::from_tree with the expression helpers it calls (tied on every run by Tables/MsTextCasesCheck.v)",
        "miniscript text theorems: keys and hashes are opaque atoms whose parser inverts their printer (parse (print x) = Some x) and, for the text-level theorems, whose printed form consists of name characters; Miniscript::from_ast is an arbitrary boolean check (the type check in the tie)",
    ]
    # key text part (Part E)
    rep.assumptions += [
        "KeyTextModel.v transcribes impl FromStr for DescriptorPublicKey (parse_key_origin, parse_xkey_deriv, bip32::ChildNumber::from_str, depth limit) and the Display impls (tied on every run by Tables/KeyTextCasesCheck.v)",
        "key text theorems: the cryptographic bodies (base58check xpub/tpub, hex points) are parameters with the hypothesis bodies_ok (parser inverts printer, alphanumeric, xpub/tpub prefix and >= 64 characters, 66/130 characters with prefix 02/03/04, 64 hex characters); the tie takes body validity, canonical text and depth from the bitcoin crate",
    ]
    rep.coverage["levels"]["key text: FromStr / Display of DescriptorPublicKey (Part E)"] = \
        "proof (print-parse for all well-formed keys, parse-valid, fixed point, canonical form, no panic; bodies abstract) + tie in Coq"
    rep.coverage["checker_cmd"] += " ; coqc Properties/C10KeyText.v ; verif-harness keytext | coqc Tables/KeyTextCases{Gen,Defs,Check}.v"
    rep.coverage["rule"] += "; key text: DescriptorPublicKey::from_str structure or error class, Display text and reparse-equal flag on structurally generated valid keys, single keys, 56 kinds of mutations and directed (depth limit, short, non-ASCII) texts, compared with the model in Coq"
