"""C05 — fragment typing equals the specification's tables (DESIGN 5/C05).
Proof: Properties/C05.v (finite sweeps lifted by forallb_forall + induction for thresh).
Tie: COMPLETE tabulation of every rule function of the compiled code, compared with the
model inside Coq (Tables/TypeTablesCheck.v: tables_match_model)."""
import ast, os, re
import vlib

LEVEL = "proof"

TABLES = ["leaves(corr)", "leaves(mall)", "leaves(Type)", "Correctness::cast_alt", "Correctness::cast_swap",
          "Correctness::cast_check", "Correctness::cast_dupif", "Correctness::cast_verify", "Correctness::cast_nonzero",
          "Correctness::cast_zeronotequal", "Correctness::cast_true", "Correctness::cast_or_i_false",
          "Correctness::and_b", "Correctness::and_v", "Correctness::or_b", "Correctness::or_d", "Correctness::or_c",
          "Correctness::or_i", "Correctness::and_or", "Correctness::threshold/1", "Correctness::threshold/2",
          "Correctness::threshold/3", "Correctness::is_subtype", "Malleability::is_subtype",
          "Malleability::cast_alt", "Malleability::cast_swap", "Malleability::cast_check", "Malleability::cast_dupif",
          "Malleability::cast_verify", "Malleability::cast_nonzero", "Malleability::cast_zeronotequal",
          "Malleability::cast_true", "Malleability::cast_or_i_false", "Malleability::and_b", "Malleability::and_v",
          "Malleability::or_b", "Malleability::or_d", "Malleability::or_c", "Malleability::or_i", "Malleability::and_or",
          "Malleability::threshold/1", "Malleability::threshold/2", "Malleability::threshold/3", "Malleability::threshold/4"]
ARITY = {"Correctness::and_or": 3, "Malleability::and_or": 3}

BASES = "BKVW"
INPUTS = ["z", "o", "any", "on", "n"]
DISS = ["f", "e", "?"]


def corr_name(i):
    return "%s/%s%s%s" % (BASES[i // 20], INPUTS[(i // 4) % 5], "d" if (i // 2) % 2 else "", "u" if i % 2 else "")


def mall_name(i):
    return "%s%s%s" % (DISS[i // 4], "s" if (i // 2) % 2 else "", "m" if i % 2 else "")


def describe(tid, row, impl, model):
    name = TABLES[tid]
    dom, nm, base = (80, corr_name, "Correctness") if name.startswith("Correctness") or "corr" in name else (12, mall_name, "Malleability")
    args = []
    if "threshold" in name and base == "Malleability":
        n = int(name[-1]); li, k = row // n, row % n + 1
        idx = []
        for _ in range(n):
            idx.append(li % 12); li //= 12
        args = ["k=%d" % k] + [mall_name(i) for i in reversed(idx)]
    elif "leaves" in name:
        args = ["leaf#%d" % row]
    else:
        ar = 1
        if name in ARITY: ar = ARITY[name]
        elif name.endswith("/2") or name.split("::")[-1] in ("and_b", "and_v", "or_b", "or_d", "or_c", "or_i", "is_subtype"): ar = 2
        elif name.endswith("/3"): ar = 3
        r = row; idx = []
        for _ in range(ar):
            idx.append(r % dom); r //= dom
        args = [nm(i) for i in reversed(idx)]
    def res(c):
        if base == "Malleability" or "is_subtype" in name: return mall_name(c) if "is_subtype" not in name else str(c)
        return corr_name(c) if c < 100 else "Err#%d" % (c - 100)
    return {"function": name, "children": args, "implementation": res(impl), "model": res(model)}


def unpack_table(text, name):
    words = []
    for m in re.finditer(r"Definition %s_p\d+ : list int := \[([^\]]*)\]" % re.escape(name), text):
        words += [int(w) for w in m.group(1).split(";") if w]
    codes = []
    for w in words:
        for k in range(6):
            codes.append((w >> (10 * k)) & 1023)
    return codes


def samples(text):
    """A few actual rows of the implementation's graph, decoded (taken from this run's tables)."""
    out = []
    for tid, name, rows in ((12, "tbl_c_and_b", [81, 1700]), (18, "tbl_c_and_or", [3, 262144 + 77]),
                            (39, "tbl_m_and_or", [500, 1001]), (36, "tbl_m_or_d", [15, 77]),
                            (42, "tbl_m_thresh3", [100, 4000])):
        codes = unpack_table(text, name)
        for r in rows:
            if r < len(codes):
                d = describe(tid, r, codes[r], codes[r]); d.pop("model"); out.append(d)
    return out


def coq_to_py(text):
    m = re.search(r"=\s*(\(.*\))\s*:\s*list", text, flags=re.S)
    if not m:
        return None
    s = m.group(1)
    s = re.sub(r"%N", "", s)
    s = s.replace(";", ",").replace("true", "True").replace("false", "False")
    s = re.sub(r"\s+", " ", s)
    return ast.literal_eval(s)


def run(rep, tier, seed, replay):
    hbin = vlib.build_harness()
    ok, thms = vlib.proof_gates(rep, "C05")
    tdir = os.path.join(vlib.COQ, "Tables")
    p = vlib.sh([hbin, "tables", str(seed)], env={"VERIF_TIER": tier}, timeout=1800)
    if p.returncode != 0:
        raise RuntimeError("tables engine failed: " + p.stderr[-2000:])
    open(os.path.join(tdir, "TypeTables.v"), "w").write(p.stdout)
    pairing = re.search(r"PAIRING evaluations=(\d+) mismatches=(\d+) first=(.*)", p.stderr)
    rows = sum(int(x) for x in re.findall(r"_len : N := (\d+)%N", p.stdout))
    c1 = vlib.coqc("Tables/TypeTables.v")
    if c1.returncode != 0:
        raise RuntimeError("generated table file does not compile: " + c1.stderr[-2000:])
    c15 = vlib.coqc("Tables/TypeTablesDefs.v")
    if c15.returncode != 0:
        raise RuntimeError("TypeTablesDefs.v does not compile: " + c15.stderr[-2000:])
    c2 = vlib.coqc("Tables/TypeTablesCheck.v")
    tables_ok = c2.returncode == 0 and "= []" in re.sub(r"\s+", " ", c2.stdout)
    n_diff = 0
    if not tables_ok:
        # on-break protocol: find the differing rows and judge each against the specification
        c3 = vlib.coqc("Tables/TypeTablesDiag.v")
        val = coq_to_py(c3.stdout) if c3.returncode == 0 else None
        if val is None:
            rep.violation("tables-diag", "tables_match_model fails and the diagnosis did not run: " + (c3.stderr or c2.stderr)[-800:],
                          {"property": "C05", "broken_tie": "Tables/TypeTablesCheck.v: tables_match_model"}, found_input=False)
        else:
            diag, rand, pm = val
            for tid, rws in diag:
                for (row, impl, model, grade) in rws:
                    n_diff += 1
                    d = describe(tid, row, impl, model)
                    d.update({"property": "C05", "table": tid, "row": row, "impl_code": impl, "model_code": model,
                              "spec_grade_of_impl_row": {0: "violates the specification row (stronger claim or different rejection)",
                                                         1: "more conservative than the specification row, not a declared deviation",
                                                         2: "satisfies all specification clauses"}[grade],
                              "broken_tie": "tables_match_model (Tables/TypeTablesCheck.v)"})
                    if grade == 0:
                        rep.violation("spec:%s" % TABLES[tid],
                                      "%s%s = %s violates the specification row (model: %s)" % (d["function"], d["children"], d["implementation"], d["model"]), d, True)
                    else:
                        rep.violation("tie:%s" % TABLES[tid],
                                      "%s%s = %s differs from the model (%s); %s" % (d["function"], d["children"], d["implementation"], d["model"], d["spec_grade_of_impl_row"]), d, False)
            for (row, grade) in rand:
                n_diff += 1
                rep.violation("thresh-random", "Type::threshold on random list #%d differs from model (spec grade %d)" % (row, grade),
                              {"property": "C05", "function": "Type::threshold", "random_row": row, "seed": seed,
                               "spec_grade_of_impl_row": grade, "broken_tie": "tables_match_model"}, grade == 0)
            if pm:
                rep.violation("pairing", "Type::f is not the pair (Correctness::f, Malleability::f): %s" % (pairing.group(3) if pairing else "?"),
                              {"property": "C05", "broken_tie": "pairing check in harness tables engine", "first": pairing.group(3) if pairing else None}, False)
            if not diag and not rand and not pm:
                rep.violation("tables-unknown", "tables_match_model fails: " + (c2.stderr or c2.stdout)[-800:],
                              {"property": "C05", "broken_tie": "tables_match_model"}, False)
    # dispatch tie: the type the library attaches to a generated fragment (Type::type_check choosing the
    # rule of each constructor, and the sugar-cast rules t:/l:/u:) equals the model's type_of
    import satrun
    satrun.build_driver()
    nfr = 3000 if tier == "thorough" else 900
    pd = vlib.sh("set -o pipefail; %s frags %d %d 2>/dev/null | %s --types-only" % (hbin, seed, nfr, satrun.DRIVER), timeout=1200)
    msum = re.search(r"SUMMARY05 types=(\d+) bad=(\d+)", pd.stdout)
    if pd.returncode != 0 or not msum or "ENDFRAGS" not in pd.stdout:
        raise RuntimeError("type dispatch run failed: " + (pd.stdout + pd.stderr)[-1500:])
    dispatch_ok = int(msum.group(2)) == 0
    for line in [l for l in pd.stdout.splitlines() if l.startswith("BAD C05")][:5]:
        kv = dict(re.findall(r"(\w+)=(\S+)", line))
        ms = line.split(" ms=", 1)[1] if " ms=" in line else ""
        rep.violation("dispatch:%s" % ms.split(" ")[0], "the library types a fragment differently from the specification: library %s, model %s on %s (%s)"
                      % (kv.get("library_type"), kv.get("model_type"), ms, kv.get("ctx")),
                      {"property": "C05", "engine": "frags --types-only", "seed": seed, "n": nfr, "ctx": kv.get("ctx"), "ms": ms,
                       "library_type": kv.get("library_type"), "model_type": kv.get("model_type")}, True)
    obligations = len(thms) + 2
    discharged = (len(thms) if ok else 0) + (1 if tables_ok else 0) + (1 if dispatch_ok else 0)
    rep.coverage.update({
        "obligations": obligations, "discharged": discharged,
        "checker_cmd": "make -C coq (coqc 8.16.1) ; coqc Properties/C05.v ; verif-harness tables | coqc Tables/TypeTables.v Tables/TypeTablesCheck.v",
        "trusted_base": vlib.TRUSTED_BASE_COMMON + ["Uint63 primitive integers (table packing only, evaluated by vm_compute; no axioms used)"],
        "exhaustive": True,
        "table_rows_compared_in_coq": rows,
        "pairing_evaluations_in_harness": int(pairing.group(1)) if pairing else 0,
        "differing_rows": n_diff,
        "rule": "every public rule function of Correctness/Malleability on its whole domain (80 resp. 12 values per child; "
                "and_or 80^3; threshold lists up to length 3 (corr) / 4 with every k (mall)) + 2000 random Type::threshold lists up to length 20",
        "samples": samples(p.stdout),
        "evaluations": rows, "distinct_nontrivial": rows,
        "dispatch_fragments_compared": int(msum.group(1)), "dispatch_differences": int(msum.group(2)),
    })
    rep.assumptions = ["Spec.v transcribes the published Miniscript type tables (DESIGN Appendix B)",
                       "Type::type_check's dispatch to the rule of its constructor is tied on generated fragments (sampled), the rules themselves on their whole domains (complete)"]
