"""C04 x C12 stage `decode-params` of the C04 check (called from tools/props/c04.py).

Proof side: coq/Properties/C04DecodeParams.v (decode_with = C04's decoder model composed with C12's
validate on facts COMPUTED from the decoded AST; canonical + validated for every parameter set,
monotone with the same result, partial completeness w.r.t. encode, never panics).
Tie: the `decparams` engine calls decode_with_validation_params / decode_consensus / decode on the
codec stream's byte strings under MAX, Ctx::CONSENSUS, Ctx::SANE, two mixed sets and, when MAX
accepts, MAX minus each switch and MAX / SANE with each limit ON the script's own figure (and one
below); a stratified sample of >= 1500 byte strings (every row of each) is compared with
Ms/DecodeParamsModel.decode_with INSIDE Coq (Tables/DecParamsCases*.v), together with the figures
`validate` consults (facts_of vs the implementation's ty / ext / script_size / has_* answers).
Oracle (independent of the model, on ALL rows): an accepted script must not carry the defect of a
switch that was off nor exceed a limit that was set (syntactic defects, byte length and depth are
recomputed here from the printed AST and the bytes; type-derived ones are read from the MAX row's
own type); every row accepts the SAME AST as MAX; decoding-stage errors do not depend on the
parameters; the named pairs p <= q are monotone."""
import collections, concurrent.futures, json, os, re, shutil
import vlib
from props import c04

SIZES = {"quick": (330, 3, 150, 1700, 8), "thorough": (2500, 4, 1500, 6400, 16)}   # generated ASTs / ctx, edits / AST, soups+random / ctx, in-Coq cases, coqc shards
BOOL_NAMES = ["allow_compressed_keys", "allow_duplicate_keys", "allow_dup_if", "allow_malleability", "allow_multi", "allow_multi_a",
              "allow_mixed_time_locks", "allow_or_i", "allow_raw_pkh", "allow_sigless_branch", "allow_non_b", "allow_uncompressed_keys",
              "allow_unsatisfiable", "allow_x_only_keys", "allow_inconsistent_multipath_keys"]
LIM_NAMES = ["max_opcode_count", "max_script_size", "max_witness_items", "max_exec_stack_size", "max_recursive_depth"]
USIZE_MAX = 18446744073709551615
VERRCODE = {"Validation:DuplicateKeys": 50, "Validation:IllegalDupIf": 51, "Validation:IllegalMulti": 52, "Validation:IllegalMultiA": 53,
            "Validation:IllegalOrI": 54, "Validation:IllegalRawPkh": 55, "Validation:Malleable": 56, "Validation:MaxOpCountExceeded": 57,
            "Validation:MaxScriptSizeExceeded": 58, "Validation:MaxWitnessItemsExceeded": 59, "Validation:MaxExecStackSizeExceeded": 60,
            "Validation:MaxRecursiveDepthExceeded": 61, "Validation:MixedTimeLocks": 62, "Validation:MultipathKeyLenMismatch": 63,
            "Validation:NonBase": 64, "Validation:SiglessBranch": 65, "Validation:Key:IllegalCompressedKey": 66,
            "Validation:Key:IllegalUncompressedKey": 67, "Validation:Key:IllegalXOnlyKey": 68, "Validation:Unsatisfiable": 69}
# error class -> index of the switch / limit it belongs to
SWITCH_OF = {"Validation:DuplicateKeys": 1, "Validation:IllegalDupIf": 2, "Validation:Malleable": 3, "Validation:IllegalMulti": 4,
             "Validation:IllegalMultiA": 5, "Validation:MixedTimeLocks": 6, "Validation:IllegalOrI": 7, "Validation:IllegalRawPkh": 8,
             "Validation:SiglessBranch": 9, "Validation:NonBase": 10, "Validation:Key:IllegalUncompressedKey": 11,
             "Validation:Unsatisfiable": 12, "Validation:Key:IllegalXOnlyKey": 13}


# ------------------------------------------------------------------ harness output
def parse_blocks(text):
    world, cur, out = {}, None, []
    for line in text.splitlines():
        if line.startswith("W "):
            p = line.split(" ")
            world[int(p[1])] = {"full": p[2], "h_full": p[3], "xonly": p[4], "h_x": p[5], "comp": p[6]}
        elif line.startswith("C "):
            p = line.split(" ")
            cur = {"id": p[1], "ctx": p[2], "kind": p[3], "hex": p[4], "K": {}, "rows": [], "F": None}
        elif cur is None:
            continue
        elif line.startswith("S "):
            cur["src"] = line[2:]
        elif line.startswith("K "):
            for kv in line[2:].split(" "):
                if "=" in kv:
                    h, v = kv.split("=")
                    cur["K"][h] = v == "1"
        elif line.startswith("F "):
            p = line[2:].split(" ")
            sat = None if p[5] == "-" else tuple(int(x) for x in p[5].split(","))
            cur["F"] = {"ty": p[0], "size": int(p[1]), "height": int(p[2]), "mixed": p[3] == "1", "dup": p[4] == "1", "sat": sat}
        elif line.startswith("V "):
            head, res = line[2:].split(" | ", 1)
            h = head.split(" ")
            lims = [USIZE_MAX if x == "max" else int(x) for x in h[2:7]]
            r = res.split(" ", 1)
            cur["rows"].append({"name": h[0], "bools": [ch == "1" for ch in h[1]], "lims": lims,
                                "res": r[0], "arg": r[1] if len(r) > 1 else ""})
        elif line == ".":
            out.append(cur)
            cur = None
    return world, out


def harness_output(hbin, args, cache_key=None):
    import subprocess
    os.makedirs(vlib.WORK, exist_ok=True)
    path = os.path.join(vlib.WORK, "decparams-%s.txt" % (cache_key or "replay"))
    if cache_key and os.path.exists(path) and os.path.getsize(path) > 0 and open(path, "rb").read()[-4:] == b"EOF\n":
        return path
    with open(path + ".tmp", "w") as f:
        p = subprocess.run([hbin, "decparams"] + [str(a) for a in args], stdout=f, stderr=subprocess.PIPE, text=True, timeout=3000)
    if p.returncode != 0:
        raise RuntimeError("decparams engine failed: " + p.stderr[-2000:])
    os.replace(path + ".tmp", path)
    return path


# ------------------------------------------------------------------ the oracle (no library code, no model)
def dump_facts(ctx, dump, world):
    """fragment kinds and keys of a prefix dump"""
    toks = dump.split(" ")
    kinds, keys, i = set(), [], 0
    while i < len(toks):
        t = toks[i]
        if t in c04.ARITY1 or t in c04.ARITY2 or t == "andor":
            kinds.add(t); i += 1
        elif t == "thresh":
            kinds.add(t); i += 3
        elif t in ("multi", "sortedmulti", "multi_a", "sortedmulti_a"):
            n = int(toks[i + 2]); kinds.add(t); keys += toks[i + 3:i + 3 + n]; i += 3 + n
        elif t in ("0", "1"):
            i += 1
        elif t in ("pk_k", "pk_h"):
            kinds.add(t); keys.append(toks[i + 1]); i += 2
        else:
            kinds.add(t); i += 2
    def unc(k):
        if ctx == "tap":
            return False
        if k.startswith("x"):
            return len(k) == 131
        return len(world[int(k)]["full"]) == 130
    return kinds, keys, any(unc(k) for k in keys)


def defects(c, world):
    """index of switch -> the script the MAX row printed has that switch's defect (None = not judged here)"""
    mx = c["rows"][0]
    kinds, keys, any_unc = dump_facts(c["ctx"], mx["arg"], world)
    ty = c["F"]["ty"]
    return {1: len(set(keys)) != len(keys), 2: "d" in kinds, 3: ty[-1] == "0",
            4: bool(kinds & {"multi", "sortedmulti"}), 5: bool(kinds & {"multi_a", "sortedmulti_a"}), 6: c["F"]["mixed"],
            7: "or_i" in kinds, 8: "raw_pk_h" in kinds, 9: ty[-2] == "0", 10: ty[0] != "B", 11: any_unc,
            12: c["F"]["sat"] is None, 13: c["ctx"] == "tap" and bool(keys), 14: False}


def figures(c):
    """the figure each limit bounds (ops, size, wit, stack, depth); size and depth recomputed here"""
    f, mx = c["F"], c["rows"][0]
    sat = f["sat"]
    return [sat[1] if sat else 0, c04.blen(c["hex"]), sat[0] + 1 if sat else 0, sat[0] + sat[2] if sat else 0, c04.dump_height(mx["arg"])]


def le(p, q):
    return all((not a) or b for a, b in zip(p["bools"], q["bools"])) and all(a <= b for a, b in zip(p["lims"], q["lims"]))


def params_obj(r):
    d = {n: v for n, v in zip(BOOL_NAMES, r["bools"])}
    d.update({n: ("usize::MAX" if v == USIZE_MAX else v) for n, v in zip(LIM_NAMES, r["lims"])})
    return d


def robj(c, r, **kw):
    o = {"property": "C04", "stage": "decparams", "ctx": c["ctx"], "hex": c["hex"], "kind": c["kind"], "case": c["id"],
         "call": {"cons": "decode_consensus", "sane": "decode"}.get(r["name"], "decode_with_validation_params"),
         "row": r["name"], "params": params_obj(r), "answer": (r["res"] + " " + r["arg"])[:600]}
    if "src" in c:
        o["src"] = c["src"]
    o.update(kw)
    return o


def judge(c, world):
    """violations of the property on one byte string: (key, what, replay object)"""
    out = []
    rows = c["rows"]
    if not rows:
        return out
    mx = rows[0]
    for r in rows:
        if r["res"] in ("panic", "okpanic"):
            out.append(("decparams-panic", "%s panics on %s script %s under row %s" % (robj(c, r)["call"], c["ctx"], c["hex"][:120], r["name"]), robj(c, r)))
    if mx["res"] == "err":
        # a decoding-stage error does not depend on the parameters; a validation error under MAX means depth > 402,
        # which from_ast refuses earlier: not expected either
        for r in rows[1:]:
            if r["res"] == "ok":
                out.append(("decparams-accepts-beyond-max", "%s script %s refused under MAX (%s) but accepted under row %s" % (c["ctx"], c["hex"][:120], mx["arg"], r["name"]),
                            robj(c, r, max_answer=mx["arg"])))
            elif r["res"] == "err" and not mx["arg"].startswith("Validation") and r["arg"] != mx["arg"]:
                out.append(("decparams-error-depends-on-params", "%s script %s: MAX says %s, row %s says %s" % (c["ctx"], c["hex"][:120], mx["arg"], r["name"], r["arg"]),
                            robj(c, r, max_answer=mx["arg"])))
        return out
    if mx["res"] != "ok" or c["F"] is None:
        return out
    dfc = defects(c, world)
    figs = figures(c)
    impl_figs = [figs[0], c["F"]["size"], figs[2], figs[3], c["F"]["height"]]
    if impl_figs[1] != figs[1]:
        out.append(("decparams-figure:script_size", "script_size() = %d on an accepted script of %d bytes (%s %s)" % (impl_figs[1], figs[1], c["ctx"], c["hex"][:120]), robj(c, mx)))
    if impl_figs[4] != figs[4]:
        out.append(("decparams-figure:tree_height", "ext.tree_height = %d, the printed AST is %d deep (%s %s)" % (impl_figs[4], figs[4], c["ctx"], c["hex"][:120]), robj(c, mx)))
    by_name = {r["name"]: r for r in rows}
    for r in rows[1:]:
        if r["res"] == "ok":
            if r["arg"] != "=":
                out.append(("decparams-result-differs", "row %s returns another AST than MAX on %s %s: %s vs %s" % (r["name"], c["ctx"], c["hex"][:120], r["arg"][:200], mx["arg"][:200]),
                            robj(c, r, max_answer=mx["arg"][:600])))
            for i, on in enumerate(r["bools"]):
                if not on and dfc.get(i):
                    out.append(("decparams-accepts:%s" % BOOL_NAMES[i],
                                "%s accepted %s script %s = `%s` although %s is off and the script has that defect" % (robj(c, r)["call"], c["ctx"], c["hex"][:120], mx["arg"][:200], BOOL_NAMES[i]),
                                robj(c, r, decoded=mx["arg"][:600], violated=BOOL_NAMES[i])))
            for i, lim in enumerate(r["lims"]):
                gate = not (i == 1 and lim == USIZE_MAX)
                if gate and figs[i] > lim:
                    out.append(("decparams-accepts:%s" % LIM_NAMES[i],
                                "%s accepted %s script %s = `%s` although %s = %d and the script's figure is %d" % (robj(c, r)["call"], c["ctx"], c["hex"][:120], mx["arg"][:200], LIM_NAMES[i], lim, figs[i]),
                                robj(c, r, decoded=mx["arg"][:600], violated=LIM_NAMES[i], figure=figs[i])))
        elif r["res"] == "err":
            sw = SWITCH_OF.get(r["arg"])
            if not r["arg"].startswith("Validation"):
                out.append(("decparams-error-depends-on-params", "%s script %s decodes under MAX but row %s fails before validation with %s" % (c["ctx"], c["hex"][:120], r["name"], r["arg"]), robj(c, r)))
            elif sw is not None and (r["bools"][sw] or not dfc.get(sw)):
                out.append(("decparams-rejects:%s" % BOOL_NAMES[sw],
                            "row %s refuses %s script %s = `%s` with %s although %s" % (r["name"], c["ctx"], c["hex"][:120], mx["arg"][:200], r["arg"], "the switch is on" if r["bools"][sw] else "the script has no such defect"),
                            robj(c, r, decoded=mx["arg"][:600])))
    # named monotone pairs (p <= q fieldwise, computed here): p accepts => q accepts
    for a, b in (("sane", "cons"), ("cons-dup", "cons"), ("sane", "sane+rawpkh"), ("sane", "max"), ("cons", "max")):
        p, q = by_name.get(a), by_name.get(b)
        if p and q and le(p, q) and p["res"] == "ok" and q["res"] != "ok":
            out.append(("decparams-not-monotone", "row %s accepts %s script %s but the weaker row %s answers %s %s" % (a, c["ctx"], c["hex"][:120], b, q["res"], q["arg"]),
                        robj(c, q, stronger=params_obj(p))))
    for r in rows[1:]:
        if r["res"] == "ok":
            for q in rows:
                if q is not r and q["res"] == "err" and le(r, q):
                    out.append(("decparams-not-monotone", "row %s accepts %s script %s but the weaker row %s answers %s" % (r["name"], c["ctx"], c["hex"][:120], q["name"], q["arg"]),
                                robj(c, q, stronger=params_obj(r))))
                    break
    return out


# ------------------------------------------------------------------ Coq data
VP_NAMES = {}


def coq_vp(r):
    """distinct parameter sets are defined once per generated file and referred to by name"""
    t = "(mkVP %s %s)" % (" ".join("true" if b else "false" for b in r["bools"]), " ".join(str(x) for x in r["lims"]))
    if t not in VP_NAMES:
        VP_NAMES[t] = "vp%d" % len(VP_NAMES)
    return VP_NAMES[t]


def ub(h):
    """a byte string as (ub length number): one numeral is elaborated much faster than a list literal"""
    b = c04.unhex(h)
    return "(ub %d 0x%x)" % (len(b), int.from_bytes(bytes(b), "little"))


def coq_obs(r, kt, first):
    if r["res"] == "ok":
        if r["arg"] == "=" and not first:
            return "DSame"
        return "(DAccept %s)" % c04.coq_ms(r["arg"].split(" "), kt)
    if r["res"] == "err":
        return "(DReject %d)" % (VERRCODE.get(r["arg"]) or c04.ERRCODE.get(r["arg"], 98))
    return "DCrash"


def coq_case(n, c, world):
    kt = c04.KeyTab(world, c["ctx"])
    rows = c["rows"]
    mx = coq_obs(rows[0], kt, True)
    rest = ";".join("(%s, %s)" % (coq_vp(r), coq_obs(r, kt, False)) for r in rows[1:])
    fig = "None"
    if c["F"] and rows[0]["res"] == "ok":
        f = c["F"]
        sat = "None" if f["sat"] is None else "(Some (%d, %d, %d))" % f["sat"]
        fig = "(Some (mkFig %d %s %s %d %d %s %s %s))" % ("BKVW".index(f["ty"][0]), "true" if f["ty"][-1] == "1" else "false",
                                                          "true" if f["ty"][-2] == "1" else "false", f["size"], f["height"],
                                                          "true" if f["mixed"] else "false", "true" if f["dup"] else "false", sat)
    keys = []
    for h, valid in c["K"].items():
        if valid:
            keys.append("(%s, %d)" % (ub(h), kt.idx_of_hex(h)))
    return "Definition dc%d : dpcase := mkDp %d %s %s [%s] %s %s [%s]." % (
        n, n, c04.CTXCOQ[c["ctx"]], ub(c["hex"]), ";".join(keys), mx, fig, rest)


def coq_sample(world, cases, limit, shards):
    picked, per = [], collections.Counter()
    quota = max(6, limit // 45)
    for rnd in (0, 1):
        for c in cases:
            if len(picked) >= limit:
                break
            if c.get("_picked") or c04.blen(c["hex"]) > 300 or not c["rows"] or any(r["res"] in ("panic", "okpanic") for r in c["rows"]):
                continue
            mx = c["rows"][0]
            classes = sorted({r["arg"] for r in c["rows"] if r["res"] == "err" and r["arg"].startswith("Validation")})
            cls = (c["ctx"], c["kind"].split(":")[0], mx["res"] if mx["res"] == "ok" else mx["arg"], tuple(classes[:3]) if rnd == 0 else ())
            if per[cls] >= (quota if rnd else 3):
                continue
            per[cls] += 1
            c["_picked"] = True
            picked.append(c)
    head = ["(* generated by tools/props/c04_decparams.py from this run's harness output; do not edit *)",
            "From Verif Require Import DecParamsCasesDefs.", "Local Open Scope N_scope."]
    for ctx in ("bare", "legacy", "segwitv0", "tap"):
        rows = []
        for i, w in sorted(world.items()):
            tap = ctx == "tap"
            rows.append("(%d, (%s, %s, %s))" % (i, c04.coq_bytes(w["xonly"] if tap else w["full"]), c04.coq_bytes(w["h_x"] if tap else w["h_full"]),
                                               c04.coq_bytes(w["xonly"] if tap else w["comp"])))
        head.append("Definition dpw_%s : world := [%s]." % (ctx, ";".join(rows)))
    head.append("Definition dp_world (c : Ast.ctx) : world := match c with Bare => dpw_bare | Legacy => dpw_legacy | Segwitv0 => dpw_segwitv0 | Tap => dpw_tap end.")
    defs, kept = [], []
    VP_NAMES.clear()
    for c in picked:
        n = len(kept)
        try:
            s = coq_case(n, c, world)
        except (ValueError, KeyError, IndexError):
            s = None
        if s:
            defs.append((n, s)); kept.append(c)
    # one generated file per shard (round robin: the expensive long scripts spread evenly), each compiled and
    # checked by its own coqc process: work/c04dp/s<k>/DecParamsCasesGen.v
    shutil.rmtree(wdir(), ignore_errors=True)
    for k in range(shards):
        mine = [(n, s) for n, s in defs if n % shards == k]
        used = set(re.findall(r"\bvp\d+\b", " ".join(s for _, s in mine)))
        lines = head + ["Definition %s : vparams := %s." % (nm, t) for t, nm in VP_NAMES.items() if nm in used] + [s for _, s in mine]
        names = ["dc%d" % n for n, _ in mine]
        chunks = [names[i:i + 400] for i in range(0, len(names), 400)]
        for j, ch in enumerate(chunks):
            lines.append("Definition dp_cases_%d : list dpcase := [%s]." % (j, ";".join(ch)))
        lines.append("Definition dp_cases : list dpcase := %s." % (" ++ ".join("dp_cases_%d" % j for j in range(len(chunks))) or "[]"))
        d = os.path.join(wdir(), "s%d" % k)
        os.makedirs(d)
        open(os.path.join(d, "DecParamsCasesGen.v"), "w").write("\n".join(lines) + "\n")
    return kept


def wdir():
    return os.path.join(vlib.WORK, "c04dp")


def coqc(path, extra_q, out=None, timeout=1200):
    cmd = ["timeout", str(timeout), "coqc", "-noglob"] + vlib.COQ_Q + ["-Q", extra_q, "Verif"] + vlib.COQ_W
    if out:
        cmd += ["-o", out]
    return vlib.sh(cmd + [path], cwd=vlib.COQ, timeout=timeout + 60, stack_unlimited=True)


def run_shard(k):
    """(k, ok, flat output of the check, diagnosis)"""
    d = os.path.join(wdir(), "s%d" % k)
    g = coqc(os.path.join(d, "DecParamsCasesGen.v"), d)
    if g.returncode != 0:
        raise RuntimeError("shard %d: DecParamsCasesGen.v does not compile: %s" % (k, (g.stderr or g.stdout)[-2000:]))
    p = coqc("Tables/DecParamsCasesCheck.v", d, out=os.path.join(d, "DecParamsCasesCheck.vo"))
    flat = re.sub(r"\s+", " ", p.stdout)
    if p.returncode == 0 and "= [] : list" in flat:
        return k, True, flat, ""
    pd = coqc("Tables/DecParamsCasesDiag.v", d, out=os.path.join(d, "DecParamsCasesDiag.vo"))
    return k, False, flat + " " + (p.stderr or "")[-500:], re.sub(r"\s+", " ", (pd.stdout or pd.stderr or ""))[-3000:]


# ------------------------------------------------------------------ the stage
def stage(rep, tier, seed, hbin, replay=None):
    """returns (obligations, discharged) of this stage; fills rep.coverage['decode_params']"""
    obligations, discharged = 0, 0
    thms, blocks, problems, _ = vlib.check_property_file("C04DecodeParams")
    obligations += len(thms)
    if problems:
        rep.violation("property-file", "; ".join(problems),
                      {"property": "C04", "broken_tie": "Properties/C04DecodeParams.v", "problems": problems}, found_input=False)
    else:
        discharged += len(thms)
    n_ast, n_edit, n_rand, n_coq, shards = SIZES[tier]
    if replay:
        path = harness_output(hbin, ["replay", replay["ctx"], replay["hex"]])
    else:
        path = harness_output(hbin, [seed, n_ast, n_edit, n_rand], "%s-%d-%d-%d-%d" % (c04._h(hbin), seed, n_ast, n_edit, n_rand))
    world, cases = parse_blocks(open(path).read())

    # ---- oracle on every row
    by_id, nviol = {}, collections.Counter()
    known_keys = {k["key"] for k in rep.known}
    reported = set()
    for c in cases:
        v = judge(c, world)
        fresh = [x for x in v if x[0] not in known_keys]
        if fresh:
            by_id[c["id"]] = fresh
        for key, what, ro in v:
            nviol[key] += 1
            if key not in reported:          # one replay per key: the first (the stream starts with the small directed scripts)
                reported.add(key)
                rep.violation(key, what, ro, True)

    # ---- the rows compared with decode_with inside Coq
    sample = coq_sample(world, cases, n_coq, shards)
    obligations += 1
    coq_ok, coq_note = True, ""
    for f in ("Tables/CodecCasesDefs.v", "Tables/DecParamsCasesDefs.v"):
        p = vlib.coqc(f)
        if p.returncode != 0:
            raise RuntimeError("%s does not compile: %s" % (f, (p.stderr or p.stdout)[-2000:]))
    with concurrent.futures.ThreadPoolExecutor(max_workers=min(8, shards)) as ex:
        results = list(ex.map(run_shard, range(shards)))
    bad_shards = [r for r in results if not r[1]]
    if bad_shards:
        coq_ok = False
        flat = " ".join(r[2] for r in bad_shards)
        coq_note = " ".join(r[3] for r in bad_shards)[-3000:]
        ids = [int(x) for x in re.findall(r"\((\d+)%N, \[", flat)]
        bad = [sample[i] for i in ids if i < len(sample)]
        found = next((by_id[c["id"]] for c in bad if c["id"] in by_id), None) or next(iter(by_id.values()), None)
        rowinfo = []
        for i, c in zip(ids[:6], bad[:6]):
            m = re.search(r"\(%d%%N, \[([^\]]*)\]" % i, flat)
            nums = [int(x) for x in re.findall(r"(\d+)%N", m.group(1))] if m else []
            rowinfo.append({"case": c["id"], "ctx": c["ctx"], "hex": c["hex"], "rows": [
                ({"row": c["rows"][k]["name"], "params": params_obj(c["rows"][k]), "implementation": (c["rows"][k]["res"] + " " + c["rows"][k]["arg"])[:300]}
                 if k < 100 and k < len(c["rows"]) else {"figure": k}) for k in nums[:8]]})
        what = "Tables/DecParamsCasesCheck.v: %d sampled byte strings on which decode_with_validation_params and the model decode_with (or the computed facts) differ: %s ; model's answers: %s" % (
            len(ids), json.dumps(rowinfo)[:1200], coq_note[-700:])
        if found:
            key, w2, ro = found[0]
            rep.violation("tie:decode-params", what + " ; property failure found: " + w2[:500],
                          dict(ro, broken_tie="Tables/DecParamsCasesCheck.v (dp_failing dp_world dp_cases = [])", disagreements=rowinfo, diag=coq_note), True)
        else:
            rep.violation("tie:decode-params", what,
                          {"property": "C04", "stage": "decparams", "broken_tie": "Tables/DecParamsCasesCheck.v (dp_failing dp_world dp_cases = [])",
                           "disagreements": rowinfo, "diag": coq_note,
                           "note": "the oracle found no accepted script violating a switch that was off / a limit that was set, no parameter-dependent decoding error and no monotonicity failure in this run"}, False)
    else:
        discharged += 1

    # ---- evidence
    calls = sum(len(c["rows"]) for c in cases)
    outcome = collections.Counter()
    rowkinds = collections.Counter()
    for c in cases:
        for r in c["rows"]:
            outcome["ok" if r["res"] == "ok" else r["arg"] if r["res"] == "err" else r["res"]] += 1
            rowkinds[re.sub(r"\d+$", "N", r["name"])] += 1
    samples = []
    for c in cases:
        vs = [r for r in c["rows"] if r["res"] == "err" and r["arg"].startswith("Validation")]
        if c["rows"] and c["rows"][0]["res"] == "ok" and vs and len(samples) < 6 and c04.blen(c["hex"]) < 80:
            samples.append({"ctx": c["ctx"], "kind": c["kind"], "bytes": c["hex"], "decoded_max": c["rows"][0]["arg"][:160],
                            "rows": {r["name"]: (r["res"] + " " + r["arg"])[:60] for r in c["rows"][:8]}})
    rep.coverage["decode_params"] = {
        "theorems": thms, "print_assumptions": [("closed" if b["closed"] else ",".join(b["axioms"])) for b in blocks],
        "byte_strings": len(cases), "calls": calls, "in_coq_byte_strings": len(sample),
        "in_coq_calls": sum(len(c["rows"]) for c in sample), "in_coq_equal": coq_ok,
        "accepted_under_max": sum(1 for c in cases if c["rows"] and c["rows"][0]["res"] == "ok"),
        "histogram": {"context": dict(collections.Counter(c["ctx"] for c in cases)),
                      "kind": dict(collections.Counter(c["kind"].split(":")[0] for c in cases)),
                      "row_kind": dict(rowkinds), "outcome": dict(outcome)},
        "oracle_failures_by_key": dict(nviol),
        "rule": "codec stream (directed + seeded generated ASTs of base B/V/K/W with repeated keys in a third, their encodings, sampled byte-level edits, cross-context scripts, hand-made limit byte strings, opcode soups, random bytes) x rows {MAX, decode_consensus, decode, CONSENSUS minus duplicate keys, SANE plus raw pkh; when MAX accepts: MAX minus each of 15 switches, MAX and SANE with each of 5 limits on the script's own figure, MAX one below it}",
        "checker_cmd": "coqc Properties/C04DecodeParams.v; verif-harness decparams %d %d %d %d; coqc work/c04dp/s<k>/DecParamsCasesGen.v Tables/DecParamsCasesCheck.v (one coqc per shard)" % (seed, n_ast, n_edit, n_rand),
        "samples": samples}
    if isinstance(getattr(rep, "assumptions", None), list):
        rep.assumptions.append("since extension round 2 ValidationParams other than MAX ARE in the model (Ms/DecodeParamsModel.decode_with = the C04 decoder model, then C12's validate on facts computed from the decoded AST by TypeCheck / ExtModel / CodecExt); decoded keys are bitcoin::PublicKey / XOnlyPublicKey: no multipath keys, x-only exactly in Tap")
    return obligations, discharged
