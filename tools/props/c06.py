"""C06 — static types predict what fragments do when executed (DESIGN 5/C06).
Proof side: Properties/C06.v (Theorem A at table level: base shapes, u, z/o/n for every
fragment nesting).  Enumeration side (`frags` engine): fragments of base B and V that the
context's consensus rules admit, in all four contexts; the implementation's encoded script is
executed by the extracted Script semantics on EVERY input stack over the alphabet
{empty, 01, 02, invalid signature, 32 zero bytes, valid signature per key, each key, each
preimage} up to length 2-4 (by alphabet size), under a height-based and a time-based lock
environment; each label of the implementation's type is tested on every successful run:
frame preserved, z/o consumption, n, u, f, s, existence of a signature-free dissatisfaction
for d, uniqueness for e (on m-typed fragments)."""
import re, vlib, satrun

LEVEL = "proof"


def run(rep, tier, seed, replay):
    ok, thms = vlib.proof_gates(rep, "C06")
    hbin = vlib.build_harness()
    satrun.build_driver()
    n = 4000 if tier == "thorough" else 900
    p = vlib.sh("set -o pipefail; %s frags %d %d 2>/dev/null | %s" % (hbin, seed, n, satrun.DRIVER), timeout=3000)
    if p.returncode != 0:
        raise RuntimeError("frags run failed: " + p.stderr[-2000:])
    summ, hist, bads = {}, {}, []
    for line in p.stdout.splitlines():
        if line.startswith("SUMMARY06"):
            summ = {k: int(v) for k, v in re.findall(r"(\w+)=(\d+)", line)}
        elif line.startswith("HIST06"):
            _, k, v = line.split(); hist[k] = int(v)
        elif line.startswith("BAD C06"):
            bads.append(satrun.parse_kv(line))
    if not summ or "ENDFRAGS" not in p.stdout:
        raise RuntimeError("frags run incomplete (no summary / end marker): " + p.stdout[-1500:])
    for b in bads:
        m = re.search(r" ms=(.*?) stack=", b["line"])
        rep.violation("c06:%s" % b.get("clause"), "type label contradicted by execution: %s on %s" % (b.get("clause"), m.group(1) if m else "?"),
                      dict(b, property="C06", engine="frags", seed=seed, n=n, ms=m.group(1) if m else None,
                           failed_clause=b.get("clause")), True)
    rep.coverage.update({
        "obligations": len(thms), "discharged": len(thms) if ok else 0,
        "checker_cmd": "make -C coq; coqc Properties/C06.v; verif-harness frags %d %d | ocaml/driver" % (seed, n),
        "trusted_base": vlib.TRUSTED_BASE_COMMON + ["Coq extraction (ExtrOcamlBasic) + ocaml/driver.ml (stack enumeration, clause tests)",
                                                    "signatures are abstract in this engine: a fixed table of (key, token) pairs is declared valid"],
        "evaluations": summ.get("execs", 0), "distinct_nontrivial": summ.get("frags", 0),
        "rule": "type-directed generated fragments (<= 7 nodes) of base B and V admitted by Ctx::CONSENSUS in Segwitv0, Tap, Legacy, Bare; all stacks over the fragment's alphabet up to length 4/3/2 for alphabet size <=7/<=11/more; two lock environments; non-trivial = a fragment whose every stack was executed",
        "fragments": summ.get("frags", 0), "executions": summ.get("execs", 0), "clause_violations": summ.get("bad", 0),
        "labels_tested_histogram": hist, "exhaustive": False,
        "samples": [{"summary": summ, "labels": hist}],
    })
    rep.assumptions = ["K and W fragments are exercised through their parents (c:, and_b, or_b, thresh)",
                       "the all-stacks predictions are theorems about the model (Properties/C06.v, Properties/TheoremB.v); this enumeration ties the LIBRARY's labels and scripts to that model on every fragment generated, up to the stated stack bound"]
