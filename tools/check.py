#!/usr/bin/env python3
"""tools/check.py <property id> [--tier quick|thorough] [--replay file]
Exit 0: the property held on everything explored; exit 1 + `VIOLATION property=<id> replay=<path>`."""
import argparse, importlib, os, sys, traceback
sys.path.insert(0, os.path.dirname(os.path.abspath(__file__)))
import vlib


def main():
    ap = argparse.ArgumentParser()
    ap.add_argument("pid")
    ap.add_argument("--tier", default=os.environ.get("VERIF_TIER", "quick"))
    ap.add_argument("--replay", default=None)
    a = ap.parse_args()
    tier = "thorough" if a.tier == "thorough" else "quick"
    os.environ["VERIF_TIER"] = tier
    try:
        seed = int(os.environ.get("VERIF_SEED", "1"))
    except ValueError:
        seed = 1
    mod = importlib.import_module("props.%s" % a.pid.lower())
    rep = vlib.Report(a.pid, tier, seed, mod.LEVEL)
    try:
        mod.run(rep, tier, seed, a.replay)
    except Exception as e:  # a check that cannot run is a broken tie, reported as such
        traceback.print_exc()
        rep.violation("check-crashed", "check could not complete: %r" % (e,),
                      {"property": a.pid, "broken_tie": "check machinery", "error": repr(e)}, found_input=False)
        if not rep.coverage:
            rep.coverage = {"evaluations": 1, "distinct_nontrivial": 2, "rule": "check crashed", "samples": ["-"]}
    sys.exit(rep.finish())


if __name__ == "__main__":
    main()
