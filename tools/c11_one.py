#!/usr/bin/env python3
"""Run ONE explicit text input through a class of the robust engine (debug helper for C11).
usage: tools/c11_one.py <class> <text>   |   tools/c11_one.py --scaling | --multipath
The scaling probes are how the two quadratic behaviours recorded as C11 findings were measured
(base58 decoding of unbounded key text, into_single_descriptors)."""
import os, subprocess, sys, time

HERE = os.path.dirname(os.path.dirname(os.path.abspath(__file__)))
BIN = os.path.join(HERE, "harness", "target", "release", "verif-harness")


def run(cls, text, env=None, line=None):
    line = line or ("T " + (text.encode().hex() or "-"))
    t = time.time()
    p = subprocess.run([BIN, "robust", "one", cls], input=line, capture_output=True, text=True, env=env)
    dt = time.time() - t
    out = [l for l in p.stdout.splitlines() if l.startswith("E ")]
    if out:
        f = out[0].split(" ")
        un = lambda h: bytes.fromhex(h).decode("utf8", "replace") if h != "-" else ""
        return f[2], int(f[3]), int(f[4]), un(f[5]), un(f[6]), round(dt, 2)
    return "died", 0, 0, p.stderr[-300:], "", round(dt, 2)


K = "c46596162b22616a1bd11ab45456cf21ef0aac0b415bfc6293e5e54dedbde317"
XP = "xpub661MyMwAqRbcEtUEgdXRTY6dJQG9fRgs7C5QomqETKMYBJVtSGpRqyHSmhWy8snovPd5oWZgQ14zUquxbxu7Z1umuXbN5VDpUL1QobD5xUY"


def scaling():
    env = dict(os.environ, VERIF_ROBUST_TIMEOUT_MS="120000")
    for n in (5000, 10000, 20000, 40000):
        s = "thresh(1,pk(%s)" % K + (",s:pk(%s)" % K) * n + ")"
        print("tap wide thresh", n, len(s), run("str.ms.tap", s, env)[:4])
    for n in (2000, 4000, 8000, 16000):
        s = "sh(pk(%s/<%s1>/*))" % (XP, "0;" * n)
        print("multipath", n, len(s), run("str.desc.dpk", s, env)[:4])
    for n in (5000, 10000, 20000, 40000):
        print("dsk a*n", n, run("str.key.secret", "a" * n, env)[:4])
        print("dpk xpub1*n", n, run("str.key.public", "xpub" + "1" * n, env)[:4])


def multipath():
    for n in (2000, 4000, 8000):
        k = "%s/<%s1>/*" % (XP, "0;" * n)
        print("key", n, run("str.key.public", k)[:4])
        print("desc<String>", n, run("str.desc.string", "sh(pk(%s))" % k)[:4])
        print("wallet_policy", n, run("str.wallet_policy", "sh(pk(%s))" % k)[:4])


if __name__ == "__main__":
    if sys.argv[1] == "--scaling":
        scaling()
    elif sys.argv[1] == "--multipath":
        multipath()
    else:
        print(run(sys.argv[1], sys.argv[2]))
