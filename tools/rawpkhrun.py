"""C01 stage `rawpkh`: decoded scripts with raw key hashes, implementation vs `sat_dissat_r`
(coq/Ms/RawPkhModel.v), compared INSIDE Coq (Tables/RawPkhCasesCheck.v), with the Script semantics as
oracle for every witness the implementation returns. See notes/C01-rawpkh.md."""
import os, re, vlib

HEADER = "From Verif Require Import RawPkhCasesDefs.\nLocal Open Scope N_scope.\n"


def _pairs(text, tag):
    m = re.search(r'\("%s"(?:%%string)?,\s*\[(.*?)\]\)' % tag, text, flags=re.S)
    if not m:
        return None
    body = m.group(1)
    if tag == "script":
        return [int(x) for x in re.findall(r"\d+", body)]
    return [(int(a), int(b)) for a, b in re.findall(r"\(\s*(\d+),\s*(\d+)\)", body)]


def _case_text(gen, idx):
    """source text of script number idx (for the replay)"""
    cases = re.findall(r"  mkRCase .*?(?=\n  mkRCase |\]\.\n)", gen, flags=re.S)
    return cases[idx][:6000] if idx < len(cases) else ""


def run(rep, seed):
    """returns (tie_ok, coverage dict)"""
    p = vlib.sh([vlib.HBIN, "rawpkh", str(seed)], timeout=600)
    cov = {"engine": "verif-harness rawpkh %d" % seed}
    if p.returncode != 0 or "SUMMARY" not in p.stdout:
        rep.violation("tie:rawpkh-engine", "rawpkh engine failed: %s" % (p.stderr or p.stdout)[-600:],
                      {"property": "C01", "broken_tie": "harness engine rawpkh", "seed": seed}, False)
        return False, cov
    out = p.stdout
    m = re.search(r"SUMMARY scripts=(\d+) runs=(\d+) sat_ok=(\d+) sat_err=(\d+) panics=(\d+) hist=(\{.*?\})", out)
    scripts, runs, sat_ok, sat_err, panics = (int(m.group(i)) for i in range(1, 6))
    cov.update({"scripts": scripts, "runs": runs, "witnesses_returned": sat_ok, "no_witness": sat_err,
                "panics": panics, "histogram": m.group(6),
                "skipped_templates": len(re.findall(r"\(\* SKIP", out))})
    o = re.search(r"\(\* OBS (.*?) \*\)", out)
    if o:
        cov["observation_raw_sig_lookup_only"] = o.group(1)
    tdir = os.path.join(vlib.COQ, "Tables")
    open(os.path.join(tdir, "RawPkhCasesGen.v"), "w").write(HEADER + out)
    if panics:
        rep.violation("panic:rawpkh", "library panicked while satisfying a decoded script with a raw key hash (%d runs)" % panics,
                      {"property": "C01", "engine": "rawpkh", "seed": seed, "failed_clause": "satisfy/build_template panicked"}, True)
    if scripts < 100:
        rep.violation("tie:rawpkh-coverage", "only %d decoded scripts with raw key hashes were produced" % scripts,
                      {"property": "C01", "broken_tie": "rawpkh generator", "seed": seed}, False)
        return False, cov
    for f in ("RawPkhCasesDefs", "RawPkhCasesGen"):
        c = vlib.coqc("Tables/%s.v" % f)
        if c.returncode != 0:
            rep.violation("tie:rawpkh-engine", "Tables/%s.v does not compile: %s" % (f, (c.stderr or c.stdout)[-800:]),
                          {"property": "C01", "broken_tie": "Tables/%s.v" % f, "seed": seed}, False)
            return False, cov
    c2 = vlib.coqc("Tables/RawPkhCasesCheck.v")
    if c2.returncode == 0:
        t = re.search(r"=\s*\((\d+),\s*(\d+),\s*(\d+),\s*(\d+)\)", c2.stdout)
        if t:
            cov.update({"coq_scripts": int(t.group(1)), "coq_runs": int(t.group(2)),
                        "witnesses_executed": int(t.group(3)), "runs_partial_or_incoherent_lookup": int(t.group(4))})
        return True, cov
    # on-break: locate the cases; a rejected witness of the implementation is a failing input of the property
    c3 = vlib.coqc("Tables/RawPkhCasesDiag.v")
    text = c3.stdout
    # Tap cases come after the others in the generated file: shift their script indices
    off = len(re.findall(r"  mkRCase C(?:Segwit|Legacy) ", out))
    sh = lambda l: [(a + off, b) for a, b in (l or [])]
    spend = (_pairs(text, "spend") or []) + sh(_pairs(text, "xspend"))
    tpl = (_pairs(text, "template") or []) + sh(_pairs(text, "xtemplate"))
    wit = (_pairs(text, "witness") or []) + sh(_pairs(text, "xwitness"))
    scr = (_pairs(text, "script") or []) + [a + off for a in (_pairs(text, "xscript") or [])]
    for (ci, ri) in spend[:1]:
        rep.violation("rawpkh:spend", "witness returned for a decoded script with a raw key hash is rejected by the Script semantics (script %d, run %d; %d such runs)" % (ci, ri, len(spend)),
                      {"property": "C01", "engine": "rawpkh", "seed": seed, "script_index": ci, "run_index": ri,
                       "case": _case_text(out, ci), "all": spend[:50],
                       "failed_clause": "accepts env (script) (witness) = false for a witness Miniscript::satisfy returned"}, True)
    if tpl or wit or scr or not spend:
        first = (tpl or wit or [(scr[0], 0)] if (tpl or wit or scr) else [(0, 0)])[0]
        rep.violation("tie:rawpkh-model", "model sat_dissat_r and the implementation disagree on decoded scripts with raw key hashes: template %d runs, completed witness %d runs, script bytes %d scripts (first: script %d run %d)%s"
                      % (len(tpl), len(wit), len(scr), first[0], first[1], "" if c3.returncode == 0 else "; Diag failed: " + (c3.stderr or "")[-300:]),
                      {"property": "C01", "broken_tie": "correspondence RawPkhModel.v (sat_dissat_r / satisfy_r / enc) vs Miniscript::{build_template,satisfy}[_mall] on decoded scripts",
                       "seed": seed, "template": tpl[:50], "witness": wit[:50], "script": scr[:50], "case": _case_text(out, first[0])},
                      bool(spend))
    return False, cov
