#!/bin/bash
# (re)compile the C11 Coq files in dependency order; with "tables" also the generated tie
d="$(dirname "$0")"
for f in Ms/RobustModel.v Proofs/RobustProofs.v Proofs/RobustLexProofs.v Proofs/RobustTreeProofs.v Proofs/RobustPostProofs.v Proofs/RobustDepthProofs.v Properties/C11.v; do
  [ -f "$d/../coq/$f" ] || continue
  out="$("$d/c11_coqc.sh" "$f")"
  if echo "$out" | grep -q "Error"; then echo "== $f"; echo "$out"; exit 1; fi
done
if [ "$1" = "tables" ]; then
  "$d/c11_coqc.sh" Tables/RobustCasesGen.v
  "$d/c11_coqc.sh" Tables/RobustCasesCheck.v | head -c 3000
fi
echo "c11 coq ok"
