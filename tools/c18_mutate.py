#!/usr/bin/env python3
"""Try mutations of the library in the scratch worktree /tmp/c18mut and run the C18 check on each.
Prepare the scratch checkout first (never mutate /repo itself):
    git -C /repo worktree add --detach /tmp/c18mut HEAD
and remove it afterwards:
    git -C /repo worktree remove --force /tmp/c18mut ; rm -rf harness/target-*
Usage: python3 tools/c18_mutate.py [mutation names...]   (no name = all)"""
import json, os, shutil, subprocess, sys, time

MUT = "/tmp/c18mut"
HERE = os.path.dirname(os.path.dirname(os.path.abspath(__file__)))

MUTATIONS = {
    # the repairs, undone one at a time
    "revert-51c85bfb-entails": ("src/policy/semantic.rs",
        """        match (self.normalized(), other.normalized()) {
            (Self::Unsatisfiable, _) => Some(true),
            (Self::Trivial, Self::Trivial) => Some(true),
            (Self::Trivial, _) => Some(false),
            (_, Self::Unsatisfiable) => Some(false),
            (a_norm, b_norm) => {
""",
        """        match (self, other) {
            (Self::Unsatisfiable, _) => Some(true),
            (Self::Trivial, Self::Trivial) => Some(true),
            (Self::Trivial, _) => Some(false),
            (_, Self::Unsatisfiable) => Some(false),
            (a, b) => {
                let (a_norm, b_norm) = (a.normalized(), b.normalized());
"""),
    "revert-780a529d-and-2": ("src/policy/mod.rs",
        "match Threshold::new(semantic_subs.len(), semantic_subs) {",
        "match Threshold::new(2, semantic_subs) {"),
    "revert-b588aa3a-timelocks": ("src/policy/concrete.rs",
        "infos.push(if satisfiable { info } else { TimelockInfo::default() });",
        "infos.push(info);"),
    "or-drops-zero-odds": ("src/policy/mod.rs",
        "subs.iter().map(|(_p, sub)| sub.lift_unchecked()).collect();",
        "subs.iter().filter(|(p, _sub)| *p > 0).map(|(_p, sub)| sub.lift_unchecked()).collect();"),
    "norm-no-trivial-sub": ("src/policy/semantic.rs",
        "let m = thresh.k().saturating_sub(trivial_count); // satisfy all trivial",
        "let m = thresh.k(); // MUT"),
    "norm-drop-or-flatten": ("src/policy/semantic.rs",
        "(false, true) if subthresh.k() == 1 => {",
        "(false, true) if subthresh.k() == usize::MAX => {"),
    "norm-and-flatten-any": ("src/policy/semantic.rs",
        "(true, false) if subthresh.k() == subthresh.n() => {",
        "(true, false) if subthresh.k() >= 1 => {"),
    "norm-unsat-off-by-one": ("src/policy/semantic.rs",
        "} else if m > ret_subs.len() {",
        "} else if m >= ret_subs.len() {"),
    "at-age-reversed": ("src/policy/semantic.rs",
        "if relative::LockTime::from(*t).is_implied_by(age) {",
        "if age.is_implied_by(relative::LockTime::from(*t)) {"),
    "at-lock-time-keeps-all": ("src/policy/semantic.rs",
        "if absolute::LockTime::from(*t).is_implied_by(n) {",
        "if absolute::LockTime::from(*t).is_implied_by(n) || n.is_block_time() {"),
    "minkeys-sort-desc": ("src/policy/semantic.rs",
        "sublens.sort_unstable();",
        "sublens.sort_unstable(); sublens.reverse();"),
    "minkeys-hash-costs-one": ("src/policy/semantic.rs",
        "| Self::Hash160(..) => Some(0),",
        "| Self::Hash160(..) => Some(1),"),
    "entails-or": ("src/policy/semantic.rs",
        "Some(Self::entails(a1, b1)? && Self::entails(a2, b2)?)",
        "Some(Self::entails(a1, b1)? || Self::entails(a2, b2)?)"),
    "entails-guard-19": ("src/policy/mod.rs",
        "const ENTAILMENT_MAX_TERMINALS: usize = 20;",
        "const ENTAILMENT_MAX_TERMINALS: usize = 9;"),
    "sorted-no-sort": ("src/policy/semantic.rs",
        "new_thresh.data_mut().sort();",
        "new_thresh.data_mut().reverse();"),
    "timelock-k-gt-2": ("src/miniscript/types/extra_props.rs",
        "            if k > 1 {\n                let height_and_time",
        "            if k > 2 {\n                let height_and_time"),
    "timelock-miss-cltv": ("src/miniscript/types/extra_props.rs",
        "|| (acc.cltv_with_height && t.cltv_with_time);",
        ";"),
    "lift-or-2": ("src/policy/mod.rs",
        "match Threshold::new(1, semantic_subs) {",
        "match Threshold::new(2, semantic_subs) {"),
    "nkeys-counts-hashes": ("src/policy/semantic.rs",
        ".filter(|policy| matches!(policy, Self::Key(..)))",
        ".filter(|policy| matches!(policy, Self::Key(..) | Self::Sha256(..)))"),
}


def run(name):
    path, old, new = MUTATIONS[name]
    full = os.path.join(MUT, path)
    orig = os.path.join("/repo", path)
    shutil.copy(orig, full)
    src = open(full).read()
    if src.count(old) != 1:
        print("%-24s PATTERN-COUNT=%d (skipped)" % (name, src.count(old)))
        return
    open(full, "w").write(src.replace(old, new))
    t0 = time.time()
    env = dict(os.environ, VERIF_REPO=MUT)
    shutil.rmtree(os.path.join(HERE, "replays"), ignore_errors=True)
    p = subprocess.run([sys.executable, os.path.join(HERE, "tools/check.py"), "C18"], env=env,
                       stdout=subprocess.PIPE, stderr=subprocess.PIPE, text=True)
    shutil.copy(orig, full)
    viol = [l for l in p.stdout.splitlines() if l.startswith("VIOLATION")]
    keys = [l.strip()[:170] for l in p.stderr.splitlines() if l.strip().startswith("[")]
    nofound = sum("no-failing-input-found" in l for l in viol)
    print("%-24s rc=%d violations=%d (without input: %d) %.0fs" % (name, p.returncode, len(viol), nofound, time.time() - t0))
    for k in keys[:6]:
        print("      " + k)
    if p.returncode not in (0, 1) or (p.returncode == 1 and not viol):
        print(p.stdout[-1500:], p.stderr[-1500:])


if __name__ == "__main__":
    names = sys.argv[1:] or list(MUTATIONS)
    for n in names:
        run(n)
