#!/bin/bash
# usage: tools/seeded_try.sh <PROP> <i> [check ids...]
# Confirms a seeded change from /tmp/mut/out/<PROP>/patch<i>.diff in the scratch worktree
# /tmp/mut/<PROP> (compiles, lib tests pass, demo fails with / passes without), then runs the
# given checks against that worktree (VERIF_REPO) and records everything under seeded/.
P=$1; I=$2; shift 2; CHECKS=${@:-$P}
WT=/tmp/mut/$P; OUT=/tmp/mut/out/$P; DST=/verif/seeded/$P-$I
mkdir -p $DST
cd $WT && git checkout -q -- . && git clean -qfd tests/ && git checkout -q --detach $(git -C /repo rev-parse HEAD)
LOG=$DST/confirm.log; : > $LOG
cp $OUT/demo$I.rs tests/seeded_demo.rs
echo "== demo on unmodified tree" >> $LOG
cargo test --offline $FEATURES --test seeded_demo >> $LOG 2>&1; echo "demo_clean_exit=$?" >> $LOG
git apply $OUT/patch$I.diff >> $LOG 2>&1 || git apply -3 $OUT/patch$I.diff >> $LOG 2>&1 || { echo "patch does not apply" >> $LOG; }
echo "== build + lib tests with change" >> $LOG
cargo test --offline $FEATURES --lib >> $LOG 2>&1; echo "lib_tests_exit=$?" >> $LOG
echo "== demo with change" >> $LOG
cargo test --offline $FEATURES --test seeded_demo >> $LOG 2>&1; echo "demo_mut_exit=$?" >> $LOG
rm -f tests/seeded_demo.rs
cd /verif
for C in $CHECKS; do
  echo "== check $C against mutated tree" >> $LOG
  VERIF_OUT=$DST VERIF_REPO=$WT python3 tools/check.py $C > $DST/check-$C.out 2>$DST/check-$C.err; echo "check_${C}_exit=$?" >> $LOG
  grep -h "VIOLATION\|KNOWN-FINDING\|quick:" $DST/check-$C.out | cut -c1-300 >> $LOG
done
cd $WT && git checkout -q -- . && git clean -qfd tests/
cp $OUT/patch$I.diff $DST/patch.diff; cp $OUT/demo$I.rs $DST/demo.rs; cp $OUT/meta$I.json $DST/meta.json 2>/dev/null
grep "_exit=" $LOG
