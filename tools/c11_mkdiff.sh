#!/bin/bash
# helper used while building C11: unified diff of one file between two scratch copies of /repo
# usage: c11_mkdiff.sh <base dir> <fixed dir> <relative file>...   (prints a -p1 patch)
base="$1"; fix="$2"; shift 2
for f in "$@"; do
  diff -u --label "a/$f" --label "b/$f" "$base/$f" "$fix/$f"
done
exit 0
