"""Shared machinery for the per-property checks (see DESIGN.md section 4)."""
import fcntl, hashlib, json, os, re, subprocess, sys, time

VERIF = os.path.dirname(os.path.dirname(os.path.abspath(__file__)))
REPO = os.environ.get("VERIF_REPO", "/repo")
COQ = os.path.join(VERIF, "coq")
HARNESS = os.path.join(VERIF, "harness")
def _target_dir():
    if REPO == "/repo":
        return os.path.join(HARNESS, "target")
    return os.path.join(HARNESS, "target-" + hashlib.sha256(REPO.encode()).hexdigest()[:8])


HBIN = os.path.join(_target_dir(), "release", "verif-harness")
# trials against other checkouts (VERIF_REPO) must not overwrite the committed evidence
_OUT = os.environ.get("VERIF_OUT")
EVID = os.path.join(_OUT, "evidence") if _OUT else os.path.join(VERIF, "evidence")
REPLAYS = os.path.join(_OUT, "replays") if _OUT else os.path.join(VERIF, "replays")
WORK = os.path.join(VERIF, "work")
COQ_Q = ["-Q", "Script", "Verif", "-Q", "Ms", "Verif", "-Q", "Proofs", "Verif", "-Q", "Properties", "Verif", "-Q", "Tables", "Verif"]
COQ_W = ["-w", "-notation-overridden,-deprecated-hint-without-locality,-deprecated-instance-without-locality"]

ALLOWED_AXIOMS = {
    # standard-library axioms that may legitimately appear (named in DESIGN.md section 6)
    "functional_extensionality_dep", "FunctionalExtensionality.functional_extensionality_dep",
}


def sh(cmd, cwd=None, timeout=3600, env=None, stack_unlimited=False, check=False):
    e = dict(os.environ)
    e.setdefault("CARGO_NET_OFFLINE", "true")
    if env:
        e.update(env)
    if stack_unlimited:
        if isinstance(cmd, list):
            cmd = " ".join(_q(c) for c in cmd)
        cmd = "ulimit -s unlimited 2>/dev/null; " + cmd
    shell = isinstance(cmd, str)
    p = subprocess.run(cmd, cwd=cwd, shell=shell, env=e, stdout=subprocess.PIPE, stderr=subprocess.PIPE,
                       timeout=timeout, text=True, executable="/bin/bash" if shell else None)
    if check and p.returncode != 0:
        raise RuntimeError("command failed: %s\n%s\n%s" % (cmd, p.stdout[-4000:], p.stderr[-4000:]))
    return p


def _q(s):
    return "'" + s.replace("'", "'\\''") + "'"


class Lock:
    def __init__(self, name):
        os.makedirs(WORK, exist_ok=True)
        self.path = os.path.join(WORK, name + ".lock")

    def __enter__(self):
        self.f = open(self.path, "w")
        fcntl.flock(self.f, fcntl.LOCK_EX)
        return self

    def __exit__(self, *a):
        fcntl.flock(self.f, fcntl.LOCK_UN)
        self.f.close()


def build_harness():
    """Rebuild the harness against /repo's current working tree with hooks enabled."""
    with Lock("cargo"):
        lock_src = os.path.join(REPO, "Cargo.lock")
        lock_dst = os.path.join(HARNESS, "Cargo.lock")
        if not os.path.exists(lock_dst):
            import shutil
            shutil.copy(lock_src, lock_dst)
        tmpl = open(os.path.join(HARNESS, "Cargo.toml.in")).read().replace("@REPO@", REPO)
        if REPO == "/repo":
            mdir = HARNESS
        else:
            # a separate manifest directory per alternative checkout, so that trials against
            # scratch worktrees never redirect the default build
            mdir = os.path.join(WORK, "harness-" + hashlib.sha256(REPO.encode()).hexdigest()[:8])
            os.makedirs(mdir, exist_ok=True)
            tmpl += '\n[[bin]]\nname = "verif-harness"\npath = "%s"\n' % os.path.join(HARNESS, "src", "main.rs")
            import shutil
            if not os.path.exists(os.path.join(mdir, "Cargo.lock")):
                shutil.copy(lock_dst, os.path.join(mdir, "Cargo.lock"))
            cfgd = os.path.join(mdir, ".cargo")
            os.makedirs(cfgd, exist_ok=True)
            open(os.path.join(cfgd, "config.toml"), "w").write("[net]\noffline = true\n")
        ct = os.path.join(mdir, "Cargo.toml")
        if not os.path.exists(ct) or open(ct).read() != tmpl:
            open(ct, "w").write(tmpl)
        p = sh(["cargo", "build", "--release", "--offline"], cwd=mdir, timeout=1800,
               env={"RUSTFLAGS": "--cfg miniscript_verif", "CARGO_NET_OFFLINE": "true",
                    "CARGO_TARGET_DIR": _target_dir()})
        if p.returncode != 0:
            raise RuntimeError("harness build failed (does /repo still compile?)\n" + p.stderr[-6000:])
    return HBIN


def coq_make(targets=None, jobs=16, timeout=3000):
    """Full .vo build of the static part of the Coq development (cached by make)."""
    with Lock("coq"):
        if not os.path.exists(os.path.join(COQ, "Makefile")):
            sh(["coq_makefile", "-f", "_CoqProject", "-o", "Makefile"], cwd=COQ, check=True)
        cmd = ["timeout", str(timeout), "make", "-j%d" % jobs] + (targets or [])
        p = sh(cmd, cwd=COQ, timeout=timeout + 60, stack_unlimited=True)
    return p


def coqc(path, timeout=1200):
    """Compile one file (relative to coq/) and return the process (stdout has Eval/Print output)."""
    return sh(["timeout", str(timeout), "coqc", "-noglob"] + COQ_Q + COQ_W + [path], cwd=COQ,
              timeout=timeout + 60, stack_unlimited=True)


def strip_comments(src):
    out, depth, i = [], 0, 0
    while i < len(src):
        if src.startswith("(*", i):
            depth += 1
            i += 2
        elif src.startswith("*)", i) and depth > 0:
            depth -= 1
            i += 2
        else:
            if depth == 0:
                out.append(src[i])
            i += 1
    return "".join(out)


FORBIDDEN = re.compile(
    r"\b(Admitted|admit|Axiom|Axioms|Parameter|Parameters|Conjecture|Conjectures|Admit\s+Obligations|"
    r"bypass_check|Unset\s+Guard\s+Checking|Unset\s+Positivity\s+Checking|Unset\s+Universe\s+Checking|"
    r"type-in-type|impredicative-set|native_compute)\b")
SECTION_ONLY = re.compile(r"^\s*(Variable|Variables|Hypothesis|Hypotheses|Context)\b")


def grep_gate():
    """No Admitted/admit/Axiom/... anywhere; Variable/Hypothesis only inside a Section."""
    problems = []
    for root, _, files in os.walk(COQ):
        for f in files:
            if not f.endswith(".v"):
                continue
            p = os.path.join(root, f)
            src = strip_comments(open(p).read())
            # drop string literals
            src_ns = re.sub(r'"[^"]*"', '""', src)
            for m in FORBIDDEN.finditer(src_ns):
                problems.append("%s: forbidden token %r" % (os.path.relpath(p, VERIF), m.group(0)))
            depth = 0
            for line in src_ns.splitlines():
                if re.match(r"^\s*Section\b", line):
                    depth += 1
                elif re.match(r"^\s*End\b", line) and depth > 0:
                    depth -= 1
                elif SECTION_ONLY.match(line) and depth == 0:
                    problems.append("%s: %s outside a Section" % (os.path.relpath(p, VERIF), line.strip()[:60]))
    for extra in ("_CoqProject",):
        s = open(os.path.join(COQ, extra)).read()
        if "type-in-type" in s or "impredicative-set" in s:
            problems.append("_CoqProject passes a forbidden flag")
    return problems


def parse_assumptions(out):
    """Split coqc output of a Properties file into one block per Print Assumptions."""
    blocks, cur = [], None
    for line in out.splitlines():
        if line.startswith("Closed under the global context"):
            blocks.append({"closed": True, "axioms": []})
            cur = None
        elif line.startswith("Axioms:"):
            cur = {"closed": False, "axioms": []}
            blocks.append(cur)
        elif cur is not None and line.strip():
            m = re.match(r"^(\S+)\s*:", line)
            if m:
                cur["axioms"].append(m.group(1))
    return blocks


def check_property_file(pid):
    """Re-compile Properties/<pid>.v, return (theorem names, assumption blocks, problems, text)."""
    path = "Properties/%s.v" % pid
    src = open(os.path.join(COQ, path)).read()
    thms = re.findall(r"^\s*Theorem\s+(\w+)", strip_comments(src), flags=re.M)
    p = coqc(path)
    problems = []
    if p.returncode != 0:
        problems.append("Properties/%s.v does not compile: %s" % (pid, (p.stderr or p.stdout)[-1500:]))
        return thms, [], problems, p.stdout + p.stderr
    blocks = parse_assumptions(p.stdout)
    if len(blocks) != len(thms):
        problems.append("expected %d Print Assumptions blocks, saw %d" % (len(thms), len(blocks)))
    for t, b in zip(thms, blocks):
        bad = [a for a in b["axioms"] if a not in ALLOWED_AXIOMS]
        if bad:
            problems.append("theorem %s depends on non-allow-listed axioms %s" % (t, bad))
    return thms, blocks, problems, p.stdout


# ---------------------------------------------------------------- findings / reporting
def load_known(pid):
    path = os.path.join(VERIF, "known_findings.txt")
    known = []
    if os.path.exists(path):
        for line in open(path):
            line = line.strip()
            m = re.match(r"^finding:\s+property=(\S+)\s+key=(\S+)\s+(.*)$", line)
            if m and m.group(1) == pid:
                known.append({"key": m.group(2), "desc": m.group(3)})
    return known


class Report:
    """Collects violations; matches them against known findings; writes replay + evidence."""

    def __init__(self, pid, tier, seed, level):
        self.pid, self.tier, self.seed, self.level = pid, tier, seed, level
        self.t0 = time.time()
        self.violations = []     # dicts: key, what, replay(obj), found_input(bool)
        self.coverage = {}
        self.assumptions = []
        self.known = load_known(pid)
        self.known_hit = {}

    def violation(self, key, what, replay, found_input=True):
        for k in self.known:
            if k["key"] == key:
                self.known_hit.setdefault(key, {"desc": k["desc"], "what": what, "count": 0})
                self.known_hit[key]["count"] += 1
                return
        self.violations.append({"key": key, "what": what, "replay": replay, "found_input": found_input})

    def finish(self):
        os.makedirs(EVID, exist_ok=True)
        os.makedirs(REPLAYS, exist_ok=True)
        lines = []
        for key, h in sorted(self.known_hit.items()):
            lines.append("KNOWN-FINDING: property=%s %s [%s; %d case(s) this run, e.g. %s]" %
                         (self.pid, h["desc"], key, h["count"], h["what"][:200]))
        seen = set()
        for v in self.violations:
            if v["key"] in seen:
                continue
            seen.add(v["key"])
            body = json.dumps(v["replay"], sort_keys=True, indent=1, default=str)
            dig = hashlib.sha256(body.encode()).hexdigest()[:12]
            path = os.path.join(REPLAYS, "%s-%s.json" % (self.pid, dig))
            with open(path, "w") as f:
                f.write(body)
            tail = "" if v["found_input"] else " no-failing-input-found"
            lines.append("VIOLATION property=%s replay=%s%s" % (self.pid, path, tail))
            sys.stderr.write("  [%s] %s\n" % (v["key"], v["what"][:2000]))
        ev = {
            "property_id": self.pid, "tier": self.tier, "seed": self.seed, "level": self.level,
            "coverage": self.coverage, "assumptions": self.assumptions,
            "wall_s": round(time.time() - self.t0, 2), "violations": len(seen),
            "known_findings_printed": sorted(self.known_hit.keys()),
        }
        with open(os.path.join(EVID, "%s.json" % self.pid), "w") as f:
            json.dump(ev, f, indent=1, sort_keys=True, default=str)
        for l in lines:
            print(l)
        print("%s %s: %s in %.1fs (%d violation(s), %d known finding(s))" %
              (self.pid, self.tier, "FAIL" if seen else "ok", time.time() - self.t0, len(seen), len(self.known_hit)))
        return 1 if seen else 0


TRUSTED_BASE_COMMON = [
    "Coq 8.16.1 kernel incl. its vm_compute evaluator (native_compute not used)",
    "hand-written Gallina model of the Rust code, tied by the correspondence/table checks of this run",
    "hand-written specification side (Spec.v / Script semantics / truth tables)",
    "Rust harness /verif/harness and tools/*.py (orchestration, table generation, comparison)",
    "rustc, cargo, rust-bitcoin, secp256k1 (cryptographic primitives are not modelled)",
]


# Properties/TheoremB.v (exact denotational semantics) underlies the Script-level statements of C02, C03, C06
EXTRA_PROPERTY_FILES = {"C06": ["TheoremB"]}


def proof_gates(rep, pid):
    """Common proof-level gates: full make, grep gate, property file + Print Assumptions."""
    p = coq_make()
    ok = True
    if p.returncode != 0:
        rep.violation("coq-build", "the Coq development no longer builds: " + (p.stderr or p.stdout)[-1500:],
                      {"property": pid, "broken_tie": "make (Coq development)", "log": (p.stdout + p.stderr)[-4000:]},
                      found_input=False)
        ok = False
    g = grep_gate()
    if g:
        rep.violation("grep-gate", "; ".join(g), {"property": pid, "broken_tie": "grep gate", "problems": g}, found_input=False)
        ok = False
    thms, blocks, problems, text = ([], [], [], "")
    if ok:
        thms, blocks, problems, text = check_property_file(pid)
        if problems:
            rep.violation("property-file", "; ".join(problems),
                          {"property": pid, "broken_tie": "Properties/%s.v" % pid, "problems": problems}, found_input=False)
            ok = False
    # shared statement files this property's theorems rest on are gated the same way
    for extra in EXTRA_PROPERTY_FILES.get(pid, []):
        if ok:
            t2, b2, pr2, _ = check_property_file(extra)
            if pr2:
                rep.violation("property-file", "; ".join(pr2),
                              {"property": pid, "broken_tie": "Properties/%s.v" % extra, "problems": pr2}, found_input=False)
                ok = False
            thms, blocks = thms + t2, blocks + b2
    rep.coverage["theorems"] = thms
    rep.coverage["print_assumptions"] = [("closed" if b["closed"] else ",".join(b["axioms"])) for b in blocks]
    return ok, thms
