#!/bin/bash
# compile one Coq file of the development with the project's load path (helper while building C11)
cd "$(dirname "$0")/../coq" || exit 1
ulimit -s unlimited 2>/dev/null
timeout "${2:-900}" coqc -noglob -Q Script Verif -Q Ms Verif -Q Proofs Verif -Q Properties Verif -Q Tables Verif \
  -w -notation-overridden,-deprecated-hint-without-locality,-deprecated-instance-without-locality "$1" 2>&1 | tail -40
