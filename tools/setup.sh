#!/bin/bash
# Build the framework from files on disk only (offline): Coq development (full .vo build),
# Rust harness against /repo's current tree with hooks enabled.
set -e
set -o pipefail
cd "$(dirname "$0")/.."
export CARGO_NET_OFFLINE=true
ulimit -s unlimited 2>/dev/null || true
mkdir -p work evidence replays
( cd coq && coq_makefile -f _CoqProject -o Makefile >/dev/null && timeout 3000 make -j16 ) 2>&1 | tail -5
[ -f harness/Cargo.lock ] || cp /repo/Cargo.lock harness/Cargo.lock
sed "s#@REPO@#${VERIF_REPO:-/repo}#" harness/Cargo.toml.in > harness/Cargo.toml
( cd harness && RUSTFLAGS="--cfg miniscript_verif" cargo build --release --offline ) 2>&1 | tail -3
if [ -d ocaml ] && [ -f ocaml/build.sh ]; then ( cd ocaml && ./build.sh ) 2>&1 | tail -3; fi
echo setup done
