#!/usr/bin/env python3
"""Panic-site inventory for property C11.

Extracts every potential panic site -- `unwrap(` / `expect(` / `unreachable!` / `panic!` /
`assert!`-family / index or slice expression `x[..]` / `- 1` subtraction -- from the NON-TEST
source of the files the property anchors (plus the files where this build observed panics),
with file, line, enclosing fn.  A site's identity is (file, enclosing fn, kind, normalised
code, ordinal among equal sites of that fn): edits elsewhere in a file do not change it.

  tools/panic_sites.py extract [repo]      -> JSON list on stdout
  tools/panic_sites.py build   [repo]      -> writes notes/C11-panic-sites.json (inventory + dispositions)
  tools/panic_sites.py diff    [repo]      -> prints new / gone sites w.r.t. the committed inventory

Dispositions (field `disp`): `model:<Coq id>` (explicit Panic outcome of a model function or
a lemma showing it unreachable), `observed:<finding key>` (a run of the robust engine reaches
it on the unchanged tree: a finding), `arg:<text>` (one-line argument why it is unreachable),
`debug-only`, `unmodelled` (exercised by the robust engine only)."""
import hashlib, json, os, re, sys

VERIF = os.path.dirname(os.path.dirname(os.path.abspath(__file__)))
INVENTORY = os.path.join(VERIF, "notes", "C11-panic-sites.json")

FILES = [
    # anchors of the property
    "src/expression/mod.rs", "src/miniscript/lex.rs", "src/miniscript/decode.rs", "src/miniscript/mod.rs",
    "src/descriptor/key.rs", "src/descriptor/tr/mod.rs", "src/interpreter/inner.rs", "src/interpreter/mod.rs",
    "src/interpreter/stack.rs", "src/psbt/finalizer.rs", "src/psbt/mod.rs", "src/plan.rs",
    "src/policy/concrete.rs", "src/policy/semantic.rs",
    # mechanisms the property names + files where panics were observed by this build
    "src/iter/tree.rs", "src/primitives/threshold.rs", "src/policy/mod.rs", "src/policy/compiler.rs",
    "src/miniscript/display.rs", "src/miniscript/satisfy/mod.rs", "src/miniscript/satisfy/sat_dissat.rs",
    "src/descriptor/mod.rs", "src/descriptor/sh.rs", "src/util.rs", "src/descriptor/tr/taptree.rs",
    "src/descriptor/tr/spend_info.rs", "src/descriptor/checksum.rs", "src/expression/error.rs",
]

# which robust-engine classes exercise a file (directed run when its inventory changes)
FILE_CLASSES = {
    "src/expression/mod.rs": ["str.tree", "str.ms.segwitv0", "str.desc.dpk", "str.policy.concrete"],
    "src/expression/error.rs": ["str.tree"],
    "src/miniscript/lex.rs": ["bytes.decode.segwitv0", "bytes.decode.tap", "interp"],
    "src/miniscript/decode.rs": ["bytes.decode.bare", "bytes.decode.legacy", "bytes.decode.segwitv0", "bytes.decode.tap", "interp"],
    "src/miniscript/mod.rs": ["str.ms.bare", "str.ms.legacy", "str.ms.segwitv0", "str.ms.tap", "bytes.decode.segwitv0"],
    "src/descriptor/key.rs": ["str.key.public", "str.key.secret", "str.key.definite", "str.desc.dpk"],
    "src/descriptor/tr/mod.rs": ["str.desc.dpk", "str.desc.definite", "plan", "sat"],
    "src/descriptor/tr/taptree.rs": ["str.desc.dpk", "str.desc.string"],
    "src/descriptor/tr/spend_info.rs": ["str.desc.definite", "psbt"],
    "src/descriptor/checksum.rs": ["str.tree", "str.desc.string"],
    "src/interpreter/inner.rs": ["interp"], "src/interpreter/mod.rs": ["interp"], "src/interpreter/stack.rs": ["interp"],
    "src/psbt/finalizer.rs": ["psbt"], "src/psbt/mod.rs": ["psbt"],
    "src/plan.rs": ["plan", "sat"],
    "src/policy/concrete.rs": ["str.policy.concrete", "value.policy"],
    "src/policy/semantic.rs": ["str.policy.semantic", "value.policy"],
    "src/policy/mod.rs": ["value.policy", "str.policy.concrete", "str.ms.segwitv0"],
    "src/policy/compiler.rs": ["value.policy", "str.policy.concrete"],
    "src/iter/tree.rs": ["str.ms.segwitv0", "value.cmp", "bytes.decode.segwitv0"],
    "src/primitives/threshold.rs": ["value.policy", "str.ms.segwitv0", "str.policy.semantic"],
    "src/miniscript/display.rs": ["value.cmp", "str.ms.segwitv0"],
    "src/miniscript/satisfy/mod.rs": ["sat", "plan", "psbt"],
    "src/miniscript/satisfy/sat_dissat.rs": ["sat", "plan", "psbt"],
    "src/descriptor/mod.rs": ["str.desc.dpk", "str.desc.definite", "plan"],
    "src/descriptor/sh.rs": ["str.desc.definite", "sat"],
    "src/util.rs": ["str.desc.definite", "sat", "psbt"],
}


def strip(src):
    """Blank out comments, string and char literals (newlines kept), so that regexes see code only."""
    out = []
    i, n = 0, len(src)
    while i < n:
        c = src[i]
        if src.startswith("//", i):
            j = src.find("\n", i)
            j = n if j < 0 else j
            out.append(" " * (j - i)); i = j
        elif src.startswith("/*", i):
            depth, j = 1, i + 2
            while j < n and depth:
                if src.startswith("/*", j): depth += 1; j += 2
                elif src.startswith("*/", j): depth -= 1; j += 2
                else: j += 1
            out.append("".join(ch if ch == "\n" else " " for ch in src[i:j])); i = j
        elif c == '"' or (c == "r" and re.match(r'r#*"', src[i:i + 8]) and (i == 0 or not (src[i - 1].isalnum() or src[i - 1] == "_"))) or \
                (c == "b" and src[i + 1:i + 2] == '"'):
            m = re.match(r'b?r(#*)"', src[i:i + 10])
            if m:
                close = '"' + m.group(1)
                j = src.find(close, i + len(m.group(0)))
                j = n if j < 0 else j + len(close)
            else:
                j = i + (2 if c == "b" else 1)
                while j < n and src[j] != '"':
                    j += 2 if src[j] == "\\" else 1
                j += 1
            out.append('"' + "".join(ch if ch == "\n" else " " for ch in src[i + 1:j - 1]) + '"'); i = j
        elif c == "'":
            m = re.match(r"'(\\.[^']*|[^'\\])'", src[i:i + 12])
            if m:
                out.append("' '" + " " * (len(m.group(0)) - 3)); i += len(m.group(0))
            else:
                out.append(c); i += 1  # lifetime
        else:
            out.append(c); i += 1
    return "".join(out)


def cut_tests(code):
    """Blank `#[cfg(test)]`-gated items (mod tests { .. } or single fns) keeping line numbers."""
    out = list(code)
    for m in re.finditer(r"#\[cfg\((?:all\()?test\b[^\]]*\]", code):
        j = m.end()
        k = code.find("{", j)
        semi = code.find(";", j)
        if k < 0 or (0 <= semi < k):
            continue
        depth, p = 0, k
        while p < len(code):
            if code[p] == "{": depth += 1
            elif code[p] == "}":
                depth -= 1
                if depth == 0: break
            p += 1
        for q in range(m.start(), min(p + 1, len(code))):
            if out[q] != "\n": out[q] = " "
    return "".join(out)


PATTERNS = [
    ("unwrap", re.compile(r"\.unwrap\(\)")),
    ("expect", re.compile(r"\.expect\(")),
    ("expect_translator_err", re.compile(r"\.expect_translator_err\(")),
    ("unreachable", re.compile(r"\bunreachable!")),
    ("panic", re.compile(r"\b(?:panic|todo|unimplemented)!")),
    ("assert", re.compile(r"(?<![_\w])assert(?:_eq|_ne)?!")),
    ("debug_assert", re.compile(r"\bdebug_assert(?:_eq|_ne)?!")),
    ("sub1", re.compile(r"-=?\s*1\b(?!\s*\.\.)")),
]
INDEX = re.compile(r"(?<=[\w\)\]])\[([^\[\]]*(?:\[[^\[\]]*\][^\[\]]*)*)\]")


def fn_spans(code):
    """list of (start_offset, end_offset, name) for fn bodies (innermost wins)"""
    spans, stack, depth = [], [], 0
    pending = None
    for m in re.finditer(r"\bfn\s+([A-Za-z_]\w*)|[{};]", code):
        t = m.group(0)
        if t.startswith("fn"):
            pending = (m.group(1), depth)
        elif t == "{":
            if pending and pending[1] == depth:
                stack.append((pending[0], depth, m.start()))
                pending = None
            depth += 1
        elif t == "}":
            depth -= 1
            if stack and stack[-1][1] == depth:
                name, _, st = stack.pop()
                spans.append((st, m.start(), name))
        elif t == ";":
            if pending and pending[1] == depth:
                pending = None
    return spans


def extract(repo):
    sites = []
    for rel in FILES:
        path = os.path.join(repo, rel)
        if not os.path.exists(path):
            continue
        raw = open(path).read()
        code = cut_tests(strip(raw))
        spans = sorted(fn_spans(code), key=lambda s: s[1] - s[0])
        line_of = [0]
        for i, ch in enumerate(code):
            if ch == "\n": line_of.append(i + 1)
        import bisect

        def where(off):
            ln = bisect.bisect_right(line_of, off)
            for st, en, name in spans:
                if st <= off <= en:
                    return ln, name
            return ln, "<top>"
        raw_lines = raw.split("\n")
        found = []
        for kind, rx in PATTERNS:
            for m in rx.finditer(code):
                found.append((m.start(), kind))
        for m in INDEX.finditer(code):
            inner = m.group(1).strip()
            if not inner or ";" in inner:
                continue
            pre = code[max(0, m.start() - 40):m.start()]
            if re.search(r"#\s*$", pre) or re.search(r"!\s*$", pre):
                continue
            # type positions:  x: Foo[..] never happens; generic/array types are preceded by < & space (filtered by lookbehind)
            found.append((m.start(), "slice" if ".." in inner else "index"))
        found.sort()
        counter = {}
        for off, kind in found:
            ln, fn = where(off)
            text = re.sub(r"\s+", " ", raw_lines[ln - 1].strip())[:160]
            norm = re.sub(r"\s+", "", text)
            base = (rel, fn, kind, hashlib.sha256(norm.encode()).hexdigest()[:8])
            counter[base] = counter.get(base, 0) + 1
            sid = "%s::%s::%s::%s#%d" % (rel, fn, kind, base[3], counter[base])
            sites.append({"id": sid, "file": rel, "line": ln, "fn": fn, "kind": kind, "code": text})
    return sites


# ------------------------------------------------------------------ dispositions
# (file, fn regex, kind regex, code regex) -> disposition ; first match wins
RULES = [
    ("src/plan.rs", r"^is_key_direct_child_of$", r"", r"", "model:RobustModel.child_of - planner_total (split_last: no partial operation left; the len - 1 site of DESIGN 10-f was removed by /repo 540253fb)"),
    ("src/primitives/threshold.rs", r"^fmt$", r"unwrap|debug_assert", r"", "arg:Display of ThresholdError: max.is_some() whenever k,n valid and n > MAX (validate_k_n is the only constructor); model:RobustModel.thr_err_display_total"),
    ("src/primitives/threshold.rs", r"^(or|and)$", r"debug_assert", r"", "debug-only; model:RobustModel.thr_or/thr_and (MAX = 0 or MAX > 1 is a precondition, C11.threshold_ctor_total)"),
    ("src/primitives/threshold.rs", r"^map_from_post_order_iter$", r"", r"", "model:RobustModel.thr_map_post_order (Panic 2 when an index is out of range) - thr_map_post_order_total under post-order indices"),
    ("src/primitives/threshold.rs", r"^is_sorted$", r"index", r"", "arg:windows(2) yields slices of length exactly 2"),
    ("src/primitives/threshold.rs", r"", r"", r"", "model:RobustModel (threshold constructors) - threshold_ctor_total"),
    ("src/iter/tree.rs", r"^next$", r"unwrap", r"nth_child", "model:RobustModel.post_next / push_children_rev (Panic 3) - nth_child(idx) with idx < n_children: post_order_iter_correct_C11 (post_order t = ROk (post_spec t 0), RobustIterProofs.push_children_exact); the VerbosePreOrderIter copy of the site is tied only (RobustIterCasesCheck comparisons 4, 5)"),
    ("src/iter/tree.rs", r"^next$", r"index", r"", "model:RobustModel.post_next (Panic 2 / 4) - parent_stack_idx always below the stack height: post_order_iter_correct_C11 (RobustIterProofs.push_child_index_at, forest_ok)"),
    ("src/iter/tree.rs", r"^next$", r"sub1", r"", "arg:self.index was incremented on the previous line"),
    ("src/iter/tree.rs", r"^nary_index$", r"sub1", r"", "model:RobustIterSpec.rtl_nary_index (Panic 1 twice, Panic 2) - rtl_post_order_iter_correct_C11 (rtl_nth_child never panics: nth_child's `n < nary_len` guards len - idx - 1)"),
    ("src/iter/tree.rs", r"", r"", r"", "model:RobustModel / RobustIterSpec (tree iterators): pre_order_iter_total_C11, post_order_iter_correct_C11, rtl_post_order_iter_correct_C11; tied by Tables/RobustIterCasesCheck.v"),
    ("src/descriptor/tr/taptree.rs", r"^push_leaf$", r"sub1", r"", "model:RobustTapTreeModel.tb_push_leaf / tb_loop (Panic 1: u8 current_height -= 1; also Panic 9: 1 << current_height) - tap_tree_builder_total, tap_tree_builder_never_panics; tied by Tables/RobustIterCasesCheck.v (tap_rows through Tr::from_str)"),
    ("src/descriptor/tr/taptree.rs", r"^finalize$", r"assert", r"", "model:RobustTapTreeModel.tb_finalize (Panic 7) - tap_tree_builder_total: Tr::from_tree pushes at least one leaf before finalize (tdepths_nonempty)"),
    ("src/descriptor/tr/taptree.rs", r"^combine$", r"sub1", r"TAPROOT_CONTROL_MAX_NODE_COUNT - 1", "arg:constant expression 128 - 1; the u8 `*depth + 1` below it is reached only for depth <= 127"),
    ("src/miniscript/lex.rs", r"", r"", r"", "model:RobustModel.lex_cursor - lex_total (the byte cursor is rust-bitcoin's Instructions; lex.rs itself has no index expression)"),
    ("src/expression/mod.rs", r"^(parse_pre_check|from_str_inner|new_node)$", r"", r"", "model:ExprTreeModel (C10 builder) - tree_total; robust classes str.tree / str.*"),
    ("src/expression/mod.rs", r"^root$", r"assert", r"", "arg:from_str_inner always pushes at least the root node (tree_total, C10)"),
    ("src/miniscript/display.rs", r"", r"unreachable", r"", "arg:since /repo 32d9f676 cmp compares arity and k at every node, so the two pre-order walks stay aligned (DESIGN 10-d fixed; regression input known-10d-multi-arity in robust class value.cmp); model owned by C19"),
    ("src/policy/mod.rs", r"^lift$", r"unwrap|expect", r"", "arg:since /repo 780a529d lift builds the threshold from the number of children and handles the empty cases (DESIGN 10-e fixed; regression inputs A[k0], A[], O[] in robust class value.policy); model owned by C18"),
    ("src/policy/compiler.rs", r"^cmp$", r"unwrap", r"", "observed:panic:src/policy/compiler.rs:cmp (NaN cost from Or with both odds 0; known finding, value-level only)"),
    ("src/policy/compiler.rs", r"^best_compilations$", r"index", r"subs.0..0 . subs.1..0", "observed:panic:src/policy/compiler.rs:best_compilations (usize overflow adding the odds of an Or; known finding, value-level only)"),
    ("src/descriptor/key.rs", r"^derive_public_key$", r"unreachable", r"", "arg:since /repo fc4edba4 the parser rejects extended keys whose derivation would exceed depth 255 (regression inputs path-256-steps, path-1e5 in str.key.* / str.desc.*); hardened steps excluded by DefiniteDescriptorKey::new"),
    ("src/psbt/finalizer.rs", r"^get_utxo$", r"index", r"", "arg:inputs.len() == unsigned_tx.input.len() is a structural invariant of a deserialised Psbt; the non_witness_utxo.output[vout] index was replaced by get() in /repo 82797344 (regression: psbt mutator non_witness_utxo-vout-out-of-range)"),
    ("src/miniscript/satisfy/mod.rs", r"^satisfy(_mall)?$", r"expect|unwrap", r"", "arg:since /repo c829870f an incompletable template yields an unavailable satisfaction (regression: psbt class, tap leaf with a raw pkh)"),
    ("src/miniscript/satisfy/mod.rs", r"^satisfy_self$", r"debug_assert", r"", "debug-only; contract between AssetProvider sizes and Satisfier signatures"),
    ("src/miniscript/satisfy/sat_dissat.rs", r"^sat_dissat$", r"assert$", r"[lr]_dis.has_sig", "observed:panic:src/miniscript/satisfy/sat_dissat.rs:sat_dissat:assertion-failed-{l,r}-dis-has-sig (malleable satisfier, or_b / or_c / or_d over or_i(c:expr_raw_pkh(H unresolved),and_v(v:pk(A),pk(B))) with a signature for A; directed input class rawpkh-unresolved-under-d-child in robust classes sat and psbt; known finding, candidate repair notes/fixes/C11-sat-dissat-has-sig-assert.diff)"),
    ("src/miniscript/satisfy/sat_dissat.rs", r"^sat_dissat$", r"assert$", r"has_sig", "arg:or_b/or_c/or_d require a `d` (unique dissatisfaction) left child, typing gives dissat.has_sig = false; exercised by robust class `sat` (typed-but-insane scripts x asset subsets); satisfier model owned by C01/C02"),
    ("src/descriptor/sh.rs", r"", r"assert", r"", "arg:redeem scripts above 520 bytes are rejected at construction since /repo 5d25865d / 4c5160f8 (size accounting of uncompressed keys; regression input sh-redeem-521-bytes, reported by C07)"),
    ("src/util.rs", r"", r"expect", r"", "arg:redeem scripts above 520 bytes are rejected at construction since /repo 5d25865d / 4c5160f8 (regression input sh-redeem-521-bytes, reported by C07)"),
]


def disposition(site):
    for f, fnrx, kindrx, coderx, disp in RULES:
        if site["file"] == f and re.search(fnrx, site["fn"]) and re.search(kindrx, site["kind"]) and re.search(coderx, site["code"]):
            return disp
    if site["kind"] == "debug_assert":
        return "debug-only"
    return "unmodelled"


def build(repo):
    sites = extract(repo)
    for s in sites:
        s["disp"] = disposition(s)
    os.makedirs(os.path.dirname(INVENTORY), exist_ok=True)
    with open(INVENTORY, "w") as f:
        json.dump({"files": FILES, "sites": sites}, f, indent=0, sort_keys=True)
    return sites


def diff(repo):
    cur = {s["id"]: s for s in extract(repo)}
    old = {s["id"]: s for s in json.load(open(INVENTORY))["sites"]} if os.path.exists(INVENTORY) else {}
    new = [cur[k] for k in sorted(cur) if k not in old]
    gone = [old[k] for k in sorted(old) if k not in cur]
    return new, gone, cur, old


def fn_at(repo, rel, line):
    """enclosing fn of a line (used to key observed panics by function instead of line)"""
    path = os.path.join(repo, rel)
    if not os.path.exists(path):
        return "?"
    code = strip(open(path).read())
    spans = sorted(fn_spans(code), key=lambda s: s[1] - s[0])
    off = 0
    for i, l in enumerate(code.split("\n"), 1):
        if i == line:
            break
        off += len(l) + 1
    for st, en, name in spans:
        if st <= off <= en:
            return name
    return "<top>"


if __name__ == "__main__":
    cmd = sys.argv[1] if len(sys.argv) > 1 else "extract"
    repo = sys.argv[2] if len(sys.argv) > 2 else os.environ.get("VERIF_REPO", "/repo")
    if cmd == "extract":
        json.dump(extract(repo), sys.stdout, indent=0)
    elif cmd == "build":
        s = build(repo)
        kinds, disp = {}, {}
        for x in s:
            kinds[x["kind"]] = kinds.get(x["kind"], 0) + 1
            d = x["disp"].split(":")[0].split(";")[0]
            disp[d] = disp.get(d, 0) + 1
        print(len(s), "sites", kinds, disp)
    elif cmd == "diff":
        new, gone, _, _ = diff(repo)
        for s in new: print("NEW ", s["id"], "line", s["line"], "|", s["code"])
        for s in gone: print("GONE", s["id"], "line", s["line"], "|", s["code"])
        print("new=%d gone=%d" % (len(new), len(gone)))
