#!/usr/bin/env python3
"""usage: merge_findings.py <branch> <PROP>...  — after a union merge, the lines of known_findings.txt
about the given properties are taken from <branch> alone (a union resurrects lines the owner deleted)."""
import subprocess, sys, re
branch, props = sys.argv[1], sys.argv[2:]
theirs = subprocess.run(["git", "show", "%s:known_findings.txt" % branch], capture_output=True, text=True, check=True).stdout.splitlines()
def about(l):
    m = re.search(r"property=(C\d+)", l)
    return m.group(1) if m else None
cur = open("known_findings.txt").read().splitlines()
out = [l for l in cur if about(l) not in props]
seen = set(out)
for l in theirs:
    if about(l) in props and l not in seen:
        out.append(l); seen.add(l)
open("known_findings.txt", "w").write("\n".join(out) + "\n")
