"""Apply one named mutation to the scratch checkout /tmp/c14-mut (never /repo)."""
import subprocess, sys
R = '/tmp/c14-mut'
subprocess.check_call(['git', '-C', R, 'checkout', '-q', '--', '.'])
name = sys.argv[1]

def edit(path, old, new):
    p = R + '/' + path
    s = open(p).read()
    assert old in s, (name, 'pattern not found')
    open(p, 'w').write(s.replace(old, new, 1))

if name == 'none':
    pass
elif name == 'fail-loses-sigs':
    edit('src/psbt/finalizer.rs',
         "    let (witness, script_sig) = finalize_input_helper(psbt, index, secp, allow_mall)?;\n\n    // Now mutate",
         "    let (witness, script_sig) = match finalize_input_helper(psbt, index, secp, allow_mall) {\n        Ok(x) => x,\n        Err(e) => {\n            psbt.inputs[index].partial_sigs.clear();\n            return Err(e);\n        }\n    };\n\n    // Now mutate")
elif name == 'no-skip-final':
    edit('src/psbt/finalizer.rs',
         "    if psbt.inputs[index].final_script_sig.is_some()\n        || psbt.inputs[index].final_script_witness.is_some()\n    {\n        return Ok(());\n    }\n",
         "")
elif name == 'mut-abort-first':
    edit('src/psbt/mod.rs',
         "                Err(e) => {\n                    errors.push(e);\n                }\n            }\n        }\n        if errors.is_empty() {\n            Ok(())",
         "                Err(e) => {\n                    errors.push(e);\n                    break;\n                }\n            }\n        }\n        if errors.is_empty() {\n            Ok(())")
elif name == 'no-interp-check':
    edit('src/psbt/finalizer.rs',
         "    interpreter_inp_check(psbt, secp, index, utxos, &witness, &script_sig)?;\n\n    Ok((witness, script_sig))",
         "    let _ = (utxos, secp);\n\n    Ok((witness, script_sig))")
elif name == 'update-wrong-redeem':
    edit('src/psbt/mod.rs',
         "                    *item.redeem_script() = Some(wsh.inner_script().to_p2wsh());",
         "                    *item.redeem_script() = Some(wsh.inner_script());")
elif name == 'update-no-spk-check':
    edit('src/psbt/mod.rs',
         "        if check_script != &derived.script_pubkey() {\n            return Ok((derived, false));\n        }",
         "        if check_script != &derived.script_pubkey() && check_script.is_empty() {\n            return Ok((derived, false));\n        }")
elif name == 'keep-sighash-type':
    edit('src/psbt/finalizer.rs',
         "        input.witness_utxo = original.witness_utxo;\n",
         "        input.witness_utxo = original.witness_utxo;\n        input.bip32_derivation = original.bip32_derivation;\n")
elif name == 'extract-skips-check':
    edit('src/psbt/mod.rs',
         "        interpreter_check(self, secp)?;\n        Ok(ret)",
         "        let _ = secp;\n        Ok(ret)")
elif name == 'taporigin-drop-leaf':
    edit('src/psbt/mod.rs',
         "                if tapleaf_hashes.last() != Some(&tapleaf_hash) {\n                    tapleaf_hashes.push(tapleaf_hash);\n                }",
         "                if tapleaf_hashes.is_empty() {\n                    tapleaf_hashes.push(tapleaf_hash);\n                }")
elif name == 'fixes':
    edit('src/psbt/finalizer.rs',
         "        input.witness_utxo = original.witness_utxo;\n",
         "        input.witness_utxo = original.witness_utxo;\n        input.unknown = original.unknown;\n")
    edit('src/plan.rs', "                    .or_insert_with(|| (vec![], key_source));",
         "                    .or_insert_with(|| (leaf_hash.into_iter().collect(), key_source));")
else:
    raise SystemExit('unknown mutation ' + name)
print(subprocess.check_output(['git', '-C', R, 'diff', '--stat']).decode())
