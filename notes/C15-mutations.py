#!/usr/bin/env python3
"""scratch: apply one named mutation to the scratch checkout /tmp/c15-mut (never /repo), run the C15 check."""
import os, subprocess, sys
MUT = "/tmp/c15-mut"  # create with: git -C /repo worktree add --detach /tmp/c15-mut HEAD ; remove afterwards
SI = "src/descriptor/tr/spend_info.rs"
TT = "src/descriptor/tr/taptree.rs"
MUTS = {
 "m1-patch-last-index": (SI, "nodes[cur_index].sibling_hash = lchild_hash;",
                         "{ let last = nodes.len() - 1; nodes[last].sibling_hash = lchild_hash; }"),
 "m2-complete128-inverted": (TT, "            if self.complete_128 {\n                self.complete_128 = false;",
                             "            if !self.complete_128 {\n                self.complete_128 = false;"),
 "m3-translate-swaps-two-leaves": (TT, "        Ok(ret)\n    }\n}\n\nimpl<Pk: MiniscriptKey> Liftable<Pk> for TapTree<Pk>",
                                   "        if ret.depths_leaves.len() >= 3 { let n = ret.depths_leaves.len(); let a = ret.depths_leaves[n - 1].1.clone(); let b = ret.depths_leaves[n - 2].1.clone(); ret.depths_leaves[n - 1].1 = b; ret.depths_leaves[n - 2].1 = a; }\n        Ok(ret)\n    }\n}\n\nimpl<Pk: MiniscriptKey> Liftable<Pk> for TapTree<Pk>"),
 "m4-iter-forgets-merkle-pop": (SI, "                        Some(true) => {\n                            self.merkle_stack.pop();\n                        }",
                                "                        Some(true) => {}"),
 "m5-combine-off-by-one": (TT, "if usize::from(*depth) > TAPROOT_CONTROL_MAX_NODE_COUNT - 1 {", "if usize::from(*depth) > TAPROOT_CONTROL_MAX_NODE_COUNT {"),
 "m6-builder-limit-127": (TT, "if usize::from(self.current_height) > TAPROOT_CONTROL_MAX_NODE_COUNT {", "if usize::from(self.current_height) >= TAPROOT_CONTROL_MAX_NODE_COUNT {"),
 "m7-tweak-uses-last-node": (SI, "internal_key.tap_tweak(&secp, nodes.first().map(|node| node.sibling_hash));", "internal_key.tap_tweak(&secp, nodes.last().map(|node| node.sibling_hash));"),
 "m8-left-sibling-not-patched-deep": (SI, "nodes[parent_idx + 1].sibling_hash = current_hash;", "if parent_stack.len() < 5 { nodes[parent_idx + 1].sibling_hash = current_hash; }"),
 "m9-display-drops-close-at-depth": (TT, "        while let Some(2) = child_counts.last() {\n            f.write_str(\"}\")?;", "        while let Some(2) = child_counts.last() {\n            if child_counts.len() != 7 { f.write_str(\"}\")?; }"),
 "m10-bitstack-push-wrong-when-high": (SI, "        if bit {\n            self.inner |= 1u128 << self.height;", "        if bit && self.height < 100 {\n            self.inner |= 1u128 << self.height;"),
}
name = sys.argv[1]
f, old, new = MUTS[name]
subprocess.run(["git", "-C", MUT, "checkout", "-q", "."], check=True)
p = os.path.join(MUT, f)
s = open(p).read()
assert s.count(old) == 1, "pattern not unique/found: %d" % s.count(old)
open(p, "w").write(s.replace(old, new))
env = dict(os.environ, VERIF_REPO=MUT)
r = subprocess.run(["python3", "tools/check.py", "C15"] + sys.argv[2:], env=env, capture_output=True, text=True)
print("=== %s exit=%d" % (name, r.returncode))
out = (r.stderr + r.stdout).splitlines()
for l in out[-14:]:
    print(l[:700])
subprocess.run(["git", "-C", MUT, "checkout", "-q", "."], check=True)
